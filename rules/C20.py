"""C20 -- VTK output: the file is a well-formed legacy-VTK unstructured grid whose counts agree; writing does not change the writer.

The rules no longer look for statements of a particular shape.  optimism/VTKWriter.py is *interpreted* on a symbolic writer by the
symbolic-shape interpreter of rules/C20_eval.py (integers = polynomials over size symbols, arrays = shapes, text = abstract token
sequences, heap objects with identity and a mutation log; helper methods / module functions / NamedTuples / properties / comprehensions /
functools.partial / dict dispatch tables are simply executed; functions of PRIVATE helper modules of the library -- `optimism/_xxx.py`,
`optimism/sub/_xxx.py`, imported absolutely or relatively, as a module or name by name -- are loaded from the source tree and followed like
same-module helpers, each with its own globals; public modules of the library stay un-interpreted).  For every *situation* (element order 1..4; no / some marker spheres;
no / empty / some contact edges; no / some nodal fields; no / some cell fields; every field kind x every VTK data type as an entry class
of the field dictionaries) the public API is driven as a user would:

    w = VTKWriter(mesh, name); w.add_sphere(..)*; w.add_contact_edges(..)*; w.add_nodal_field(..)*; w.add_cell_field(..)*; w.write(); w.write()

(repeated calls are summarised by an inductively verified template of the writer state, see `repeat_calls`) and the text written to the file
object is read back by an abstract reader of the VTK grammar (rules/C20_text.py).  Roles are found by behaviour (which attribute grows
with add_sphere, which dictionary a field lands in), never by a name; only the public API names are anchors.

  D2/T9  per situation: header lines; section order, no duplicate section; POINTS n: n lines, 3n numbers; CELLS n size: n lines, size
         integers; CELL_TYPES n: n numbers; POINT_DATA == POINTS; CELL_TYPES == CELLS == CELL_DATA; every admitted field is written exactly
         once, under the keyword of its kind and with its data type; every array holds n x (1 | 3 | 9) numbers; add_*_field admit only
         arrays with one record per written point / cell;
  D2/T6  the padding appended per sphere / contact edge is exactly one record of the field's kind, for every data type (decided from the
         written arrays in the situations with spheres / contact edges, and directly on default_values(fieldType, dataType) when that public
         function exists);
  D1/T11 the second write() emits the same abstract file as the first; no function running under write() mutates an object that belonged
         to the writer before the call (mutation log + aliasing).
Modules: C20_interp (values), C20_eval (statements, calls, loop summarisation, sign reasoning), C20_ops (expressions, builtins, NumPy / str
vocabulary), C20_np (shape semantics), C20_text (abstract text, tokeniser, VTK grammar reader), C20_variants (self-test restructurings).
REFUTED is reported only for a derived contradiction (a count polynomial that differs, a token that is not where the grammar needs it, a
NumPy call that raises, a mutation of writer state that changes the second file).  Whatever the interpreter does not model is UNDECIDED.
Not decided: numeric values / number formatting, that connectivity indices refer to written points (mesh numbering data).
"""
from __future__ import annotations

import ast
import itertools

from optilint.core import Incomplete
from optilint.expr import Poly
from .C20_interp import (Int, Scalar, Arr, Str, Key, EnumVal, UserClass, NTInst, Instance, ListV, DictV, FileObj, Func, Env, Undecidable,
                         ProgramError, PC, PS, ZERO, ONE, pconst)
from .C20_eval import Interp
from . import C20_text as T
from . import C20_np as N

LEVEL = "other"
RULE_TEXT = ("obligations = situations (element order x spheres x contact edges x nodal fields x cell fields, field kind x data type as entry classes) "
             "x (grammar / count equalities of the abstract file written by the interpreted writer) + (padding record x field kind x data type) "
             "+ (function running under write() x no mutation of writer state) + (second write == first write)")
EXPLANATION = ("Static analysis of optimism/VTKWriter.py by abstract interpretation: the source is interpreted (never imported or run) on symbolic "
               "sizes; integers are exact polynomials, arrays are shapes with NumPy's shape semantics, text is an abstract token sequence, loops "
               "with symbolic trip counts are summarised by verified linear extrapolation; the abstract file is read back by an abstract reader of "
               "the legacy-VTK grammar; purity comes from a mutation log with aliasing and from comparing two consecutive writes. "
               "Values and number formatting are not analysed.")

V = "optimism.VTKWriter"
R9, R6, R1 = "D2/T9-symbolic-lengths", "D2/T6-padding-record-shape", "D1/T11-write-is-pure"
COMPS = {"SCALARS": 1, "VECTORS": 3, "TENSORS": 9}
VARIANTS = [("SCALARS(n,)", "SCALARS", ()), ("SCALARS(n,1)", "SCALARS", (1,)), ("VECTORS(n,2)", "VECTORS", (2,)), ("VECTORS(n,3)", "VECTORS", (3,)),
            ("TENSORS(n,2,2)", "TENSORS", (2, 2)), ("TENSORS(n,3,3)", "TENSORS", (3, 3))]


# ================================================================================================== aggregation of verdicts

class Agg:
    def __init__(self):
        self.items = {}

    def add(self, rule, construct, verdict, detail, prov=None, sit=""):
        it = self.items.setdefault((rule, construct), {"ok": [], "bad": [], "und": [], "prov": None})
        it[{True: "ok", False: "bad", None: "und"}[verdict]].append((detail, sit, prov))
        if prov is not None and prov[0] is not None and (it["prov"] is None or verdict is False):
            it["prov"] = prov

    def emit(self, ctx, fallback_scope):
        for (rule, construct), it in self.items.items():
            pick = it["bad"] or it["und"] or it["ok"]
            detail, sit, prov = pick[0]
            prov = prov if (prov is not None and prov[0] is not None) else it["prov"]
            scope = prov[0].scope if prov is not None and isinstance(prov[0], Func) and prov[0].scope is not None else fallback_scope
            node = prov[1] if prov is not None and scope is not fallback_scope else None
            nsit = len({s for (_d, s, _p) in it["ok"] + it["bad"] + it["und"]})
            if it["bad"]:
                nb = len({s for (_d, s, _p) in it["bad"]})
                ctx.refuted(rule, scope, node, construct=construct, detail=f"{detail} [situation: {sit}; fails in {nb} of {nsit} situations]")
            elif it["und"]:
                ctx.undecided(rule, scope, node, construct=construct, detail=f"{detail} [situation: {sit}]")
            else:
                ctx.proved(rule, scope, node, construct=construct, detail=f"{detail} [{nsit} situation(s)]")


# ================================================================================================== driving the public API

class Situation:
    def __init__(self, degree, sph, ce, nodal, cell):
        self.degree, self.sph, self.ce, self.nodal, self.cell = degree, sph, ce, nodal, cell

    def __str__(self):
        return (f"element order {self.degree}, {'no' if self.sph == '0' else 'some'} spheres, "
                f"{ {'none': 'no', '0': 'an empty array of', '+': 'some'}[self.ce] } contact edges, "
                f"{'some' if self.nodal else 'no'} nodal fields, {'some' if self.cell else 'no'} cell fields")


def situations():
    """element order 2 and 3: the full product of the other dimensions; order 1 and 4: the richest situation.  `rich` situations put every
    (input shape x data type) entry class into the field dictionaries, the others a reduced set of data types (the default of the
    dataType parameter, the first and the last member): data type, padding and kind interact in the rich ones, the rest varies what is
    independent of the data type."""
    out = []
    for degree in (2, 3):
        for sph, ce, nodal, cell in itertools.product(("0", "+"), ("none", "0", "+"), (False, True), (False, True)):
            s = Situation(degree, sph, ce, nodal, cell)
            s.rich = degree == 3 and nodal and cell
            out.append(s)
    for degree in (1, 4):
        s = Situation(degree, "+", "+", True, True)
        s.rich = False
        out.append(s)
    return out


def make_mesh(I, degree):
    Mesh = UserClass("Mesh", None)
    Mesh.open_world = True
    PE = UserClass("ParentElement", None)
    PE.open_world = True
    mesh, pe = Instance(Mesh), Instance(PE)
    nn, ne = I.sym("N_nodes", 1), I.sym("N_el", 1)
    ns = nn if degree == 1 else I.sym("N_simplexNodes", 1)       # a linear mesh has no other nodes than the simplex vertices
    npe = PC((degree + 1) * (degree + 2) // 2)                    # nodes of a triangle of that order
    mesh.attrs.update(coords=Arr((nn, PC(2))), conns=Arr((ne, npe)), simplexNodesOrdinals=Arr((ns,)), parentElement=pe)
    pe.attrs.update(degree=Int(degree), vertexNodes=Arr((PC(3),)))
    return mesh


def _api(I, w, name):
    return I.getattr_(w, name, None)


def repeat_calls(I, w, mname, mkargs, stem):
    """State of the writer after one or more calls of w.<mname>: the first call is executed, then the counts it changes are generalised to
    template symbols until one more call (every path of it) maps the template into itself.  -> {symbol name: Poly}"""
    env = Env()
    env.vars["w"] = w

    def snap():
        sig, P = I.scan(env)
        return sig, [I.norm(p) for p in P]

    I.call(_api(I, w, mname), mkargs(), {}, None)           # first call: must be decided (no data-dependent branch on the fresh writer)
    sig1, tmpl = snap()
    syms = {}

    def explore():
        def thunk():
            sig, _ = I.scan(env, list(tmpl))
            if sig != sig1:
                raise Undecidable(f"{mname}: the writer state changes its structure between calls")
            saved = I.facts()
            try:
                I.call(_api(I, w, mname), mkargs(), {}, None)
                return snap()
            finally:
                I.restore(saved)
        return I.run_paths(thunk)

    for _round in range(4):
        outcomes = explore()
        for o in outcomes:
            if isinstance(o, Exception):
                raise o
            if o[0] != sig1 or len(o[1]) != len(tmpl):
                raise Undecidable(f"{mname}: the writer state changes its structure between calls")
        mism = {}
        for k, t in enumerate(tmpl):
            vals = tuple(o[1][k] for o in outcomes)
            name = _sym_of(t, syms)
            if name is not None:
                continue
            if any(v != t for v in vals):
                mism.setdefault((t, vals), []).append(k)
        if not mism:
            # every template symbol must be mapped consistently in each outcome
            for o in outcomes:
                sigma = {}
                for k, t in enumerate(tmpl):
                    name = _sym_of(t, syms)
                    if name is not None:
                        if name in sigma and sigma[name] != o[1][k]:
                            raise Undecidable(f"{mname}: counts that grew together stop agreeing")
                        sigma[name] = o[1][k]
            break
        for (t, vals), slots in mism.items():
            name = f"{stem}{'' if not syms else len(syms) + 1}"
            init_pos = I.sign(t) == "pos"
            s = I.sym(name, 1 if init_pos else 0, free=True)
            syms[name] = (s, init_pos)
            for k in slots:
                tmpl[k] = s
    else:
        raise Undecidable(f"{mname}: no invariant template of the writer state found")
    # lower bounds: keep >= 1 only if every call maps it to a positive value again (checked by one more exploration under the bound)
    outcomes = explore()
    for o in outcomes:
        if isinstance(o, Exception):
            raise o
        for k, t in enumerate(tmpl):
            name = _sym_of(t, syms)
            if name is not None and I.sign(o[1][k]) not in ("pos", "nonneg", "zero"):
                raise Undecidable(f"{mname}: a count may become negative")
            if name is not None and I.lo[name] == 1 and I.sign(o[1][k]) != "pos":
                raise Undecidable(f"{mname}: lower bound of {name} is not inductive")
    I.scan(env, list(tmpl))
    for name in syms:
        I.free.discard(name)
    return {name: s for name, (s, _p) in syms.items()}


def _sym_of(p, syms):
    for name, (s, _pos) in syms.items():
        if p == s:
            return name
    return None


def admit_fields(I, w, api, kinds, dtypes, agg, sit):
    """call w.<api>(name, data, fieldType, dataType) once per entry class (input shape variant x data type) with a symbolic key"""
    classes = []
    mults = ZERO
    for (label, ftname, tail) in VARIANTS:
        ft = kinds.members.get(ftname)
        if ft is None:
            raise Undecidable(f"the field type enumeration has no member {ftname}")
        for dt in _dtypes_for(I, w, api, dtypes, sit):
            made = []

            def thunk():
                kid = len(I.key_mult) + 1
                mult = I.sym(f"n[{api}:{label}:{dt.name}]#{kid}", 0)
                I.key_mult[kid] = mult
                I.key_label[kid] = (label, ft, dt, api)
                rows = I.fresh("rows", 0, True)
                data = Arr((rows,) + tuple(PC(c) for c in tail))
                n_log = len(I.log)
                I.call(_api(I, w, api), [Key(kid), data, ft, dt], {}, None)
                muts = I.log[n_log:]
                stored = [m for m in muts if m[0] == "dict" and isinstance(m[2], Key) and m[2].kid == kid]
                other = [m for m in muts if m not in stored and m[0] != "arr"]
                if other:
                    raise Undecidable(f"{api} changes writer state other than the entry of the field it adds ({other[0][0]} update)", other[0][3])
                if stored:
                    made.append((kid, mult))
                return None
            for res in I.run_paths(thunk):
                if isinstance(res, ProgramError):
                    continue                    # this input is rejected by an assertion: nothing admitted
                if isinstance(res, Exception):
                    raise res
            for (kid, mult) in made:
                classes.append(kid)
                mults = mults + mult
    if classes:
        I.add_pos_fact(mults)
    return classes


def _dtypes_for(I, w, api, dtypes, sit):
    members = list(dtypes.members.values())
    if getattr(sit, "rich", True) or len(members) <= 3:
        return members
    pick = [members[0], members[-1]]
    m = _api(I, w, api)
    fn = m.func if hasattr(m, "func") else None
    if isinstance(fn, Func) and fn.node.args.defaults:
        try:
            d = I.eval(fn.node.args.defaults[-1], fn.env)
            if isinstance(d, EnumVal) and d.cls is dtypes and d not in pick:
                pick.insert(0, d)
        except (Undecidable, ProgramError):
            pass
    return pick


def build_writer(I, sit, agg):
    g = I.globals
    W = g.lookup("VTKWriter")
    kinds, dtypes = g.lookup("VTKFieldType"), g.lookup("VTKDataType")
    for name, c in (("VTKWriter", W), ("VTKFieldType", kinds), ("VTKDataType", dtypes)):
        if not isinstance(c, UserClass):
            raise Undecidable(f"public class {name} is not a class the analysis can read")
    mesh = make_mesh(I, sit.degree)
    w = I.call(W, [mesh, "output"], {}, None)
    if not isinstance(w, Instance):
        raise Undecidable("VTKWriter(...) did not produce an object")
    info = {"mesh": mesh, "sizes": {}}
    if sit.sph == "+":
        syms = repeat_calls(I, w, "add_sphere", lambda: [Arr((PC(2),)), Scalar("float")], "N_spheres")
        for name, s in syms.items():
            if I.lo[name] == 0:
                I.set_lo(name, 1)           # the situation: at least one sphere
        info["sizes"].update(syms)
    if sit.ce != "none":
        syms = repeat_calls(I, w, "add_contact_edges", lambda: [Arr((I.fresh("edgesAdded", 0, True), PC(2)))], "N_contactEdges")
        for name, s in syms.items():
            if sit.ce == "0":
                if I.lo[name] == 0:
                    I.set_eq(name, ZERO)
            else:
                I.set_lo(name, 1)
        info["sizes"].update(syms)
    info["nodal"] = admit_fields(I, w, "add_nodal_field", kinds, dtypes, agg, sit) if sit.nodal else []
    info["cell"] = admit_fields(I, w, "add_cell_field", kinds, dtypes, agg, sit) if sit.cell else []
    return w, info


def stored_layouts(I, w):
    """{(field type name, data type name): set of (rows per entity, columns)} of the arrays the writer stores for admitted fields (constants only)"""
    out = {}

    def arrays(v, acc):
        if isinstance(v, Arr):
            acc.append(v)
        elif isinstance(v, tuple):
            for x in v:
                arrays(x, acc)
        elif isinstance(v, NTInst):
            for x in v.vals.values():
                arrays(x, acc)
        elif isinstance(v, Instance):
            for x in v.attrs.values():
                arrays(x, acc)
        return acc
    for d in w.attrs.values():
        if not isinstance(d, DictV):
            continue
        for k, v in d.entries:
            if not isinstance(k, Key):
                continue
            label, ft, dt, api = I.key_label[k.kid]
            arrs = arrays(v, [])
            if len(arrs) == 1 and len(arrs[0].shape) == 2 and pconst(I.norm(arrs[0].shape[1])) is not None:
                out.setdefault((ft.name, dt.name), set()).add(pconst(I.norm(arrs[0].shape[1])))
    return out


def reachable(w):
    """ids of every heap object / array that belongs to the writer"""
    seen = {}

    def rec(v):
        if isinstance(v, (Instance, ListV, DictV, Arr)):
            if id(v) in seen:
                return
            seen[id(v)] = v
        if isinstance(v, Instance):
            for x in v.attrs.values():
                rec(x)
        elif isinstance(v, ListV):
            for x in (v.items if v.items is not None else [e for (e, _c, _k) in v.segs]):
                rec(x)
        elif isinstance(v, DictV):
            for k, x in v.entries:
                rec(x)
        elif isinstance(v, Arr):
            if v.base is not None:
                rec(v.base)
        elif isinstance(v, tuple):
            for x in v:
                rec(x)
        elif isinstance(v, NTInst):
            for x in v.vals.values():
                rec(x)
    rec(w)
    return seen


# ================================================================================================== reading the abstract file

def _count_of(I, tok):
    """declared count of a header argument token"""
    if tok[0] == "t" and isinstance(tok[1], Int):
        return I.norm(tok[1].p)
    if tok[0] == "w" and tok[1].isdigit():
        return PC(int(tok[1]))
    return None


def _eq(I, a, b):
    """(verdict, shown) for the equality of two count polynomials: True / False (differ as polynomials of independent sizes) / None"""
    r = I.same(a, b)
    if r is True:
        return True
    if r is False or I.independent(a - b):
        return False
    return None


def check_header(I, header, agg, sit, prov):
    c = "file-header"
    if any(t[0] == "join" for t in header):
        agg.add(R9, c, None, "the header lines are written by a repetition", prov, sit)
        return
    lines, cur = [], []
    for t in header:
        if t[0] == "nl":
            lines.append(cur)
            cur = []
            lines.extend([[]] * (t[1] - 1))
        else:
            cur.append(t)
    if cur:
        lines.append(cur)
    def words(line):
        return [t[1] if t[0] == "w" else None for t in line]
    bad = None
    if len(lines) < 4:
        bad = f"the file starts with {len(lines)} header line(s); 4 are required (version, title, ASCII, DATASET UNSTRUCTURED_GRID)"
    else:
        l0, l2, l3 = words(lines[0]), words(lines[2]), words(lines[3])
        if None in l0 + l2 + l3:
            agg.add(R9, c, None, "header words are computed values", prov, sit)
            return
        if l0[:4] != ["#", "vtk", "DataFile", "Version"] or len(l0) != 5:
            bad = f"line 1 is `{' '.join(l0)}`, not `# vtk DataFile Version x.y`"
        elif l2 != ["ASCII"]:
            bad = f"line 3 is `{' '.join(l2)}`; the data is written as text, so it must be `ASCII`"
        elif l3 != ["DATASET", "UNSTRUCTURED_GRID"]:
            bad = f"line 4 is `{' '.join(l3)}`, not `DATASET UNSTRUCTURED_GRID`"
        elif len(lines) > 4 and any(lines[4:]):
            agg.add(R9, c, None, "tokens between the DATASET line and the first section are not modelled", prov, sit)
            return
    p = prov
    for t in header:
        if t[0] in ("w", "t") and t[2] is not None:
            p = t[2]
            break
    agg.add(R9, c, bad is None, bad or "version / title / ASCII / DATASET UNSTRUCTURED_GRID lines", p, sit)


def check_file(I, toks, info, agg, sit, wprov):
    sit_s = str(sit)
    try:
        header, sections = T.parse_file(I, toks)
    except T.Malformed as e:
        agg.add(R9, "file-grammar", False, f"the written file does not follow the VTK grammar: {e.msg}", e.prov or wprov, sit_s)
        return
    agg.add(R9, "file-grammar", True, "the token stream parses as header + sections + attribute arrays", wprov, sit_s)
    check_header(I, header, agg, sit_s, wprov)
    keys = [s.key for s in sections]
    for want in ("POINTS", "CELLS", "CELL_TYPES"):
        if want not in keys:
            agg.add(R9, f"header:{want}", False, f"write() emits no {want} section", wprov, sit_s)
        else:
            agg.add(R9, f"header:{want}", True, "section present", [s for s in sections if s.key == want][0].prov, sit_s)
    for k in set(keys):
        if keys.count(k) > 1:
            agg.add(R9, f"duplicate-header:{k}", False, f"header {k} is emitted {keys.count(k)} times per file", [s for s in sections if s.key == k][1].prov, sit_s)
    geo = [i for i, k in enumerate(keys) if k in ("POINTS", "CELLS", "CELL_TYPES")]
    dat = [i for i, k in enumerate(keys) if k in ("POINT_DATA", "CELL_DATA")]
    geo_ok = not geo or not dat or max(geo) < min(dat)
    agg.add(R9, "section-order", bool(geo_ok), "the data sections follow POINTS / CELLS / CELL_TYPES" if geo_ok else
            f"sections are written in the order {keys}: a legacy reader stops reading geometry at the first data section",
            sections[dat[0]].prov if dat else (sections[0].prov if sections else wprov), sit_s)
    by = {}
    for s in sections:
        by.setdefault(s.key, s)
    decl = {}
    for k, s in by.items():
        decl[k] = _count_of(I, s.args[0])
        if decl[k] is None:
            agg.add(R9, f"{k}:declared==written", None, f"the count after {k} is not an integer the analysis tracks", s.prov, sit_s)

    def counts(s):
        return I.norm(T.ntokens(I, s.body)), T.nlines(I, s.body)

    # ---- geometry sections
    for k, per_line in (("POINTS", 3), ("CELLS", None), ("CELL_TYPES", 1)):
        s = by.get(k)
        if s is None or decl[k] is None:
            continue
        try:
            ntok, (nl, dirty) = counts(s)
            nl = I.norm(nl + (ONE if dirty else ZERO))
        except Undecidable as e:
            agg.add(R9, f"{k}:declared==written", None, e.msg, s.prov, sit_s)
            continue
        n = decl[k]
        if k == "CELLS":
            ok = _eq(I, nl, n)
            agg.add(R9, "CELLS:declared==written", ok, f"CELLS declares {I.show(n)} cells, {I.show(nl)} connectivity lines are written"
                    if ok is not True else f"CELLS declares {I.show(n)}, writes {I.show(nl)} records", s.prov, sit_s)
            size = _count_of(I, s.args[1])
            if size is None:
                agg.add(R9, "CELLS:size==integers-written", None, "the size after CELLS is not an integer the analysis tracks", s.prov, sit_s)
            else:
                ok = _eq(I, ntok, size)
                agg.add(R9, "CELLS:size==integers-written", ok, f"CELLS declares size {I.show(size)} but {I.show(ntok)} integers are written"
                        if ok is not True else f"size {I.show(size)} == integers written", s.prov, sit_s)
        else:
            ok1, ok2 = _eq(I, ntok, n * PC(per_line)), _eq(I, nl, n)
            ok = False if (ok1 is False or ok2 is False) else None if (ok1 is None or ok2 is None) else True
            agg.add(R9, f"{k}:declared==written", ok,
                    f"{k} declares {I.show(n)} records but {I.show(nl)} lines / {I.show(ntok)} numbers ({per_line} per record) are written before the next header"
                    if ok is not True else f"{k} declares {I.show(n)}, writes {I.show(nl)} records", s.prov, sit_s)
    # ---- connectivity records: `k id_1 .. id_k` per line, and the cell type of the line (decided only when the leading numbers are known)
    try:
        check_cell_records(I, by, agg, sit_s)
    except Undecidable:
        pass
    # ---- sibling headers
    for a_, b_ in (("POINTS", "POINT_DATA"), ("CELLS", "CELL_TYPES"), ("CELLS", "CELL_DATA")):
        if a_ in by and b_ in by and decl.get(a_) is not None and decl.get(b_) is not None:
            ok = _eq(I, decl[a_], decl[b_])
            agg.add(R9, f"{b_}=={a_}", ok, f"{b_} declares {I.show(decl[b_])} but {a_} declares {I.show(decl[a_])}: the file is not a valid dataset"
                    if ok is not True else f"both declare {I.show(decl[a_])}", by[b_].prov, sit_s)
    # ---- data sections
    for k, api, admitted in (("POINT_DATA", "add_nodal_field", info["nodal"]), ("CELL_DATA", "add_cell_field", info["cell"])):
        s = by.get(k)
        padded = (sit.sph == "+") if k == "POINT_DATA" else (sit.ce == "+")
        if s is None:
            if admitted:
                agg.add(R9, f"{k}:all-fields-written", False, f"fields were admitted by {api} but write() emits no {k} section", wprov, sit_s)
            continue
        n = decl.get(k)
        seen = {}
        for arr in s.arrays:
            name = arr.name
            kid = name[1].kid if name[0] == "t" and isinstance(name[1], Key) else None
            if kid is not None:
                label, ft, dt, _api = I.key_label[kid]
                seen.setdefault(kid, []).append(arr)
                group = label
            else:
                group = name[1] if name[0] == "w" else "<computed name>"
                label, ft, dt = group, None, None
            comps = COMPS[arr.kind] if arr.kind in COMPS else None
            if arr.kind == "SCALARS" and arr.ncomp is not None:
                comps = arr.ncomp
            # header of the array
            if ft is not None:
                ok = arr.kind == ft.name
                agg.add(R9, f"{k}:field-header:{group}", ok, f"a {ft.name} field is written under the keyword {arr.kind}" if not ok
                        else f"{ft.name} fields are written under {arr.kind}", arr.prov, sit_s)
                dtok = arr.dtype
                if dtok[0] == "w" and isinstance(dt.value, str):
                    ok = True if dtok[1] == dt.value else False if dtok[1].lower() not in T.VTK_TYPES else None
                    agg.add(R9, f"{k}:field-data-type:{group}", ok, f"a field declared {dt.name} is written with the data type word `{dtok[1]}` (its value is `{dt.value}`)"
                            + ("; that is not a VTK data type" if ok is False else "") if ok is not True else "data type word is the value of the VTKDataType member",
                            arr.prov, sit_s)
            elif arr.dtype[0] == "w":
                ok = arr.dtype[1].lower() in T.VTK_TYPES
                agg.add(R9, f"{k}:field-data-type:{group}", ok, f"`{arr.dtype[1]}` is not a VTK data type" if not ok else "a VTK data type word", arr.prov, sit_s)
            if arr.kind == "SCALARS":
                ok = arr.lookup is not None
                agg.add(R9, f"{k}:scalars-lookup-table:{group}", ok, "SCALARS without the LOOKUP_TABLE line the legacy reader requires" if not ok
                        else "SCALARS name type / LOOKUP_TABLE name", arr.prov, sit_s)
            if n is None or comps is None:
                continue
            try:
                ntok = I.norm(T.ntokens(I, arr.data))
            except Undecidable as e:
                agg.add(R9, f"{k}:field-records:{group}", None, e.msg, arr.prov, sit_s)
                continue
            ok = _eq(I, ntok, n * PC(comps))
            loose = sorted(a for a in I.norm(ntok - n * PC(comps)).atoms() if a.startswith("rows#"))
            if ok is None and loose:
                ok = False      # the number of records of the admitted array is a free input: any array is admitted
            what = f"{label}" + (f" of data type {dt.name}" if dt is not None else "") + \
                (" (the number of records of the user's array is not tied to the section count when it is admitted)" if loose else "")
            msg = (f"under {k} ({I.show(n)} declared) the {arr.kind} array of {what} holds {I.show(ntok)} numbers; {comps} per record need {I.show(n * PC(comps))}"
                   if ok is not True else f"{arr.kind}: {I.show(ntok)} numbers == {comps} x declared {I.show(n)}")
            agg.add(R9, f"{k}:field-records:{group}", ok, msg, arr.prov, sit_s)
            if kid is not None:
                if padded:
                    agg.add(R6, f"{k}:{ft.name}[{dt.name}]:one-record-per-extra-entity", ok,
                            (f"with spheres / contact edges the {arr.kind} array of a {dt.name} field holds {I.show(ntok)} numbers instead of {I.show(n * PC(comps))}: "
                             f"the padding appended per extra point / cell is not one {ft.name} record") if ok is not True else
                            f"padded array holds {comps} numbers per point / cell", arr.prov, sit_s)
                else:
                    agg.add(R9, f"{api}:admits-section-count", ok,
                            (f"{api} admits a {what} array that is written with {I.show(ntok)} numbers where its section declares {I.show(n)} records "
                             f"({I.show(n * PC(comps))} numbers)") if ok is not True else f"admitted arrays carry one record per entity of the section", arr.prov, sit_s)
        # every admitted class exactly once
        missing = [kid for kid in admitted if kid not in seen]
        twice = [kid for kid, arrs in seen.items() if len(arrs) > 1 or I.same(arrs[0].mult, I.key_mult[kid]) is not True]
        ok = False if missing else None if twice else True
        msg = "every admitted field is written exactly once"
        if missing:
            lab = I.key_label[missing[0]]
            msg = f"{len(missing)} admitted field classes (e.g. {lab[0]} / {lab[2].name}) are not written under {k}"
        elif twice:
            lab = I.key_label[twice[0]]
            msg = f"fields of class {lab[0]} / {lab[2].name} are written more than once under {k}"
        agg.add(R9, f"{k}:all-fields-written", ok, msg, s.prov, sit_s)
        if not s.arrays and not admitted and not padded:
            pass


VTK_CELL_POINTS = {1: 1, 3: 2, 5: 3, 8: 4, 9: 4, 10: 4, 12: 8, 13: 6, 14: 5, 21: 3, 22: 6, 23: 8, 24: 10, 25: 20}


def _tok_value(I, tok):
    if tok[0] == "w" and tok[1].isdigit():
        return PC(int(tok[1]))
    if tok[0] == "t" and isinstance(tok[1], Int):
        return I.norm(tok[1].p)
    return None


def check_cell_records(I, by, agg, sit_s):
    """Best effort (no obligation when the leading number of a connectivity line is not a tracked integer): every line of CELLS is
    `k` followed by k indices; the CELL_TYPES entry of the line is a VTK cell type with k points."""
    cells = by.get("CELLS")
    if cells is None:
        return
    lines = T.line_templates(I, cells.body)
    if not lines:
        return
    recs = []
    for (first, n, mult) in lines:
        k = _tok_value(I, first)
        if k is None:
            return
        recs.append((k, I.norm(n), I.norm(mult), first))
    bad = None
    for (k, n, mult, first) in recs:
        ok = _eq(I, k + ONE, n)
        if ok is None:
            return
        if ok is False and bad is None:
            bad = (f"a connectivity line starts with {I.show(k)} (the number of point indices that follow) but holds {I.show(n - ONE)} indices", first[2])
    agg.add(R9, "CELLS:records-well-formed", bad is None, bad[0] if bad else "every connectivity line is `k` followed by k point indices",
            bad[1] if bad else cells.prov, sit_s)
    types = by.get("CELL_TYPES")
    if types is None or bad is not None:
        return
    tl = T.line_templates(I, types.body)
    if not tl:
        return
    a = [(k, m, f) for (k, n, m, f) in recs if I.sign(m) != "zero"]
    b = [(_tok_value(I, f), I.norm(m), f) for (f, n, m) in tl if I.sign(m) != "zero"]
    if len(a) != len(b) or any(t is None or pconst(t) is None for (t, _m, _f) in b) or any(I.same(x[1], y[1]) is not True for x, y in zip(a, b)):
        return
    bad = None
    for (k, m, f), (t, _m, tf) in zip(a, b):
        want = VTK_CELL_POINTS.get(pconst(t))
        if want is None:
            return
        if pconst(k) is None:
            return
        if pconst(k) != want and bad is None:
            bad = (f"cells written with {pconst(k)} point indices are given the VTK cell type {pconst(t)}, which has {want} points", tf[2])
    agg.add(R9, "CELL_TYPES:type-matches-record", bad is None, bad[0] if bad else "the cell type of every record has as many points as the record lists",
            bad[1] if bad else types.prov, sit_s)


# ================================================================================================== one situation

def _module_source(ctx):
    """source of the (non-test) modules of the library, for the private helper modules the interpreter follows (C20_eval.lib_module)"""
    def get(name):
        m = ctx.repo.module(name)
        if m is None or m.is_test:
            return None
        ctx.analysed_modules.add(name)
        return m.tree
    return get


def run_situation(ctx, tree, sit, agg, stats):
    sit_s = str(sit)
    I = Interp(tree, ctx.repo.scope_of, V, _module_source(ctx))
    try:
        w, info = build_writer(I, sit, agg)
    except (Undecidable, ProgramError) as e:
        agg.add(R9, "writer-state", None, ("driving the public API to build the writer: " if isinstance(e, Undecidable) else
                                           "building the writer with the inputs the analysis supplies raises: ") + e.msg, _prov_of_exc(e), sit_s)
        return
    if info["nodal"] or info["cell"]:
        for key, cols in stored_layouts(I, w).items():
            stats.setdefault("layout", {}).setdefault(key, set()).update(cols)
    pre = reachable(w)
    pre_attrs = {id(o): dict(o.attrs) for o in pre.values() if isinstance(o, Instance)}
    outs = []
    called_before = len(I.called)
    n_log0 = len(I.log)
    wprov = None
    for k in range(2):
        nf = len(I.files)
        try:
            I.call(_api(I, w, "write"), [], {}, None)
        except Undecidable as e:
            agg.add(R9 if k == 0 else R1, "write()-interpretable" if k == 0 else "second-write-identical", None,
                    f"interpreting write(){' a second time' if k else ''}: {e.msg}", _prov_of_exc(e), sit_s)
            break
        except ProgramError as e:
            agg.add(R9 if k == 0 else R1, "write()-runs" if k == 0 else "second-write-identical", False,
                    f"write(){' called a second time' if k else ''} raises: {e.msg}", _prov_of_exc(e), sit_s)
            break
        files = [f for f in I.files[nf:] if getattr(f, "kind", "file") == "file"]
        if len(files) != 1:
            agg.add(R9, "write()-interpretable", None, f"write() opens {len(files)} files", None, sit_s)
            break
        outs.append(files[0])
    write_funcs = [f for f in I.called[called_before:] if f.scope is not None]
    for f in write_funcs:
        stats["funcs"][f.scope.qualname] = f
        ctx.touch(f.scope)
    for f in I.called[:called_before]:
        if f.scope is not None:
            ctx.touch(f.scope)
    for f in write_funcs:
        if f.name == "write":
            wprov = (f, None)
    if not outs:
        return
    agg.add(R9, "write()-interpretable", True, "write() is interpreted to the end", wprov, sit_s)
    # ---- the first file
    toks = None
    try:
        atoms = T.out_atoms(outs[0].out)
        toks = T.tokenize(I, atoms)
    except T.Glued as e:
        agg.add(R9, "file-grammar", False if e.definite else None, f"{e.msg}: two tokens of the file run together", e.prov or wprov, sit_s)
    except Undecidable as e:
        agg.add(R9, "file-grammar", None, e.msg, wprov, sit_s)
    if toks is not None:
        try:
            check_file(I, toks, info, agg, sit, wprov)
        except Undecidable as e:
            agg.add(R9, "file-grammar", None, f"reading the abstract file: {e.msg}", wprov, sit_s)
    # ---- purity
    differs = None
    if len(outs) == 2:
        a, b = T.freeze_out(outs[0].out, I.norm), T.freeze_out(outs[1].out, I.norm)
        differs = a != b
        msg = "the second write() emits the same abstract file as the first"
        if differs:
            msg = "the second write() of the same writer emits a different file: " + _first_difference(a, b)
        agg.add(R1, "second-write-identical", not differs, msg, wprov, sit_s)
    flagged = {}
    for (kind, target, detail, node, fn) in I.log[n_log0:]:
        tgt = target.root() if isinstance(target, Arr) else target
        if id(tgt) not in pre:
            continue
        if kind == "attr":
            old = pre_attrs.get(id(tgt), {})
            if detail not in old:
                continue                    # a new attribute: the second-write comparison sees any effect it has
            new = tgt.attrs.get(detail)
            if new is old[detail] or (isinstance(new, (str, bool, type(None))) and new == old[detail]) or \
                    (isinstance(new, Int) and isinstance(old[detail], Int) and I.same(new.p, old[detail].p) is True):
                continue
            verdict = False if differs else None
            why = f"rebinds the attribute `{detail}` of " + ("the writer" if tgt is w else f"a {tgt.cls.name} object that belongs to the writer")
        elif kind == "arr":
            # an arithmetic update is not idempotent: the next write sees other numbers.  A plain store may write the same values again.
            verdict = False if detail == "in-place arithmetic" else None
            why = f"changes entries of an array that belongs to the writer / its mesh ({detail})" + \
                  ("" if verdict is False else "; whether the values differ is not tracked")
        else:
            verdict = False if differs else None
            why = f"updates a {'dictionary' if kind == 'dict' else 'list'} that belongs to the writer in place" + \
                  ("" if differs else " (the effect on the written values is not tracked)")
        flagged.setdefault(fn, []).append((verdict, why, node))
    for f in write_funcs:
        if f in flagged:
            for (verdict, why, node) in flagged[f]:
                agg.add(R1, f"{f.name}:no-state-write", verdict,
                        f"{f.name}, which runs under write(), {why} (`{_src(node)}`): writing changes the writer"
                        + (", so a second write() differs" if verdict is False and differs else ""), (f, node), sit_s)
        else:
            agg.add(R1, f"{f.name}:no-state-write", True, f"{f.name} mutates no object that belonged to the writer before write()", (f, None), sit_s)
    for fn, evs in flagged.items():
        if fn not in write_funcs:
            for (verdict, why, node) in evs:
                agg.add(R1, "write():no-state-write", verdict, f"code running under write() {why} (`{_src(node)}`)", wprov, sit_s)


def _src(node):
    try:
        return ast.unparse(node)[:80]
    except Exception:
        return "?"


def _prov_of_exc(e):
    fn = getattr(e, "func", None) or getattr(e, "scope", None)
    node = getattr(e, "node", None)
    return (fn, node) if isinstance(fn, Func) else None


def _first_difference(a, b, context=""):
    for x, y in zip(a, b):
        if x == y:
            if x[0] == "lit" and x[1].split():
                context = x[1].split("\n")[-2 if x[1].endswith("\n") and "\n" in x[1][:-1] else -1].strip() or context
                for w in x[1].split():
                    if w.isupper() and len(w) > 3:
                        context = w
            continue
        where = f" (after `{context}`)" if context else ""
        if x[0] == "join" and y[0] == "join":
            if x[3] != y[3]:
                return f"a piece of text written {x[3]!r} times by the first write() is written {y[3]!r} times by the second{where}"
            if x[2] != y[2]:
                return _first_difference(x[2], y[2], context)
            return _first_difference(x[1], y[1], context)
        return f"`{_show_atom(x)}` became `{_show_atom(y)}`{where}"
    return f"{len(a)} vs {len(b)} pieces of text"


def _show_atom(a):
    if a[0] == "lit":
        return a[1].strip()[:40]
    if a[0] == "tok":
        return repr(a[1][1]) if isinstance(a[1], tuple) and a[1][0] == "int" else "<value>"
    return f"{a[3]!r} x ({' '.join(_show_atom(x) for x in a[2][:4])} ...)"


# ================================================================================================== default_values directly

def check_default_values(ctx, tree, agg, stats=None):
    I = Interp(tree, ctx.repo.scope_of, V, _module_source(ctx))
    fn = I.globals.lookup("default_values")
    kinds, dtypes = I.globals.lookup("VTKFieldType"), I.globals.lookup("VTKDataType")
    if not isinstance(fn, Func) or not isinstance(kinds, UserClass) or not isinstance(dtypes, UserClass):
        return      # no such public function (any more): the padding is judged from the written arrays alone
    if fn.scope is not None:
        ctx.touch(fn.scope)
    want = {"SCALARS": (1, 1), "VECTORS": (1, 3), "TENSORS": (3, 3)}
    for ftname, shape in want.items():
        ft = kinds.members.get(ftname)
        if ft is None:
            continue
        for dt in dtypes.members.values():
            c = f"default_values({ftname}, {dt.name})"
            try:
                v = I.call(fn, [ft, dt], {}, None)
                if v is None:
                    agg.add(R6, c, False, f"default_values returns None for {ftname} fields of data type {dt.name}: nothing to pad with", (fn, None), "")
                    continue
                s2 = N.atleast(I, v, 2).shape
                got = tuple(pconst(I.norm(d)) for d in s2)
                raw = tuple(pconst(I.norm(d)) for d in N.shape_of(I, v))
            except Undecidable as e:
                agg.add(R6, c, None, f"default_values({ftname}, {dt.name}) is not evaluated: {e.msg}", _prov_of_exc(e) or (fn, None), "")
                continue
            except ProgramError as e:
                agg.add(R6, c, False, f"default_values({ftname}, {dt.name}) raises: {e.msg}", _prov_of_exc(e) or (fn, None), "")
                continue
            ok = got == shape
            cols = stats.get("layout", {}).get((ftname, dt.name)) if stats else None
            if cols and None not in got:
                # judged against the arrays the writer really stores for such fields: stacking the record under them must add one entity
                comps = COMPS[ftname]
                if any(c != got[1] for c in cols):
                    agg.add(R6, c, False, f"default_values returns a record of shape {raw} for {ftname} fields of data type {dt.name}; the arrays stored for such "
                                          f"fields have {sorted(cols)[0]} columns: stacking the record under them raises", (fn, None), "")
                    continue
                ok = got[0] * got[1] == comps
                agg.add(R6, c, ok, (f"default_values returns a record of shape {raw} for {ftname} fields of data type {dt.name}; stacked under the stored "
                                    f"array it adds {got[0] * got[1]} numbers where one point / cell takes {comps}: the padded array does not hold one record "
                                    f"per point/cell") if not ok else f"padding record of shape {raw}: one entity of {comps} numbers under the stored arrays", (fn, None), "")
                continue
            if not ok:
                # the expectation above presumes the row layout of the stored arrays; what decides is what the writer makes of the record
                seen = [agg.items.get((R6, f"{sec}:{ftname}[{dt.name}]:one-record-per-extra-entity")) for sec in ("POINT_DATA", "CELL_DATA")]
                seen = [it for it in seen if it is not None]
                if seen and not any(it["bad"] or it["und"] for it in seen):
                    agg.add(R6, c, True, f"padding record of shape {raw}; the padded arrays written with it hold one record per point / cell", (fn, None), "")
                    continue
                if not any(it["bad"] for it in seen):
                    ok = None
            agg.add(R6, c, ok, (f"default_values returns a record of shape {raw} for {ftname} fields of data type {dt.name}; stacked under the data it adds "
                                f"{got[0]} row(s) of {got[1]} instead of {shape[0]} row(s) of {shape[1]}: the padded array does not hold one record per point/cell")
                    if ok is not True else f"padding record of shape {raw}", (fn, None), "")


# ================================================================================================== entry point

def run(ctx):
    mod = ctx.need_module(V)
    cls = ctx.need(f"{V}:VTKWriter")
    for m in ("__init__", "write", "add_sphere", "add_contact_edges", "add_nodal_field", "add_cell_field"):
        ctx.need(f"{V}:VTKWriter.{m}")
    agg = Agg()
    stats = {"funcs": {}}
    ctx.guard(_all, ctx, mod.tree, agg, stats)
    agg.emit(ctx, cls)
    ctx.trust("NumPy shape semantics of array / zeros / full / tile / vstack / hstack / concatenate / atleast_2d / reshape / indexing and Python's "
              "str.format / join / file.write semantics as modelled by rules/C20_np.py, rules/C20_text.py, rules/C20_ops.py")
    ctx.trust("mesh model: triangles of order d have (d+1)(d+2)/2 nodes and 3 vertex nodes (mesh.parentElement.vertexNodes); for order 1 "
              "mesh.simplexNodesOrdinals are all nodes; otherwise the numbers of nodes, simplex nodes and elements are independent positive integers; "
              "add_sphere receives a 2-vector, add_contact_edges an (m, 2) array")
    ctx.assume("one element type per mesh; fields are admitted only through add_nodal_field / add_cell_field; field names contain no whitespace "
               "and differ from the names the writer adds itself")


def _all(ctx, tree, agg, stats):
    for sit in situations():
        try:
            run_situation(ctx, tree, sit, agg, stats)
        except (AttributeError, IndexError, KeyError, TypeError, ValueError, RecursionError, AssertionError) as e:
            # the interpreter met a shape of code / value it was not written for: undecided for this situation, never a violation
            import traceback
            tb = traceback.extract_tb(e.__traceback__)[-1]
            agg.add(R9, "write()-interpretable", None, f"internal limitation of the interpreter: {type(e).__name__}: {e} "
                                                      f"(at {tb.filename.split('/')[-1]}:{tb.lineno})", None, str(sit))
    check_default_values(ctx, tree, agg, stats)


def variants(repo):
    from optilint.selftest import Variant, sub, sub_in_func, alpha_rename, reformat
    from . import C20_variants as RV
    P = "optimism/VTKWriter.py"
    return [
        Variant("integer tensor padding is one row", P, sub("            return np.array([[0, 0, 0],[0, 0, 0],[0, 0, 0]])", "            return np.array([0, 0, 0])"), "D2/T6-padding-record-shape"),
        Variant("vector padding has two components", P, sub("            return np.array([0.0, 0.0, 0.0])", "            return np.array([0.0, 0.0])"), "D2/T6-padding-record-shape"),
        Variant("store padded records back", P, sub("                nodalFields[field] = fieldRecord\n", "                nodalFields[field] = fieldRecord\n                self.nodalFields[field] = fieldRecord\n"), "D1/T11-write-is-pure"),
        Variant("alias instead of copy", P, sub("        nodalFields = dict(self.nodalFields)", "        nodalFields = self.nodalFields"), "D1/T11-write-is-pure"),
        Variant("append in write path", P, sub_in_func("VTKWriter._write_coordinate_data", "        for spherePt in self.spheres:", "        self.sphereRadii.append(0.0)\n        for spherePt in self.spheres:"), "D1/T11-write-is-pure"),
        Variant("POINT_DATA from mesh.coords", P, sub("                vals = np.zeros( (nnodes,) )", "                nnodes = self.mesh.coords.shape[0]\n                vals = np.zeros( (nnodes,) )"), "D2/T9-symbolic-lengths"),
        Variant("CELL_DATA ignores contact edges", P, sub("            ncells = self.mesh.conns.shape[0] + nContactEdges", "            ncells = self.mesh.conns.shape[0]"), "D2/T9-symbolic-lengths"),
        Variant("cell fields not padded", P, sub("                for edge in range(nContactEdges):", "                for edge in range(0):"), "D2/T9-symbolic-lengths"),
        Variant("POINTS forgets spheres", P, sub("vtkFile.write('POINTS {} double\\n'.format(nnodes + len(self.spheres)))", "vtkFile.write('POINTS {} double\\n'.format(nnodes))"), "D2/T9-symbolic-lengths"),
        Variant("CELL_TYPES forgets contact edges", P, sub("vtkFile.write('CELL_TYPES {}\\n'.format(nelements+self.contactEdges.shape[0]))", "vtkFile.write('CELL_TYPES {}\\n'.format(nelements))"), "D2/T9-symbolic-lengths"),
        Variant("CELLS size wrong", P, sub("self.contactEdges.shape[0] * 3", "self.contactEdges.shape[0] * 2"), "D2/T9-symbolic-lengths"),
        Variant("pad twice per sphere", P, sub_in_func("VTKWriter._write_nodal_fields", "                for sphere in self.spheres:", "                for sphere in self.spheres + self.spheres:"), "D2/T9-symbolic-lengths"),
        Variant("second header", P, sub_in_func("VTKWriter._write_cell_types", "        for e in self.contactEdges:           \n", "        vtkFile.write('CELL_TYPES {}\\n'.format(nelements))\n        for e in self.contactEdges:           \n"), "D2/T9-symbolic-lengths"),
        Variant("admission against mesh nodes", P, sub("        nnodes = self.mesh.coords[self.outputNodes].shape[0]\n        nodalData = nodalData[self.outputNodes]", "        nnodes = self.mesh.coords.shape[0]"), "D2/T9-symbolic-lengths"),
        Variant("reformat", P, reformat(), None),
        # ---- deeper restructurings of the whole output half (rules/C20_variants.py) and breaking edits inside them
        Variant("sections return lists of lines, joined once", P, RV.collect_lines, None),
        Variant("sections are generators, writelines in a with block", P, RV.generators, None),
        Variant("lines joined without separator", P, RV.then(RV.collect_lines, sub("vtkFile.write('\\n'.join(lines) + '\\n')", "vtkFile.write(''.join(lines) + '\\n')")), "D2/T9-symbolic-lengths"),
        Variant("one cell type line per element for the edges", P, RV.then(RV.collect_lines, sub("lines += ['3'] * self.contactEdges.shape[0]", "lines += ['3'] * nelements")), "D2/T9-symbolic-lengths"),
        Variant("generator pads one record too many", P, RV.then(RV.generators, sub("        for _ in range(n):\n            data = np.vstack", "        for _ in range(n + 1):\n            data = np.vstack")), "D2/T9-symbolic-lengths"),
        Variant("generator pads the stored record", P, RV.then(RV.generators, sub("point = {k: self._pad(v, len(self.spheres)) for k, v in self.nodalFields.items()}",
                "point = self.nodalFields\n        for k in point:\n            point[k] = self._pad(point[k], len(self.spheres))")), "D1/T11-write-is-pure"),
        # ---- subtle breaking edits of the reference writer
        Variant("contact edge record announces 3 indices", P, sub("vtkFile.write('2 {} {}\\n'.format(e[0],e[1]))", "vtkFile.write('3 {} {}\\n'.format(e[0],e[1]))"), "D2/T9-symbolic-lengths"),
        Variant("quadratic cell type on vertex connectivity", P, sub("            self.vtkCellType = 5", "            self.vtkCellType = 22"), "D2/T9-symbolic-lengths"),
        Variant("no newline after the connectivity table", P, sub("        vtkFile.write(write_matrix_as_table(vtkConnectivity))\n        vtkFile.write('\\n')", "        vtkFile.write(write_matrix_as_table(vtkConnectivity))"), "D2/T9-symbolic-lengths"),
        Variant("point data before cell types", P, sub("        self._write_cell_types(vtkFile)\n        self._write_nodal_fields(vtkFile)", "        self._write_nodal_fields(vtkFile)\n        self._write_cell_types(vtkFile)"), "D2/T9-symbolic-lengths"),
        Variant("two-component points", P, sub("        coords3D = np.zeros((nnodes, 3))\n        coords3D[:, 0:dim] = coords", "        coords3D = coords"), "D2/T9-symbolic-lengths"),
        Variant("cell admission by >=", P, sub("        if cellData.shape[0] == nelements:", "        if cellData.shape[0] >= nelements:"), "D2/T9-symbolic-lengths"),
        Variant("tensor rows of nine", P, sub("            field3D = field3D.reshape((-1,3))", "            field3D = field3D.reshape((-1,9))"), "D2/T9-symbolic-lengths"),
        Variant("two radii per sphere", P, sub("        self.sphereRadii.append( radius )", "        self.sphereRadii.append( radius )\n        self.sphereRadii.append( radius )"), "D2/T9-symbolic-lengths"),
        Variant("write scales the mesh in place", P, sub("            nnodes = coords.shape[0]\n\n            for field in nodalFields:", "            nnodes = coords.shape[0]\n            self.mesh.coords[:, 0] *= 1.0\n\n            for field in nodalFields:"), "D1/T11-write-is-pure"),
        Variant("lookup table after vectors", P, sub("                vtkFile.write('VECTORS {} {}\\n'.format(field, dataType.value));", "                vtkFile.write('VECTORS {} {}\\n'.format(field, dataType.value));\n                vtkFile.write('LOOKUP_TABLE default\\n')"), "D2/T9-symbolic-lengths"),
        Variant("data type written by member name", P, sub("vtkFile.write('TENSORS {} {}\\n'.format(field, dataType.value));", "vtkFile.write('TENSORS {} {}\\n'.format(field, dataType));"), "D2/T9-symbolic-lengths"),
    ]
