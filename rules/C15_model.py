"""Symbolic execution model for C15 (Newmark stepping): the dynamics factory on a tiny mesh with symbolic data.

Built on rules/C02_model.py (`Sym` = optilint.tensoreval.Interp + jax.vmap with in_axes, jax.hessian requests, uninterpreted material
models, functools.partial, NamedTuple records, ...; `World` = 5 nodes / 3 three-node elements / 2 quadrature points with symbolic nodal
fields, shape data, volumes and internal variables).  Nothing of C02_model is changed; this module adds what further restructurings of the
dynamics code need:

  * `try` / `except` / `else` / `finally` with the exception classes of `raise` statements and of failed dictionary look-ups
    (dictionary dispatch `TABLE[mode]` guarded by `except KeyError`), `match` statements on literals;
  * integer-array gathers with an index array of any rank (`U[conns, :]`, `coords[conns]`: result shape = index shape + trailing shape);
  * record conveniences: dataclass / NamedTuple class defaults, `_replace`, `_asdict`, `types.SimpleNamespace`, `getattr`, `jax.tree_util.Partial`;
  * per-evaluation bookkeeping (material calls, hessian requests, functions executed, fallbacks used) and the *specification* values the
    C15 obligations compare with: the kinematics of each 2D idealisation, the strain-energy integral, the consistent-mass quadratic form.

Everything is static: the library is never imported or executed; its source is interpreted over symbols.
"""
from __future__ import annotations

import ast
import builtins
from fractions import Fraction

from optilint.tensoreval import Dual, Arr, PyFunc, Record, Closure, Ext, EvalError, Raised, Env, _A
from optilint.expr import Rat, Poly, simplify
from optilint.model import dotted, norm_src, canonical_ext
from .C02_model import (Sym, World, OpenRecord, OpaqueVal, HessFn,
                        NNODE, NE, NN, NQ, ND, NSTATE, CONNS, M, FS)

ERR = (EvalError, Raised, KeyError, ValueError, TypeError, AttributeError, IndexError, RecursionError, ZeroDivisionError)
MODES = ["plane strain", "axisymmetric"]


class RaisedExc(Raised):
    """The interpreted code raised an exception of a known class (so that an enclosing `try` of the interpreted code can catch it)."""
    def __init__(self, etype, text=""):
        super().__init__(text or etype)
        self.etype = etype


class ExcObj:
    """an exception instance of the interpreted program"""
    def __init__(self, etype, args=()):
        self.etype, self.args = etype, tuple(args)

    def __repr__(self):
        return f"<{self.etype} instance>"


class Obj(Record):
    """instance of a plain class of the interpreted program (attributes are set by its methods)"""
    def set(self, name, value):
        if name in self.fields:
            self.values[self.fields.index(name)] = value
        else:
            self.fields.append(name)
            self.values.append(value)


# a generic point (two of them) of the region the property quantifies over: 2 beta >= gamma >= 1/2, dt > 0, density > 0
_PARAMETER_SAMPLES = [{"gamma": Fraction(3, 5), "beta": Fraction(121, 400), "dt": Fraction(1, 10)},
                      {"gamma": Fraction(7, 10), "beta": Fraction(2, 5), "dt": Fraction(3, 7)}]


class DynSym(Sym):
    def __init__(self, repo):
        super().__init__(repo)
        self._handling = []
        self.parameter_comparisons = 0
        self.policy = self._parameter_policy
        self.ext_special["jax.tree_util.Partial"] = self._x_partial
        self.ext_special["types.SimpleNamespace"] = lambda it, a, k: Record("SimpleNamespace", list(k), [k[n] for n in k])
        self.ext_special["builtins.getattr"] = self._x_getattr
        self.ext_special["builtins.hasattr"] = self._x_hasattr
        self.ext_special["builtins.map"] = lambda it, a, k: [it.call(a[0], list(xs), {}) for xs in zip(*[it.as_list(x) for x in a[1:]])]
        self.ext_special["builtins.filter"] = lambda it, a, k: [x for x in it.as_list(a[1]) if it.truth(x if a[0] is None else it.call(a[0], [x], {}))]
        self.ext_special["functools.reduce"] = self._x_reduce
        for nm, op in (("add", ast.Add()), ("sub", ast.Sub()), ("mul", ast.Mult()), ("truediv", ast.Div()), ("matmul", ast.MatMult()), ("pow", ast.Pow())):
            self.ext_special["operator." + nm] = (lambda op: lambda it, a, k: it._binop(a[0], op, a[1]))(op)
        self.ext_special["operator.neg"] = lambda it, a, k: it.neg(a[0])
        self.ext_special["operator.getitem"] = lambda it, a, k: it.getitem(a[0], a[1])
        self.ext_special["operator.itemgetter"] = lambda it, a, k: PyFunc("itemgetter", lambda it2, b, k2, a=a: (
            it2.getitem(b[0], a[0]) if len(a) == 1 else tuple(it2.getitem(b[0], i) for i in a)))
        self.ext_special["operator.attrgetter"] = lambda it, a, k: PyFunc("attrgetter", lambda it2, b, k2, a=a: (
            it2._x_getattr(it2, [b[0], a[0]], {}) if len(a) == 1 else tuple(it2._x_getattr(it2, [b[0], n], {}) for n in a)))
        self._decorated = set()
        for nm in ("equinox.filter_jit", "jax.named_call", "jax.checkpoint", "jax.remat", "jax.block_until_ready"):
            self.ext_special.setdefault(nm, lambda it, a, k: a[0])
        self.ext_special["jax.lax.fori_loop"] = self._x_fori_loop
        self.ext_special["jax.lax.scan"] = self._x_scan

    # ---------------------------------------------------------------- comparisons of the time-stepping parameters
    def _parameter_policy(self, d: Rat):
        """sign of a quantity that depends on the Newmark parameters, dt and the density only, at generic points of the region the
        property quantifies over (parameter validation such as `if beta <= 0: raise`); None for anything else"""
        d = _A.norm(d)
        atoms = d.atoms()
        if not atoms or not all(a in ("beta", "gamma", "dt") or a.startswith("rho") for a in atoms):
            return None

        def ev(p: Poly, pt):
            tot = Fraction(0)
            for m, c in p.t.items():
                v = Fraction(c)
                for k, e in m:
                    v *= (pt[k] if k in pt else Fraction(7, 3)) ** e
                tot += v
            return tot
        signs = set()
        for pt in _PARAMETER_SAMPLES:
            n_, d_ = ev(d.n, pt), ev(d.d, pt)
            if d_ == 0:
                return None
            v = n_ / d_
            signs.add((v > 0) - (v < 0))
        if len(signs) != 1:
            return None
        self.parameter_comparisons += 1
        return signs.pop()

    # ---------------------------------------------------------------- plain classes
    def _class_bases(self, csc):
        out = []
        for bnode in csc.node.bases:
            try:
                v = self.eval(bnode, self.module_env(csc.module))
            except ERR:
                continue
            if isinstance(v, Ext) and v.name.startswith("class:"):
                b = self.repo.find(v.name[len("class:"):])
                if b is not None:
                    out.append(b)
        return out

    def _find_method(self, csc, name, _depth=0):
        for c in csc.children:
            if c.kind == "function" and c.name == name:
                return c
        if _depth < 8:
            for b in self._class_bases(csc):
                m = self._find_method(b, name, _depth + 1)
                if m is not None:
                    return m
        return None

    def _bind_method(self, base, m):
        decos = [norm_src(d) for d in m.node.decorator_list]
        cl = Closure(m, self.module_env(m.module))
        if "staticmethod" in decos:
            return cl
        if "property" in decos or any(d.endswith("cached_property") for d in decos):
            return self.call_closure(cl, [base], {})
        recv = Ext(f"class:{base.cls.qualname}") if "classmethod" in decos else base
        return PyFunc(f"{base.tname}.{m.name}", lambda it, args, kw, cl=cl, recv=recv: it.call_closure(cl, [recv] + list(args), kw))

    # ---------------------------------------------------------------- exceptions of the interpreted program
    def _exc_class_name(self, node, env):
        """name of the exception class denoted by the operand of `raise` / of an `except` clause (None: not an exception class)"""
        f = node.func if isinstance(node, ast.Call) else node
        d = dotted(f)
        if d is None:
            return None
        last = d.split(".")[-1]
        b = getattr(builtins, last, None)
        if isinstance(b, type) and issubclass(b, BaseException):
            try:
                v = self.eval(f, env)
            except ERR:
                return None
            return last if isinstance(v, Ext) and v.name == "builtins." + last else self._user_exc(v)
        try:
            return self._user_exc(self.eval(f, env))
        except ERR:
            return None

    def _user_exc(self, v):
        if isinstance(v, ExcObj):
            return v.etype
        if isinstance(v, Ext) and v.name.startswith("class:"):
            return v.name
        if isinstance(v, Ext) and v.name.startswith("builtins."):
            b = getattr(builtins, v.name.split(".")[-1], None)
            if isinstance(b, type) and issubclass(b, BaseException):
                return v.name.split(".")[-1]
        return None

    def _exc_bases(self, etype, _seen=()):
        """names of all classes `etype` derives from (itself included)"""
        if not etype.startswith("class:"):
            b = getattr(builtins, etype, None)
            return {c.__name__ for c in b.__mro__} if isinstance(b, type) else {etype}
        out = {etype}
        csc = self.repo.find(etype[len("class:"):])
        if csc is None or etype in _seen:
            return out | {"Exception", "BaseException"}
        for bnode in csc.node.bases:
            try:
                nm = self._user_exc(self.eval(bnode, self.module_env(csc.module)))
            except ERR:
                nm = None
            if nm:
                out |= self._exc_bases(nm, _seen + (etype,))
        return out

    def _handler_for(self, handlers, ex: RaisedExc, env):
        bases = self._exc_bases(ex.etype)
        for h in handlers:
            if h.type is None:
                return h
            ts = h.type.elts if isinstance(h.type, ast.Tuple) else [h.type]
            for t in ts:
                nm = self._exc_class_name(t, env)
                if nm is None:
                    raise EvalError(f"except clause with a type that is not an exception class: {norm_src(t)[:40]}")
                if nm in bases:
                    return h
        return None

    def call_ext(self, name, args, kwargs):
        if name.startswith("builtins.") and name not in self.ext_special:
            b = getattr(builtins, name.split(".")[-1], None)
            if isinstance(b, type) and issubclass(b, BaseException):
                return ExcObj(name.split(".")[-1], args)
        if name.startswith("class:"):
            csc = self.repo.find(name[len("class:"):])
            if csc is not None and "BaseException" in self._exc_bases(name):
                return ExcObj(name, args)
            init = self._find_method(csc, "__init__") if csc is not None else None
            if init is not None:
                obj = Obj(csc.name, [], [], cls=csc)
                self.call_closure(Closure(init, self.module_env(init.module)), [obj] + list(args), kwargs)
                return obj
            if csc is not None:
                # dataclass / NamedTuple / eqx.Module style records: declared defaults fill the fields that are not given
                decl = [(st.target.id, st.value) for st in csc.node.body if isinstance(st, ast.AnnAssign) and isinstance(st.target, ast.Name)]
                fields = [f for f, _ in decl]
                if fields and len(args) <= len(fields) and all(k in fields for k in kwargs):
                    given = set(fields[:len(args)]) | set(kwargs)
                    rec = super().call_ext(name, args, kwargs)
                    if isinstance(rec, Record):
                        for i, (f, dflt) in enumerate(decl):
                            if f not in given:
                                if dflt is None:
                                    raise EvalError(f"missing field {f} of {csc.name}")
                                rec.values[i] = self.eval(dflt, self.module_env(csc.module))
                    return rec
        return super().call_ext(name, args, kwargs)

    def _binop(self, a, op, b):
        env = Env(None, None)
        env.vars["__l"], env.vars["__r"] = a, b
        return self.e_BinOp(ast.BinOp(left=ast.Name(id="__l", ctx=ast.Load()), op=op, right=ast.Name(id="__r", ctx=ast.Load())), env)

    def _x_reduce(self, it, args, kw):
        xs = self.as_list(args[1])
        if len(args) > 2:
            acc = args[2]
        elif xs:
            acc, xs = xs[0], xs[1:]
        else:
            raise RaisedExc("TypeError", "reduce() of empty iterable with no initial value")
        for x in xs:
            acc = self.call(args[0], [acc, x], {})
        return acc

    def _x_fori_loop(self, it, args, kw):
        lo, hi, body, val = args[:4]
        for i in range(self.as_int(lo), self.as_int(hi)):
            val = self.call(body, [i, val], {})
        return val

    def _x_scan(self, it, args, kw):
        f, carry = args[0], args[1]
        xs = kw.get("xs", args[2] if len(args) > 2 else None)
        if kw.get("reverse") or kw.get("unroll") not in (None, 1) or (xs is None and "length" not in kw and len(args) < 4):
            raise EvalError("lax.scan form")
        if xs is None:
            items = [None] * self.as_int(kw.get("length", args[3] if len(args) > 3 else None))
        elif isinstance(xs, Arr):
            items = [xs.index(i) for i in range(xs.shape[0])]
        elif isinstance(xs, (tuple, list)) and xs and all(isinstance(x, Arr) for x in xs) and len({x.shape[0] for x in xs}) == 1:
            items = [type(xs)(x.index(i) for x in xs) for i in range(xs[0].shape[0])]
        else:
            raise EvalError("lax.scan over a value that is not an array or a tuple of arrays")
        ys = []
        for x in items:
            carry, y = self.call(f, [carry, x], {})
            ys.append(y)
        out = None if (not ys or all(y is None for y in ys)) else self.stack(ys)
        return (carry, out)

    # ---------------------------------------------------------------- decorators
    _TRANSPARENT = {"jit", "custom_jvp", "custom_vjp", "checkpoint", "remat", "wraps", "lru_cache", "cache", "named_call", "defjvp", "defvjp"}

    def _decorate(self, node, value, env):
        """apply the decorators of a function definition (wrappers that do not change values are skipped)"""
        for d in reversed(getattr(node, "decorator_list", [])):
            core = d.func if isinstance(d, ast.Call) else d
            nm = (dotted(core) or "").split(".")[-1]
            if nm in self._TRANSPARENT:
                continue
            if nm == "partial" and isinstance(d, ast.Call) and d.args and (dotted(d.args[0]) or "").split(".")[-1] in self._TRANSPARENT:
                continue
            try:
                value = self.call(self.eval(d, env), [value], {})
            except EvalError as ex:
                raise EvalError(f"decorator {norm_src(d)[:40]} of {node.name} is not modelled: {ex}")
        return value

    def module_value(self, module, name):
        v = super().module_value(module, name)
        if isinstance(v, Closure) and (module.name, name) not in self._decorated and v.scope.name == name \
                and v.scope.module.name == module.name and getattr(v.scope.node, "decorator_list", None) and v.scope.cls is None:
            self._decorated.add((module.name, name))
            v = self._decorate(v.scope.node, v, self.module_env(module))
            self.module_env(module).vars[name] = v
        return v

    def _x_getattr(self, it, args, kw):
        base, name = args[0], args[1]
        if not isinstance(name, str):
            raise EvalError("getattr with a computed name")
        env = Env(None, None)
        env.vars["__b"] = base
        try:
            return self.e_Attribute(ast.Attribute(value=ast.Name(id="__b", ctx=ast.Load()), attr=name, ctx=ast.Load()), env)
        except EvalError:
            if len(args) > 2:
                return args[2]
            raise

    def _x_hasattr(self, it, args, kw):
        base, name = args[0], args[1]
        if isinstance(base, OpenRecord) or not isinstance(base, Record) or not isinstance(name, str):
            raise EvalError("hasattr of a value whose attributes are not all known")
        return name in base.fields or (base.cls is not None and any(c.name == name for c in base.cls.children))

    # ---------------------------------------------------------------- statements
    def stmt(self, st, env):
        if isinstance(st, ast.Raise):
            if st.exc is None:
                if self._handling:
                    raise self._handling[-1]
                raise RaisedExc("RuntimeError", "bare raise outside an except clause")
            nm = self._exc_class_name(st.exc, env)
            if nm is None:
                raise Raised(norm_src(st)[:80])
            raise RaisedExc(nm, norm_src(st)[:80])
        if isinstance(st, ast.Try):
            return self._try(st, env)
        if hasattr(ast, "Match") and isinstance(st, ast.Match):
            return self._match(st, env)
        if isinstance(st, ast.Assert):
            return None
        if isinstance(st, ast.With):
            # context managers of other libraries (profiling / naming scopes) do not change values: the body is executed
            for item in st.items:
                try:
                    cm = self.eval(item.context_expr, env)
                except EvalError as ex:
                    if "external function" not in str(ex):
                        raise
                    cm = OpaqueVal(("with", norm_src(item.context_expr)[:60]), "context manager")
                if not isinstance(cm, (Ext, OpaqueVal)):
                    raise EvalError(f"with statement over {cm!r}")
                if item.optional_vars is not None:
                    self.assign(item.optional_vars, cm, env)
            return self.block(st.body, env)
        if isinstance(st, ast.Import) and env.scope is not None and env.scope.kind != "module":
            for al in st.names:
                if al.asname:
                    m = self.repo.modules.get(al.name)
                    env.vars[al.asname] = ("module", m) if m else Ext(canonical_ext(al.name))
                else:
                    top = al.name.split(".")[0]
                    m = self.repo.modules.get(top)
                    env.vars[top] = ("module", m) if m else Ext(top)
            return None
        if isinstance(st, ast.ImportFrom) and env.scope is not None and env.scope.kind != "module" and not st.level and st.module:
            for al in st.names:
                if al.name == "*":
                    raise EvalError("local star import")
                full = f"{st.module}.{al.name}"
                if full in self.repo.modules:
                    v = ("module", self.repo.modules[full])
                elif st.module in self.repo.modules:
                    v = self.module_value(self.repo.modules[st.module], al.name)
                else:
                    v = Ext(canonical_ext(full))
                env.vars[al.asname or al.name] = v
            return None
        if isinstance(st, ast.FunctionDef):
            sc = self.repo.scope_of(st)
            if sc is None:
                raise EvalError("function scope")
            env.vars[st.name] = self._decorate(st, self._freeze_defaults(Closure(sc, env), env), env)
            return None
        if isinstance(st, ast.ClassDef):
            sc = self.repo.scope_of(st)
            if sc is None:
                raise EvalError("class scope")
            env.vars[st.name] = Ext(f"class:{sc.qualname}")
            return None
        if isinstance(st, (ast.Global, ast.Nonlocal)):
            raise EvalError(f"statement {type(st).__name__}")
        return super().stmt(st, env)

    def assign(self, t, v, env):
        if isinstance(t, ast.Attribute):
            base = self.eval(t.value, env)
            if isinstance(base, Obj):
                base.set(t.attr, v)
                return None
            raise EvalError(f"attribute store on {base!r}")
        return super().assign(t, v, env)

    def _try(self, st, env):
        try:
            try:
                self.block(st.body, env)
            except RaisedExc as ex:
                h = self._handler_for(st.handlers, ex, env)
                if h is None:
                    raise
                if h.name:
                    env.vars[h.name] = ExcObj(ex.etype)
                self._handling.append(ex)
                try:
                    self.block(h.body, env)
                finally:
                    self._handling.pop()
            else:
                self.block(st.orelse, env)
        finally:
            if st.finalbody:
                self.block(st.finalbody, env)

    def _match(self, st, env):
        subj = self.eval(st.subject, env)
        for case in st.cases:
            binds = self._pattern(case.pattern, subj, env)
            if binds is None:
                continue
            env2 = Env(env.scope, env)
            env2.vars.update(binds)
            if case.guard is not None and not self.truth(self.eval(case.guard, env2)):
                continue
            env.vars.update(binds)
            return self.block(case.body, env)
        return None

    def _pattern(self, p, v, env):
        """bindings if value v matches pattern p, else None (literal, singleton, `|`, capture and wildcard patterns)"""
        if isinstance(p, ast.MatchValue):
            return {} if self.compare(v, ast.Eq(), self.eval(p.value, env)) else None
        if isinstance(p, ast.MatchSingleton):
            return {} if v is p.value else None
        if isinstance(p, ast.MatchOr):
            for q in p.patterns:
                b = self._pattern(q, v, env)
                if b is not None:
                    return b
            return None
        if isinstance(p, ast.MatchAs):
            b = {} if p.pattern is None else self._pattern(p.pattern, v, env)
            if b is None:
                return None
            if p.name:
                b = dict(b)
                b[p.name] = v
            return b
        raise EvalError(f"match pattern {type(p).__name__}")

    # ---------------------------------------------------------------- definition-time defaults
    def _freeze_defaults(self, cl: Closure, env):
        """Python evaluates default values when the function object is created, in the defining scope"""
        sc = cl.scope
        vals = {}
        for p_ in sc.params() + sc.kwonly():
            d = sc.default_of(p_)
            if d is not None:
                vals[p_] = self.eval(d, env)
        if vals:
            cl.defaults = vals
        return cl

    def e_Lambda(self, e, env):
        return self._freeze_defaults(super().e_Lambda(e, env), env)

    def call_closure(self, f: Closure, args, kwargs):
        dflt = getattr(f, "defaults", None)
        if dflt:
            ps = f.scope.params()
            given = set(ps[:len(args)]) | set(kwargs)
            missing = {k: v for k, v in dflt.items() if k not in given}
            if missing:
                kwargs = dict(kwargs, **missing)
        return super().call_closure(f, args, kwargs)

    # ---------------------------------------------------------------- expressions
    def truth(self, v):
        if isinstance(v, (Closure, PyFunc, Ext, HessFn, ExcObj)) or (isinstance(v, Record) and not isinstance(v, OpenRecord)):
            return True
        return super().truth(v)

    def e_BoolOp(self, e, env):
        # `a or b` / `a and b` evaluate to one of the operands
        is_and = isinstance(e.op, ast.And)
        v = None
        for x in e.values:
            v = self.eval(x, env)
            t = self.truth(v)
            if t != is_and:
                return v
        return v

    def e_BinOp(self, e, env):
        if isinstance(e.op, ast.MatMult):
            a, b = self.eval(e.left, env), self.eval(e.right, env)
            if isinstance(a, Arr) and isinstance(b, Arr) and (a.ndim > 2 or b.ndim > 2):
                return self._batched_matmul(a, b)
            env2 = Env(env.scope, env)
            env2.vars["__l"], env2.vars["__r"] = a, b
            return super().e_BinOp(ast.BinOp(left=ast.Name(id="__l", ctx=ast.Load()), op=e.op, right=ast.Name(id="__r", ctx=ast.Load())), env2)
        return super().e_BinOp(e, env)

    def _batched_matmul(self, a: Arr, b: Arr):
        """numpy.matmul with stacks of matrices: the last two axes are multiplied, leading axes are broadcast"""
        import itertools
        if a.ndim < 2 or b.ndim < 2:
            raise EvalError("matmul of a stack of matrices with a vector")
        ba, bb = tuple(a.shape[:-2]), tuple(b.shape[:-2])
        n = max(len(ba), len(bb))
        ba, bb = (1,) * (n - len(ba)) + ba, (1,) * (n - len(bb)) + bb
        if any(x != y and x != 1 and y != 1 for x, y in zip(ba, bb)) or a.shape[-1] != b.shape[-2]:
            raise EvalError(f"matmul shapes {a.shape} @ {b.shape}")
        batch = tuple(max(x, y) for x, y in zip(ba, bb))
        a2 = Arr(list(a.data), ba + tuple(a.shape[-2:]))
        b2 = Arr(list(b.data), bb + tuple(b.shape[-2:]))
        r, k, c = a.shape[-2], a.shape[-1], b.shape[-1]
        data = []
        for ix in itertools.product(*[range(s_) for s_ in batch]):
            ia = tuple(i if s_ != 1 else 0 for i, s_ in zip(ix, ba))
            ib = tuple(i if s_ != 1 else 0 for i, s_ in zip(ix, bb))
            for i in range(r):
                for j in range(c):
                    tot = Dual(0)
                    for t in range(k):
                        tot = tot + a2.get(ia + (i, t)) * b2.get(ib + (t, j))
                    data.append(tot)
        return Arr(data, batch + (r, c))

    def e_NamedExpr(self, e, env):
        v = self.eval(e.value, env)
        self.assign(e.target, v, env)
        return v

    def e_Attribute(self, e, env):
        if not isinstance(e.value, ast.Name) or not e.value.id.startswith("__"):
            base = self.eval(e.value, env)
            if isinstance(base, Arr) and e.attr in ("mean", "swapaxes", "squeeze"):
                return ("method", base, e.attr)
            if isinstance(base, Arr) and e.attr == "T" and base.ndim > 2:
                return self._permute(base, list(reversed(range(base.ndim))))
            if isinstance(base, Record) and base.cls is not None and e.attr not in base.fields:
                m = self._find_method(base.cls, e.attr)
                if m is not None:
                    return self._bind_method(base, m)
            env2 = Env(env.scope, env)
            env2.vars["__c15b"] = base
            return self._attr(ast.Attribute(value=ast.Name(id="__c15b", ctx=ast.Load()), attr=e.attr, ctx=ast.Load()), env2)
        return self._attr(e, env)

    def _attr(self, e, env):
        if e.attr in ("_replace", "_asdict", "_fields"):
            base = self.eval(e.value, env)
            if isinstance(base, Record) and e.attr not in base.fields:
                if e.attr == "_fields":
                    return tuple(base.fields)
                if e.attr == "_asdict":
                    return PyFunc("_asdict", lambda it, a, k, base=base: dict(zip(base.fields, base.values)))

                def repl(it, a, k, base=base):
                    vals = list(base.values)
                    for n, v in k.items():
                        if n not in base.fields:
                            raise RaisedExc("ValueError", f"_replace: unexpected field {n}")
                        vals[list(base.fields).index(n)] = v
                    return type(base)(base.tname, list(base.fields), vals, cls=base.cls)
                return PyFunc("_replace", repl)
            env2 = Env(env.scope, env)
            env2.vars["__b"] = base
            return super().e_Attribute(ast.Attribute(value=ast.Name(id="__b", ctx=ast.Load()), attr=e.attr, ctx=ast.Load()), env2)
        return super().e_Attribute(e, env)

    # ---------------------------------------------------------------- numpy: layout operations of any rank
    @staticmethod
    def _permute(x: Arr, order):
        import itertools
        shp = tuple(x.shape[a] for a in order)
        data = []
        for ix in itertools.product(*[range(k) for k in shp]):
            src = [0] * x.ndim
            for pos, a in enumerate(order):
                src[a] = ix[pos]
            data.append(x.get(tuple(src)))
        return Arr(data, shp)

    def _axis(self, ax, ndim):
        ax = self.as_int(ax)
        if ax < 0:
            ax += ndim
        if not 0 <= ax < ndim:
            raise EvalError("axis out of range")
        return ax

    def _join(self, parts, axis, new_axis):
        """np.stack (new_axis) / np.concatenate of arrays along any axis"""
        parts = [self.num(p) for p in parts]
        parts = [p if isinstance(p, Arr) else Arr([p], ()) for p in parts]
        if new_axis:
            ax = self._axis(axis, parts[0].ndim + 1) if self.as_int(axis) >= 0 else self.as_int(axis) + parts[0].ndim + 1
            parts = [Arr(list(p.data), tuple(p.shape[:ax]) + (1,) + tuple(p.shape[ax:])) for p in parts]
        else:
            ax = self._axis(axis, parts[0].ndim)
        rest = lambda p: tuple(s for i, s in enumerate(p.shape) if i != ax)
        if any(p.ndim != parts[0].ndim or rest(p) != rest(parts[0]) for p in parts):
            raise EvalError("concatenate shapes")
        moved = [self._permute(p, [ax] + [i for i in range(p.ndim) if i != ax]) for p in parts]
        cat = Arr([x for m in moved for x in m.data], (sum(m.shape[0] for m in moved),) + tuple(moved[0].shape[1:]))
        back = list(range(1, ax + 1)) + [0] + list(range(ax + 1, cat.ndim))
        return self._permute(cat, back)

    def np_call(self, fn, args, kwargs):
        n = self.num
        if fn == "pad" and args:
            x = n(args[0])
            pw = kwargs.get("pad_width", args[1] if len(args) > 1 else None)
            mode = kwargs.get("mode", args[2] if len(args) > 2 else "constant")
            cv = kwargs.get("constant_values", 0)
            if not isinstance(x, Arr) or pw is None or mode != "constant" or isinstance(cv, (tuple, list, Arr)):
                raise EvalError("np.pad form")
            if not isinstance(pw, (tuple, list)):
                pw = ((pw, pw),) * x.ndim
            elif pw and not isinstance(pw[0], (tuple, list)):
                pw = (tuple(pw) if len(pw) == 2 else (pw[0], pw[0]),) * x.ndim
            elif len(pw) == 1:
                pw = tuple(pw) * x.ndim
            if len(pw) != x.ndim:
                raise EvalError("np.pad width")
            pw = [(self.as_int(a), self.as_int(b)) for a, b in pw]
            import itertools
            shp = tuple(s + a + b for s, (a, b) in zip(x.shape, pw))
            fill = n(cv)
            data = []
            for ix in itertools.product(*[range(k) for k in shp]):
                src = tuple(i - a for i, (a, b) in zip(ix, pw))
                data.append(x.get(src) if all(0 <= j < s for j, s in zip(src, x.shape)) else fill)
            return Arr(data, shp)
        if fn == "matmul" and len(args) == 2 and isinstance(n(args[0]), Arr) and isinstance(n(args[1]), Arr) and (n(args[0]).ndim > 2 or n(args[1]).ndim > 2):
            return self._batched_matmul(n(args[0]), n(args[1]))
        if fn == "expand_dims" and len(args) >= 1:
            x = n(args[0])
            ax = kwargs.get("axis", args[1] if len(args) > 1 else None)
            if isinstance(x, Dual):
                x = Arr([x], ())
            a = self.as_int(ax)
            a = a + x.ndim + 1 if a < 0 else a
            return Arr(list(x.data), tuple(x.shape[:a]) + (1,) + tuple(x.shape[a:]))
        if fn == "squeeze" and len(args) == 1 and not kwargs and isinstance(n(args[0]), Arr):
            x = n(args[0])
            shp = tuple(s_ for s_ in x.shape if s_ != 1)
            return Arr(list(x.data), shp) if shp else x.data[0]
        if fn == "swapaxes" and len(args) == 3:
            x = n(args[0])
            a, b = self._axis(args[1], x.ndim), self._axis(args[2], x.ndim)
            order = list(range(x.ndim))
            order[a], order[b] = order[b], order[a]
            return self._permute(x, order)
        if fn == "moveaxis" and len(args) == 3 and not isinstance(args[1], (tuple, list)):
            x = n(args[0])
            a, b = self._axis(args[1], x.ndim), self._axis(args[2], x.ndim)
            order = [i for i in range(x.ndim) if i != a]
            order.insert(b, a)
            return self._permute(x, order)
        if fn == "transpose" and isinstance(n(args[0]), Arr):
            x = n(args[0])
            axes = kwargs.get("axes", args[1] if len(args) > 1 else None)
            order = list(reversed(range(x.ndim))) if axes is None else [self._axis(a, x.ndim) for a in axes]
            if sorted(order) != list(range(x.ndim)):
                raise EvalError("transpose axes")
            return self._permute(x, order)
        if fn in ("stack", "concatenate") and args and isinstance(args[0], (list, tuple)):
            ax = kwargs.get("axis", args[1] if len(args) > 1 else 0)
            if ax is not None and (fn == "stack" or self.as_int(ax) != 0):
                return self._join(list(args[0]), ax, fn == "stack")
        if fn in ("sum", "mean") and args and isinstance(n(args[0]), Arr):
            x = n(args[0])
            ax = kwargs.get("axis", args[1] if len(args) > 1 else None)
            if isinstance(ax, (tuple, list)):
                out = x
                for a in sorted((self._axis(a, x.ndim) for a in ax), reverse=True):
                    out = super().np_call("sum", [out], {"axis": a})
                tot, cnt = out, 1
                for a in ax:
                    cnt *= x.shape[self._axis(a, x.ndim)]
            else:
                tot = super().np_call("sum", [x] + ([ax] if ax is not None else []), {})
                cnt = x.size() if ax is None else x.shape[self._axis(ax, x.ndim)]
            if fn == "sum":
                return tot
            c = Dual(Fraction(1, cnt))
            return tot.map(lambda v: v * c) if isinstance(tot, Arr) else tot * c
        return super().np_call(fn, args, kwargs)

    def call_method(self, base, name, args, kwargs):
        if isinstance(base, Arr) and name in ("sum", "mean", "transpose", "swapaxes", "squeeze") and (args or kwargs or name in ("mean", "swapaxes", "squeeze")):
            if name == "transpose" and len(args) > 1:
                args = [tuple(args)]
            return self.np_call(name, [base] + list(args), kwargs)
        return super().call_method(base, name, args, kwargs)

    def _basic_key_with_newaxis(self, base: Arr, key):
        """numpy basic indexing with None (new axis) and Ellipsis entries"""
        key = key if isinstance(key, tuple) else (key,)
        if any(isinstance(k, (Arr, list)) for k in key):
            raise EvalError("new axis combined with advanced indexing")
        n_real = sum(1 for k in key if k is not None and k is not Ellipsis)
        if sum(1 for k in key if k is Ellipsis) > 1:
            raise EvalError("several ellipses")
        full = []
        for k in key:
            if k is Ellipsis:
                full += [slice(None)] * (base.ndim - n_real)
            else:
                full.append(k)
        if not any(k is Ellipsis for k in key):
            full += [slice(None)] * (base.ndim - n_real)
        res = base.index(tuple(k for k in full if k is not None))
        shp, it_ = [], iter(res.shape if isinstance(res, Arr) else ())
        for k in full:
            if k is None:
                shp.append(1)
            elif isinstance(k, slice):
                shp.append(next(it_))
        data = list(res.data) if isinstance(res, Arr) else [res]
        return Arr(data, tuple(shp)) if shp else data[0]

    def getitem(self, base, key):
        if isinstance(base, Arr):
            ks = key if isinstance(key, tuple) else (key,)
            if any(k is None or k is Ellipsis for k in ks):
                return self._basic_key_with_newaxis(base, self._norm_key(key))
        if isinstance(base, dict):
            k = key
            if isinstance(k, Dual):
                k = self.as_int(k)
            try:
                hash(k)
            except TypeError:
                raise RaisedExc("TypeError", f"unhashable dictionary key {k!r}")
            if k not in base:
                raise RaisedExc("KeyError", f"missing key {k!r}")
            return base[k]
        if isinstance(base, Arr):
            k0, rest = (key[0], tuple(key[1:])) if isinstance(key, tuple) and key else (key, ())
            if isinstance(k0, list) and k0 and all(isinstance(r, (list, tuple)) for r in k0):
                try:
                    k0 = Arr.from_nested([[Dual(self.as_int(x)) for x in r] for r in k0])
                except EvalError:
                    k0 = key[0] if isinstance(key, tuple) else key
            if isinstance(k0, Arr) and not k0.isbool and k0.ndim > 1:
                # integer-array (gather) indexing: result shape = index shape + shape of what the remaining key selects
                flat_key = k0.ravel()
                flat = self.num(super().getitem(base, (flat_key,) + rest if rest else flat_key))
                tail = tuple(flat.shape[1:]) if isinstance(flat, Arr) else ()
                return Arr(list(flat.data), tuple(k0.shape) + tail)
        return super().getitem(base, key)


# ------------------------------------------------------------------ the world

class DynWorld(World):
    """World of rules/C02_model.py run by the extended interpreter, plus the specification values of C15."""

    def __init__(self, ctx):
        # (same construction as World.__init__, with the extended interpreter)
        self.ctx = ctx
        self.I = I = DynSym(ctx.repo)
        self.mod = ctx.need_module(M)
        self.fsmod = ctx.need_module(FS)
        S = I.sym
        self.U = I.sym_arr("U", (NNODE, ND))
        self.UP = I.sym_arr("UP", (NNODE, ND))
        self.X = I.sym_arr("X", (NNODE, ND))
        self.N = I.sym_arr("N", (NE, NQ, NN))
        self.dN = I.sym_arr("dN", (NE, NQ, NN, ND))
        self.w = I.sym_arr("w", (NE, NQ))
        self.Q = I.sym_arr("Q", (NE, NQ, NSTATE))
        self.dt = S("dt")
        self.conns = Arr([Dual(i) for row in CONNS for i in row], (NE, NN))
        self.blocks = {"blockA": Arr([Dual(0), Dual(2)], (2,)), "blockB": Arr([Dual(1)], (1,))}
        cls = lambda modname, cname: ctx.repo.find(f"{modname}:{cname}")
        pe = OpenRecord("ParentElement", ["coordinates", "degree"], [I.sym_arr("xi", (NN, ND)), 1], cls=cls("optimism.Interpolants", "ParentElement"))
        self.mesh = OpenRecord("Mesh", ["coords", "conns", "blocks", "parentElement"], [self.X, self.conns, self.blocks, pe],
                               cls=cls("optimism.Mesh", "Mesh"))
        self.qr = OpenRecord("QuadratureRule", ["xigauss", "wgauss"], [I.sym_arr("xg", (NQ, ND)), I.sym_arr("wg", (NQ,))],
                             cls=cls("optimism.QuadratureRule", "QuadratureRule"))
        self.fs = OpenRecord("FunctionSpace", ["shapes", "vols", "shapeGrads", "mesh", "quadratureRule", "isAxisymmetric"],
                             [self.N, self.w, self.dN, self.mesh, self.qr, False], cls=cls(FS, "FunctionSpace"))
        self._fs = {False: self.fs}
        self.usyms = frozenset(I.num(x).a.n.atoms().pop() for x in self.U.data)
        I.special["optimism.Interpolants:make_parent_element_2d"] = self._parent_element
        I.special["optimism.Interpolants:compute_shapes"] = self._compute_shapes
        self.materials = {}
        self.V = I.sym_arr("V", (NNODE, ND))
        self.Ac = I.sym_arr("A", (NNODE, ND))
        self.A1 = I.sym_arr("A1", (NNODE, ND))
        self.Wc = I.sym_arr("W", (NNODE, ND))

    # ---- specification values
    def interp(self, field, e, q, i):
        """sum_a N[e,q,a] field[conns[e][a], i]"""
        return sum((self.N.get((e, q, a)) * field.get((CONNS[e][a], i)) for a in range(NN)), Dual(0))

    def grad_spec(self, mode, e, q, field=None):
        """the 3x3 displacement gradient the material must see at quadrature point (e, q) for this 2D idealisation"""
        field = self.U if field is None else field
        g = [[Dual(0)] * 3 for _ in range(3)]
        for i in range(ND):
            for j in range(ND):
                g[i][j] = sum((field.get((CONNS[e][a], i)) * self.dN.get((e, q, a, j)) for a in range(NN)), Dual(0))
        if mode == "axisymmetric":
            g[2][2] = self.interp(field, e, q, 0) / self.interp(self.X, e, q, 0)
        return Arr.from_nested(g)

    def strain_spec(self, mode, mat="A"):
        """sum_{e,q} w[e,q] * SE(grad_spec, Q[e,q], dt): the strain energy of U"""
        tot = Dual(0)
        for e in range(NE):
            for q in range(NQ):
                tot = tot + self.w.get((e, q)) * self.I.opaque(f"SE:{mat}", [self.grad_spec(mode, e, q), self.Q.index((e, q)), self.dt])
        return _A.norm(tot.a)

    def kinetic_spec(self, field, mat="A"):
        """sum_{e,q} w[e,q] * 1/2 rho |sum_a N[e,q,a] field[conns[e][a]]|^2 : the kinetic energy of the nodal field (consistent mass)"""
        rho = self.material(mat).get("density")
        tot = Dual(0)
        for e in range(NE):
            for q in range(NQ):
                v2 = Dual(0)
                for i in range(ND):
                    vi = self.interp(field, e, q, i)
                    v2 = v2 + vi * vi
                tot = tot + self.w.get((e, q)) * v2
        return _A.norm((Dual(_A.const(1) / _A.const(2)) * rho * tot).a)

    def plane_strain_hook(self):
        """a gradient transformation with the hook signature (elemGrads, elemShapes, elemVols, elemNodalDisps, elemNodalCoords)"""
        def hook(it, args, kw):
            g = it.num(args[0])
            if not isinstance(g, Arr) or g.ndim != 3 or g.shape[1:] != (ND, ND):
                raise EvalError(f"gradient hook called with element gradients of shape {getattr(g, 'shape', None)}")
            out = []
            for q in range(g.shape[0]):
                for i in range(3):
                    for j in range(3):
                        out.append(g.get((q, i, j)) if i < ND and j < ND else Dual(0))
            return Arr(out, (g.shape[0], 3, 3))
        return PyFunc("plane-strain-spec", hook)

    def split_energy(self, r: Rat):
        """(part without material atoms, part with them, other opaque atoms) of a scalar"""
        I = self.I
        r = simplify(_A.norm(r))
        kin, se = {}, {}
        for mono, c in r.n.t.items():
            (se if any(a.startswith("SE:") for a, _e in mono) else kin)[mono] = c
        k, s = _A.norm(Rat(Poly(kin), r.d)), _A.norm(Rat(Poly(se), r.d))
        return k, s

    def foreign_atoms(self, r: Rat):
        """atoms of r that are applications of uninterpreted functions other than the material energy (sqrt, solve, ...)"""
        I = self.I
        out = set()
        for a in r.atoms():
            base = a.split(".")[0] if "#" in a else a
            if a.startswith("SE:"):
                continue
            if base in I.atom_info or I.atom_deps.get(a, frozenset([a])) != frozenset([a]) or "[" in a:
                out.add(a)
        return out


# ------------------------------------------------------------------ evaluation sessions (one factory call per option combination)

FIELD_ARGS = {
    "single": {"compute_strain_energy": "UQt", "compute_updated_internal_variables": "UQt", "compute_element_stiffnesses": "UQt",
               "compute_output_energy_densities_and_stresses": "UQt", "integrated_material_qoi": "UQt", "compute_output_material_qoi": "UQt",
               "compute_initial_state": ""},
    "dyn": {"compute_algorithmic_energy": "UPQt", "compute_updated_internal_variables": "UQt", "compute_element_hessians": "UPQt",
            "compute_output_energy_densities_and_stresses": "UQt", "compute_output_strain_energy": "UQt", "compute_initial_state": "",
            "compute_output_kinetic_energy": "V", "compute_element_masses": ""},
}
KIND = {"create_mechanics_functions": "single", "create_dynamics_functions": "dyn"}
ENERGY = {"single": "compute_strain_energy", "dyn": "compute_algorithmic_energy"}
STIFF = {"single": "compute_element_stiffnesses", "dyn": "compute_element_hessians"}


class Ev:
    """result of evaluating one closure: value | error, the hessian requests / material calls it made, the library functions it
    executed, whether an uninterpreted fallback was used"""
    def __init__(self):
        self.value = self.error = self.exc = None
        self.reqs, self.log, self.visited, self.tainted = [], [], set(), False


class Case:
    def __init__(self, S, fac, mode, deg):
        self.S, self.fac, self.mode, self.deg = S, fac, mode, deg
        self.kind = KIND[fac]
        self.fns = self.rejected = self.error = self.exc = None
        self.evs = {}
        self.label = f"{fac}:mode2D={mode!r},pressureProjectionDegree={deg}"
        W = S.W
        I = W.I
        t0 = len(I.taint)
        keep, I.visited = I.visited, set()
        try:
            f = W.fn(M, fac)
            fsr = W.fs_for(mode)
            if self.kind == "single":
                self.fns = W.call(f, fsr, mode, W.material("A"), deg)
            else:
                self.fns = W.call(f, fsr, mode, W.material("A"), W.newmark(), deg)
            if not isinstance(self.fns, Record):
                self.error, self.fns = f"factory returned {self.fns!r}", None
        except Raised as ex:
            self.rejected = str(ex)
        except ERR as ex:
            self.error, self.exc = f"{type(ex).__name__}: {ex}", ex
        self.visited = I.visited
        I.visited = keep | self.visited
        self.tainted = len(I.taint) > t0

    def ev(self, field, args=None, key=None) -> Ev:
        key = key or field
        if key in self.evs:
            return self.evs[key]
        W, I = self.S.W, self.S.W.I
        e = self.evs[key] = Ev()
        if self.fns is None:
            e.error = self.error or f"option rejected: {self.rejected}"
            return e
        if field not in self.fns.fields or self.fns.get(field) is None:
            e.error = f"the factory's result has no closure `{field}`"
            return e
        if args is None:
            spec = FIELD_ARGS[self.kind].get(field)
            if spec is None:
                e.error = f"closure `{field}` is not part of the modelled interface"
                return e
            args = {"UQt": [W.U, W.Q, W.dt], "UPQt": [W.U, W.UP, W.Q, W.dt], "": [], "V": [W.V]}[spec]
        h0, l0, t0 = len(I.hess), len(I.log), len(I.taint)
        keep, I.visited = I.visited, set()
        try:
            e.value = I.call(self.fns.get(field), list(args), {})
        except ERR as ex:
            e.error, e.exc = f"{type(ex).__name__}: {ex}", ex
        e.visited = I.visited
        I.visited = keep | e.visited
        e.reqs = list(range(h0, len(I.hess)))
        e.log = I.log[l0:]
        e.tainted = self.tainted or len(I.taint) > t0
        return e


class Session:
    def __init__(self, ctx):
        self.ctx = ctx
        self.W = DynWorld(ctx)
        self.cases = {}
        self.req_eval = {}
        self._canon = {}

    def case(self, fac, mode, deg) -> Case:
        k = (fac, mode, deg)
        if k not in self.cases:
            self.cases[k] = Case(self, fac, mode, deg)
        return self.cases[k]

    def canon(self, v):
        """canonical id of a value: equal fingerprints are confirmed by exact comparison"""
        k = self.W.I.vkey(v)
        lst = self._canon.setdefault(k, [])
        for i, v0 in enumerate(lst):
            if v0 is v or self.W.same(v0, v) is not False:
                return (k, i)
        lst.append(v)
        return (k, len(lst) - 1)

    def request(self, k):
        """(value G_k of the differentiated function at the actual arguments | None, error, material log, tainted)"""
        if k in self.req_eval:
            return self.req_eval[k]
        I = self.W.I
        r = I.hess[k]
        l0, t0 = len(I.log), len(I.taint)
        val = err = None
        try:
            val = I.num(I.call(r["fn"], list(r["args"]), dict(r["kwargs"])))
            if isinstance(val, Arr):
                if val.size() == 1:
                    val = val.data[0]
                else:
                    val, err = None, "the differentiated function is not scalar valued"
        except ERR as ex:
            err = f"{type(ex).__name__}: {ex}"
        out = self.req_eval[k] = (val, err, I.log[l0:], len(I.taint) > t0)
        return out


def short(x, n=300):
    s = repr(x)
    return s if len(s) <= n else s[:n] + " ..."


def element_functions(S, ev: Ev):
    """For every element e: [(request index, coefficient Rat)] such that the block of e in the array returned by a stiffness closure is
    sum_k c_k * Hessian_k in the layout of the request itself; (None, reason) when the array cannot be read that way; 'zero' for a block
    that is identically 0."""
    K = ev.value
    if not isinstance(K, Arr) or K.ndim < 1 or K.shape[0] != NE:
        return None, f"the closure returns {short(K, 80)}, not an array with one block per element"
    n2 = K.size() // NE
    out = {}
    for e in range(NE):
        blk = K.data[e * n2:(e + 1) * n2]
        if all(x.is_zero() for x in blk):
            out[e] = "zero"
            continue
        coef = None
        for i, x in enumerate(blk):
            r = simplify(_A.norm(x.a))
            if any(a.startswith("HESS") for a in r.d.atoms()):
                return None, f"element {e}: a Hessian entry occurs in a denominator"
            ci = {}
            for m, c in r.n.t.items():
                hs = [(a, ex) for a, ex in m if a.startswith("HESS")]
                if len(hs) != 1 or hs[0][1] != 1:
                    return None, f"element {e}: entry {i} is not a linear combination of Hessian entries ({short(r, 120)})"
                k, j = hs[0][0][4:].split("_")
                if int(j) != i:
                    return None, f"element {e}: entry {i} of the block is entry {j} of a Hessian (permuted layout)"
                rest = tuple(t for t in m if t[0] != hs[0][0])
                ci.setdefault(int(k), {})[rest] = c
            ci = {k: Rat(Poly(v), r.d) for k, v in ci.items()}
            if coef is None:
                coef = ci
            elif set(ci) != set(coef) or any(not _A.is_zero(_A.norm(ci[k] - coef[k])) for k in ci):
                return None, f"element {e}: the entries of the block combine Hessians with different coefficients"
        out[e] = sorted(coef.items())
    return out, None


def element_sum(S, ef):
    """sum over the elements of sum_k c_k G_k; (Rat | None, error, log, tainted)"""
    tot = Rat(Poly(), Poly.const(1))
    log, tainted = [], False
    for e in sorted(ef):
        if ef[e] == "zero":
            continue
        for k, c in ef[e]:
            val, err, lg, tn = S.request(k)
            if err:
                return None, f"element {e}: cannot evaluate the differentiated function: {err}", log, tainted
            tot = tot + c * val.a
            log += lg
            tainted = tainted or tn
    return _A.norm(tot), None, log, tainted


def differentiated_arguments(S, ef):
    """reason (str) why a Hessian request of the stiffness array is NOT the second derivative w.r.t. the element's own nodal values
    U[conns[e],:] (+ a U-independent shift) with every other argument independent of U; None when all of them are.
    Returns (problem, positively_wrong)."""
    W, I = S.W, S.W.I
    for e in sorted(ef):
        if ef[e] == "zero":
            return f"the block of element {e} is identically zero (no Hessian is stored for it)", True
        for k, c in ef[e]:
            r = I.hess[k]
            a0 = r["args"][r["argnum"]]
            want = Arr.from_nested([[W.U.get((CONNS[e][a], i)) for i in range(ND)] for a in range(NN)])
            if not isinstance(a0, Arr) or a0.size() != want.size():
                return (f"element {e}: jax.hessian differentiates w.r.t. argument {r['argnum']} of shape {getattr(a0, 'shape', None)}, "
                        f"not the {NN}x{ND} nodal values of one element"), False
            dep = set()
            for x, y in zip(a0.data, want.data):
                dep |= I.deps_of_rat(_A.norm(x.a - y.a)) & W.usyms
            if dep:
                return (f"element {e}: jax.hessian differentiates w.r.t. argument {r['argnum']} = {short(a0, 160)}; that is not U[conns[{e}],:] "
                        f"plus a U-independent shift"), True
            others = set(I.deps_of_rat(c) & W.usyms)
            for j, a in enumerate(r["args"]):
                if j != r["argnum"]:
                    try:
                        others |= I.deps(a) & W.usyms
                    except ERR:
                        pass
            for a in r["kwargs"].values():
                others |= I.deps(a) & W.usyms
            if others:
                return (f"element {e}: an argument that is not differentiated (or the coefficient of the Hessian) depends on U "
                        f"({sorted(others)[:4]}): that dependence is missing from the tangent"), True
    return None, False


def kinematics(S, case, field):
    """({(e, q): set of canonical keys of the displacement gradients handed to the material} | None if the closure does not call the
    material | error string, Ev).  The locator (e, q) is read from the internal variables passed along with the gradient."""
    W = S.W
    ev = case.ev(field)
    if ev.error:
        return ev.error, ev
    log = list(ev.log)
    if field == STIFF[case.kind]:
        ef, why = element_functions(S, ev)
        if ef is None:
            return why, ev
        _, err, lg, tn = element_sum(S, ef)
        if err:
            return err, ev
        log += lg
        ev.tainted = ev.tainted or tn
    out = {}
    for kind, mat, args in log:
        if len(args) < 2:
            continue
        loc = W.element_of_state(args[1])
        if len(loc) != 1:
            continue
        try:
            out.setdefault(next(iter(loc)), set()).add(S.canon(args[0]))
        except ERR:
            return "gradient argument of the material is not a value", ev
    return (out or None), ev
