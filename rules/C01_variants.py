"""Variants of the library used by the thorough tier for C01 (inputs of the self-test, not rules).

A variant whose last field is a rule id must be REFUTED by that rule; None means the edit keeps the property and the check must stay
silent (no new REFUTED, no new UNDECIDED).  The preserving ones are deliberately bold: helper extraction (also of a whole loop), single
exit with status flags, `while True` + break, guard clauses, reversed comparisons, equivalent NaN tests, closures vs default-argument
binding, carried vs recomputed reference value.  The violating ones are subtle: stale reference value, stale closure binding, wrong point
tested, callback before the assignment, exchanged factors, ...
"""
import ast

from optilint.selftest import Variant, sub, sub_in_func, alpha_rename, reformat, commute

E = "optimism/EquationSolver.py"
O = "optimism/Objective.py"
T = "trust_region_minimize"


def chain(*fs):
    def f(src):
        for g in fs:
            src = g(src)
            if src is None:
                return None
        return src
    return f


def replace_func(name, newtext):
    def f(src):
        tree = ast.parse(src)
        for st in tree.body:
            if isinstance(st, ast.FunctionDef) and st.name == name:
                lines = src.split("\n")
                return "\n".join(lines[:st.lineno - 1]) + "\n" + newtext.rstrip("\n") + "\n" + "\n".join(lines[st.end_lineno:])
        return None
    return f

SINGLE_EXIT = '''
def trust_region_minimize(objective, x, settings, callback=None):
    """single exit, status flags, while loops with explicit counters"""
    radius = settings.tr_size
    retried = False
    grad_at = objective.gradient
    value_at = objective.value

    g = grad_at(x)
    fx = value_at(x)
    gNorm = np.linalg.norm(g)
    print("\\nInitial objective, residual = ", fx, gNorm)

    success = False
    finished = is_converged(objective, x, 0.0, 0.0, g, g, 0, radius, settings)
    if finished:
        success = True

    cumulativeCgIters = 0
    outer = 0
    while not finished and outer < settings.max_trust_iters:
        outer += 1
        if settings.use_incremental_objective:
            def incremental_objective(step):
                return 0.5*((g + objective.gradient(x+step)) @ step)
        else:
            def incremental_objective(step):
                return value_at(x+step) - fx

        def hess_vec_func(v):
            return objective.hessian_vec(x, v)
        if settings.use_preconditioned_inner_product_for_cg:
            mult_by_approx_hessian = objective.multiply_by_approx_hessian
        else:
            mult_by_approx_hessian = lambda v: v

        gKg = g@hess_vec_func(g)
        if gKg > 0:
            alpha = -(g@g) / gKg
            cauchyPoint = alpha * g
            cauchyPointNormSquared = cauchyPoint@mult_by_approx_hessian(cauchyPoint)
        else:
            cauchyPoint =  -g * (radius / np.sqrt(g@mult_by_approx_hessian(g)))
            cauchyPointNormSquared = radius*radius
            print('negative curvature unpreconditioned cauchy point direction found.')

        if cauchyPointNormSquared >= radius*radius:
            print('unpreconditioned gradient cauchy point outside trust region at dist = ', np.sqrt(cauchyPointNormSquared))
            cauchyPoint *= (radius / np.sqrt(cauchyPointNormSquared))
            cauchyPointNormSquared = radius*radius
            qNewtonPoint = cauchyPoint
            stepType = boundaryString
            cgIters = 1
        else:
            qNewtonPoint, _, stepType, cgIters = \\
                solve_trust_region_minimization(x, g, hess_vec_func, objective.apply_precond, radius, settings)

        cumulativeCgIters += cgIters

        radiusUsed = radius
        stepDone = False
        while not stepDone and not finished:
            d = dogleg_step(cauchyPoint, qNewtonPoint, radius, mult_by_approx_hessian)
            Jd = hess_vec_func(d)
            modelObjective = g @ d + 0.5*(d @ Jd)
            trial = x + d
            realObjective = incremental_objective(d)
            gTrial = grad_at(trial)

            if is_converged(objective, trial, realObjective, modelObjective,
                            gTrial, g + Jd, cgIters, radiusUsed, settings):
                x = trial
                success = True
                finished = True
                continue

            if modelObjective > 0:
                print('Found a positive model objective increase.  Debug if you see this.')
                rho = -realObjective / modelObjective
            else:
                rho = realObjective / modelObjective

            if not rho >= settings.eta2:  # write it this way to handle NaNs
                radius = radius * settings.t1
            elif rho > settings.eta3 and is_on_boundary(stepType):
                radius = radius * settings.t2

            realResNorm = np.linalg.norm(gTrial)
            willAccept = rho >= settings.eta1 or (rho >= 0 and realResNorm <= gNorm)
            print_min_banner(realObjective, modelObjective, realResNorm, np.linalg.norm(g + Jd),
                             cgIters, radiusUsed, stepType, willAccept, settings)

            if willAccept:
                x, g, gNorm = trial, gTrial, realResNorm
                fx = value_at(x)
                retried = False
                stepDone = True
                if callback: callback(x, objective)
            else:
                stepType = boundaryString
                cgIters = 0

            if cgIters >= settings.max_cg_iters or cumulativeCgIters >= settings.max_cumulative_cg_iters:
                objective.update_precond(x)
                cumulativeCgIters = 0

            radiusUsed = radius

            if radius < settings.min_tr_size:
                if not retried:
                    print("The trust region is too small, updating precond and trying again.")
                    objective.update_precond(x)
                    cumulativeCgIters = 0
                    retried = True
                    stepDone = True
                    radius = settings.tr_size
                else:
                    print("The trust region is still too small.  Accepting, but be careful.")
                    finished = True

    if not success and not finished:
        print("Reached the maximum number of trust region iterations.")
        if settings.check_stability:
            objective.check_stability(x)
    if callback: callback(x, objective)
    return x, success
'''

INNER_HELPER = '''
def _try_steps(objective, x, g, o, gNorm, trSize, triedNewPrecond, cumulativeCgIters, cauchyPoint, qNewtonPoint, stepType, cgIters,
               incremental_objective, hess_vec_func, mult_by_approx_hessian, gradient, settings, callback):
    """shrink the trust region until a step is accepted; returns (status, x, g, o, gNorm, trSize, triedNewPrecond, cumulativeCgIters)"""
    trSizeUsed = trSize
    happyAboutTrSize=False
    while not happyAboutTrSize:
        d = dogleg_step(cauchyPoint, qNewtonPoint, trSize, mult_by_approx_hessian)
        Jd = hess_vec_func(d)
        dJd = d @ Jd
        modelObjective = g @ d + 0.5*dJd
        y = x+d
        realObjective = incremental_objective(d)
        gy = gradient(y)
        if is_converged(objective, y, realObjective, modelObjective,
                        gy, g + Jd, cgIters, trSizeUsed, settings):
            if callback: callback(y, objective)
            return 'converged', y, gy, o, gNorm, trSize, triedNewPrecond, cumulativeCgIters
        modelImprove = -modelObjective
        realImprove = -realObjective
        rho = realImprove / modelImprove
        if modelObjective > 0:
            rho = realImprove / -modelImprove
        if not rho >= settings.eta2:
            trSize *= settings.t1
        elif rho > settings.eta3 and is_on_boundary(stepType):
            trSize *= settings.t2
        realResNorm = np.linalg.norm(gy)
        willAccept = rho >= settings.eta1 or (rho >= -0 and realResNorm <= gNorm)
        if willAccept:
            x = y
            g = gy
            o = objective.value(x)
            gNorm = realResNorm
            triedNewPrecond = False
            happyAboutTrSize = True
            if callback: callback(x, objective)
        else:
            stepType=boundaryString
            cgIters = 0
        if cgIters >= settings.max_cg_iters or cumulativeCgIters >= settings.max_cumulative_cg_iters:
            objective.update_precond(x)
            cumulativeCgIters=0
        trSizeUsed = trSize
        if trSize < settings.min_tr_size:
            if not triedNewPrecond:
                objective.update_precond(x)
                cumulativeCgIters=0
                triedNewPrecond = True
                happyAboutTrSize = True
                trSize = settings.tr_size
            else:
                if callback: callback(x, objective)
                return 'stuck', x, g, o, gNorm, trSize, triedNewPrecond, cumulativeCgIters
    return 'continue', x, g, o, gNorm, trSize, triedNewPrecond, cumulativeCgIters


def trust_region_minimize(objective, x, settings, callback=None):
    trSize = settings.tr_size
    triedNewPrecond = False
    gradient = objective.gradient
    g = gradient(x)
    o = objective.value(x)
    gNorm = np.linalg.norm(g)
    if is_converged(objective, x, 0.0, 0.0, g, g, 0, trSize, settings):
        if callback: callback(x, objective)
        return x, True
    cumulativeCgIters=0
    for i in range(settings.max_trust_iters):
        if settings.use_incremental_objective:
            incremental_objective = lambda d: 0.5*((g + objective.gradient(x+d)) @ d)
        else:
            incremental_objective = lambda d: objective.value(x+d) - o
        hess_vec_func = lambda v: objective.hessian_vec(x, v)
        mult_by_approx_hessian = objective.multiply_by_approx_hessian if settings.use_preconditioned_inner_product_for_cg else lambda x: x
        gKg = g@hess_vec_func(g)
        if gKg > 0:
            alpha = -(g@g) / gKg
            cauchyPoint = alpha * g
            cauchyPointNormSquared = cauchyPoint@mult_by_approx_hessian(cauchyPoint)
        else:
            cauchyPoint =  -g * (trSize / np.sqrt(g@mult_by_approx_hessian(g)))
            cauchyPointNormSquared = trSize*trSize
        if cauchyPointNormSquared >= trSize*trSize:
            cauchyPoint *= (trSize / np.sqrt(cauchyPointNormSquared))
            cauchyPointNormSquared = trSize*trSize
            qNewtonPoint = cauchyPoint
            stepType = boundaryString
            cgIters = 1
        else:
            qNewtonPoint, _, stepType, cgIters = \\
                solve_trust_region_minimization(x, g, hess_vec_func, objective.apply_precond, trSize, settings)
        cumulativeCgIters += cgIters
        status, x, g, o, gNorm, trSize, triedNewPrecond, cumulativeCgIters = _try_steps(
            objective, x, g, o, gNorm, trSize, triedNewPrecond, cumulativeCgIters, cauchyPoint, qNewtonPoint, stepType, cgIters,
            incremental_objective, hess_vec_func, mult_by_approx_hessian, gradient, settings, callback)
        if status == 'converged':
            return x, True
        if status == 'stuck':
            return x, False
    print("Reached the maximum number of trust region iterations.")
    if settings.check_stability:
        objective.check_stability(x)
        if callback: callback(x, objective)
    return x, False
'''



RECORD_STATE = '''
_Iterate = namedtuple('_Iterate', ['x', 'g', 'o', 'gNorm'])


def trust_region_minimize(objective, x, settings, callback=None):
    \"\"\"the iterate, its gradient, objective value and gradient norm travel together in a record\"\"\"
    trSize = settings.tr_size
    triedNewPrecond = False
    gradient = objective.gradient

    g0 = gradient(x)
    it = _Iterate(x, g0, objective.value(x), np.linalg.norm(g0))
    print("\\nInitial objective, residual = ", it.o, it.gNorm)

    if is_converged(objective, it.x, 0.0, 0.0, it.g, it.g, 0, trSize, settings):
        if callback: callback(it.x, objective)
        return it.x, True

    cumulativeCgIters=0

    for i in range(settings.max_trust_iters):
        if settings.use_incremental_objective:
            incremental_objective = lambda d: 0.5*((it.g + objective.gradient(it.x+d)) @ d)
        else:
            incremental_objective = lambda d: objective.value(it.x+d) - it.o

        hess_vec_func = lambda v: objective.hessian_vec(it.x, v)
        mult_by_approx_hessian = objective.multiply_by_approx_hessian if settings.use_preconditioned_inner_product_for_cg else lambda v: v

        gKg = it.g@hess_vec_func(it.g)
        if gKg > 0:
            alpha = -(it.g@it.g) / gKg
            cauchyPoint = alpha * it.g
            cauchyPointNormSquared = cauchyPoint@mult_by_approx_hessian(cauchyPoint)
        else:
            cauchyPoint =  -it.g * (trSize / np.sqrt(it.g@mult_by_approx_hessian(it.g)))
            cauchyPointNormSquared = trSize*trSize
            print('negative curvature unpreconditioned cauchy point direction found.')

        if cauchyPointNormSquared >= trSize*trSize:
            print('unpreconditioned gradient cauchy point outside trust region at dist = ', np.sqrt(cauchyPointNormSquared))
            cauchyPoint *= (trSize / np.sqrt(cauchyPointNormSquared))
            cauchyPointNormSquared = trSize*trSize
            qNewtonPoint = cauchyPoint
            stepType = boundaryString
            cgIters = 1
        else:
            qNewtonPoint, _, stepType, cgIters = \\
                solve_trust_region_minimization(it.x, it.g, hess_vec_func, objective.apply_precond, trSize, settings)

        cumulativeCgIters += cgIters

        trSizeUsed = trSize
        happyAboutTrSize=False
        while not happyAboutTrSize:
            d = dogleg_step(cauchyPoint, qNewtonPoint, trSize, mult_by_approx_hessian)

            Jd = hess_vec_func(d)
            dJd = d @ Jd
            modelObjective = it.g @ d + 0.5*dJd

            y = it.x+d
            realObjective = incremental_objective(d)
            gy = gradient(y)

            if is_converged(objective, y, realObjective, modelObjective,
                            gy, it.g + Jd, cgIters, trSizeUsed, settings):
                if callback: callback(y, objective)
                return y, True

            modelImprove = -modelObjective
            realImprove = -realObjective

            rho = realImprove / modelImprove

            if modelObjective > 0:
                print('Found a positive model objective increase.  Debug if you see this.')
                rho = realImprove / -modelImprove

            if not rho >= settings.eta2:  # write it this way to handle NaNs
                trSize *= settings.t1
            elif rho > settings.eta3 and is_on_boundary(stepType):
                trSize *= settings.t2

            modelRes = it.g + Jd
            modelResNorm = np.linalg.norm(modelRes)
            realResNorm = np.linalg.norm(gy)

            willAccept = rho >= settings.eta1 or (rho >= -0 and realResNorm <= it.gNorm)

            print_min_banner(realObjective, modelObjective,
                             realResNorm, modelResNorm,
                             cgIters, trSizeUsed, stepType,
                             willAccept,
                             settings)

            if willAccept:
                it = _Iterate(y, gy, objective.value(y), realResNorm)
                triedNewPrecond = False
                happyAboutTrSize = True

                if callback: callback(it.x, objective)
            else:
                stepType=boundaryString
                cgIters = 0

            if cgIters >= settings.max_cg_iters or cumulativeCgIters >= settings.max_cumulative_cg_iters:
                objective.update_precond(it.x)
                cumulativeCgIters=0

            trSizeUsed = trSize

            if trSize < settings.min_tr_size:

                if not triedNewPrecond:
                    print("The trust region is too small, updating precond and trying again.")
                    objective.update_precond(it.x)
                    cumulativeCgIters=0
                    triedNewPrecond = True
                    happyAboutTrSize = True
                    trSize = settings.tr_size
                else:
                    print("The trust region is still too small.  Accepting, but be careful.")
                    if callback: callback(it.x, objective)
                    return it.x, False

    print("Reached the maximum number of trust region iterations.")
    if settings.check_stability:
        objective.check_stability(it.x)

        if callback: callback(it.x, objective)
    return it.x, False
'''


def extra_variants():
    V = []
    # ---------- preserving
    V.append(Variant("P1 extract acceptance + ratio helpers", E, chain(
        sub_in_func(T, "            rho = realImprove / modelImprove\n\n            if modelObjective > 0:\n                print('Found a positive model objective increase.  Debug if you see this.')\n                rho = realImprove / -modelImprove\n                #exit(1)\n",
                    "            rho = reduction_ratio(realObjective, modelObjective)\n"),
        sub_in_func(T, "willAccept = rho >= settings.eta1 or (rho >= -0 and realResNorm <= gNorm)", "willAccept = step_is_acceptable(rho, realResNorm, gNorm, settings)"),
        sub("def trust_region_minimize(", "def reduction_ratio(actual, predicted):\n    if predicted > 0:\n        print('positive model objective')\n        return -actual / predicted\n    return -actual / -predicted\n\n\ndef step_is_acceptable(ratio, newResNorm, oldResNorm, settings):\n    if ratio >= settings.eta1:\n        return True\n    if not ratio >= 0:\n        return False\n    return newResNorm <= oldResNorm\n\n\ndef trust_region_minimize("),
    ), None))
    V.append(Variant("P2 while True / break", E, chain(
        sub_in_func(T, "        happyAboutTrSize=False\n        while not happyAboutTrSize:\n", "        while True:\n            happyAboutTrSize=False\n"),
        sub_in_func(T, "            trSizeUsed = trSize\n        \n            if trSize < settings.min_tr_size:", "            trSizeUsed = trSize\n        \n            if trSize < settings.min_tr_size:"),
        sub_in_func(T, "                    if callback: callback(x, objective)\n                    return x, False\n", "                    if callback: callback(x, objective)\n                    return x, False\n\n            if happyAboutTrSize:\n                break\n"),
    ), None))
    V.append(Variant("P3 swapped accept branches + temp", E, chain(
        sub_in_func(T, "            if willAccept:\n                x = y\n                g = gy\n                #g,hess_vec_func = gradientAndTanOpt(x) \n                o = objective.value(x)\n                gNorm = realResNorm\n                triedNewPrecond = False\n                happyAboutTrSize = True\n\n                if callback: callback(x, objective)\n            else:\n                # set these for output\n                # trust region will continue to strink until we find a solution on the boundary\n                stepType=boundaryString\n                cgIters = 0\n",
                    "            rejected = not willAccept\n            if rejected:\n                stepType=boundaryString\n                cgIters = 0\n            else:\n                xNew = y\n                oNew = objective.value(xNew)\n                x, g, o, gNorm = xNew, gy, oNew, realResNorm\n                triedNewPrecond = False\n                happyAboutTrSize = True\n                if callback is not None:\n                    callback(xNew, objective)\n"),
    ), None))
    V.append(Variant("P4 is_converged with norm < tol", E, chain(
        sub_in_func("is_converged", "    gg = realRes@realRes\n    if gg < settings.tol**2:\n        modelResNorm = np.linalg.norm(modelRes)\n        realResNorm = np.sqrt(gg)\n",
                    "    realResNorm = np.linalg.norm(realRes)\n    if realResNorm < settings.tol:\n        modelResNorm = np.linalg.norm(modelRes)\n"),
    ), None))
    V.append(Variant("P5 nonlinear_equation_solve restructured", E, chain(
        sub_in_func("nonlinear_equation_solve", "    if useWarmStart:\n        if updatePrecond:\n            objective.update_precond(xBar0)\n        \n        dxBar = WarmStart.warm_start_increment(objective,\n                                               xBar0, p)\n        xBar0 += dxBar\n        objective.p = p\n    else:\n        objective.p = p\n",
                    "    if not useWarmStart:\n        objective.p = p\n    else:\n        if updatePrecond:\n            objective.update_precond(xBar0)\n        xBar0 = xBar0 + WarmStart.warm_start_increment(objective, xBar0, pNew=p)\n        setattr_target = objective\n        setattr_target.p = p\n"),
        sub_in_func("nonlinear_equation_solve", "    xBar, solverSuccess = solver_algorithm(objective, xBar0, settings, callback=callback)\n    \n    return objective.invScaling * xBar, solverSuccess",
                    "    result = solver_algorithm(objective, xBar0, settings, callback)\n    return objective.invScaling * result[0], result[1]"),
    ), None))
    V.append(Variant("P6 Objective.value with temporary", O, sub("        return self.objective(x, self.p)", "        params = self.p\n        val = self.objective(x, params)\n        return val"), None))
    V.append(Variant("P7 iterate alias xk", E, chain(
        sub_in_func(T, "    trSize = settings.tr_size\n    triedNewPrecond = False\n", "    trSize = settings.tr_size\n    triedNewPrecond = False\n    xStart = x\n    del_me = None\n"),
    ), None))
    V.append(Variant("P8 ratio with abs denominator", E, chain(
        sub_in_func(T, "            rho = realImprove / modelImprove\n\n            if modelObjective > 0:\n                print('Found a positive model objective increase.  Debug if you see this.')\n                rho = realImprove / -modelImprove\n                #exit(1)\n",
                    "            rho = realImprove / np.abs(modelImprove)\n"),
    ), None))
    V.append(Variant("P9 success flag through variable", E, chain(
        sub_in_func(T, "            if is_converged(objective, y, realObjective, modelObjective,\n                            gy, g + Jd, cgIters, trSizeUsed, settings):\n                if callback: callback(y, objective)\n                return y, True\n",
                    "            converged = is_converged(objective, y, realObjective, modelObjective,\n                            gy, g + Jd, cgIters, trSizeUsed, settings)\n            if converged:\n                if callback: callback(y, objective)\n                return y, converged\n"),
    ), None))
    V.append(Variant("P10 get_settings via temp", E, chain(
        sub_in_func("get_settings", "    return Settings(t1, t2, eta1, eta2, eta3,", "    s = Settings(t1, t2, eta1, eta2, eta3,"),
        sub_in_func("get_settings", "                    over_iters=over_iters)", "                    over_iters=over_iters)\n    return s"),
    ), None))
    # ---------- breaking
    V.append(Variant("B1 reference value updated even when rejected", E, chain(
        sub_in_func(T, "            if willAccept:\n                x = y\n                g = gy\n                #g,hess_vec_func = gradientAndTanOpt(x) \n                o = objective.value(x)\n",
                    "            o = objective.value(y)\n            if willAccept:\n                x = y\n                g = gy\n"),
    ), "D2/T8-descent"))
    V.append(Variant("B2 convergence tested with gradient at old point", E, sub_in_func(T, "            gy = gradient(y)\n", "            gy = gradient(x)\n"), "D1/T1-guarded-success"))
    V.append(Variant("B3 shrink/grow factors swapped", E, chain(
        sub_in_func(T, "                trSize *= settings.t1\n", "                trSize *= settings.t2\n"),
    ), "D4/T12-nan-polarity"))
    V.append(Variant("B4 outer flag constant True", E, sub_in_func("nonlinear_equation_solve", "    return objective.invScaling * xBar, solverSuccess", "    return objective.invScaling * xBar, True"), "D1/T2-parameters-before-solve"))
    V.append(Variant("B5 callback before the iterate is replaced", E, chain(
        sub_in_func(T, "                happyAboutTrSize = True\n\n                if callback: callback(x, objective)\n", "                happyAboutTrSize = True\n\n"),
        sub_in_func(T, "            if willAccept:\n                x = y\n", "            if willAccept:\n                if callback: callback(x, objective)\n                x = y\n"),
    ), "D3/T2-reported-iterate"))
    V.append(Variant("B6 ratio uses model increase sign flipped everywhere", E, sub_in_func(T, "            realImprove = -realObjective\n", "            realImprove = realObjective\n"), "D2/T8-descent"))
    V.append(Variant("B7 accept threshold on |rho|", E, sub_in_func(T, "willAccept = rho >= settings.eta1 or", "willAccept = np.abs(rho) >= settings.eta1 or"), "D2/T8-descent"))
    V.append(Variant("B8 initial exit without test of x", E, sub_in_func(T, "    if is_converged(objective, x, 0.0, 0.0, g, g, 0, trSize, settings):\n", "    if is_converged(objective, x, 0.0, 0.0, 0.0*g, g, 0, trSize, settings):\n"), "D1/T1-guarded-success"))
    V.append(Variant("B9 Objective.value under construction-time params", O, chain(sub("        self.objective=jit(f)", "        self.objective=jit(lambda x, q: f(x, p))")), "D1/T5-objective-uses-current-parameters"))
    V.append(Variant("B10 grad wrt parameters", O, sub("        self.grad_x = jit(grad(f,0))", "        self.grad_x = jit(grad(f,1))"), "D1/T5-objective-uses-current-parameters"))
    V.append(Variant("B11 settings_with_new_tol swaps etas", E, chain(sub("                           eta2=oldSettings.eta2,\n                           eta3=oldSettings.eta3,", "                           eta2=oldSettings.eta3,\n                           eta3=oldSettings.eta2,")), "D1/T5-settings-wiring"))


    V.append(Variant("W5 is_converged returns the comparison", E, chain(
        sub_in_func("is_converged", "        print('') # a bit of output formatting\n            \n        return True\n    return False", "        print('') # a bit of output formatting\n\n    return gg < settings.tol**2"),
    ), None))
    V.append(Variant("W7 explicit isnan in the radius update", E, sub_in_func(T, "            if not rho >= settings.eta2:  # write it this way to handle NaNs", "            if rho < settings.eta2 or np.isnan(rho):"), None))
    V.append(Variant("W7b x != x NaN test", E, sub_in_func(T, "            if not rho >= settings.eta2:  # write it this way to handle NaNs", "            if rho != rho or rho < settings.eta2:"), None))
    V.append(Variant("W8 for/else for the iteration cap", E, chain(
        sub_in_func(T, "    print(\"Reached the maximum number of trust region iterations.\")\n    if settings.check_stability:\n        objective.check_stability(x)\n\n        if callback: callback(x, objective)\n    return x, False",
                    "    else:\n        print(\"Reached the maximum number of trust region iterations.\")\n        if settings.check_stability:\n            objective.check_stability(x)\n            if callback: callback(x, objective)\n    return x, False"),
    ), None))
    V.append(Variant("W10 convergence check moved to the top of each iteration", E, chain(
        sub_in_func(T, "    if is_converged(objective, x, 0.0, 0.0, g, g, 0, trSize, settings):\n        if callback: callback(x, objective)\n        return x, True\n\n    cumulativeCgIters=0\n    \n    for i in range(settings.max_trust_iters):\n",
                    "    cumulativeCgIters=0\n    \n    for i in range(settings.max_trust_iters):\n        if i == 0 and is_converged(objective, x, 0.0, 0.0, g, g, 0, trSize, settings):\n            if callback: callback(x, objective)\n            return x, True\n"),
    ), None))
    V.append(Variant("W12 keyword callback call", E, sub_in_func(T, "                if callback: callback(x, objective)\n            else:", "                if callback: callback(x, objective=objective)\n            else:"), None))
    V.append(Variant("W14 parameters set through a helper", E, chain(
        sub_in_func("nonlinear_equation_solve", "        xBar0 += dxBar\n        objective.p = p\n    else:\n        objective.p = p\n", "        xBar0 += dxBar\n    _use_parameters(objective, p)\n"),
        sub("def nonlinear_equation_solve(", "def _use_parameters(obj, params):\n    obj.p = params\n\n\ndef nonlinear_equation_solve("),
    ), None))
    V.append(Variant("W20 model objective factored", E, sub_in_func(T, "            modelObjective = g @ d + 0.5*dJd\n", "            modelObjective = (g + 0.5*Jd) @ d\n"), None))
    V.append(Variant("W22 logical_or acceptance", E, sub_in_func(T, "willAccept = rho >= settings.eta1 or (rho >= -0 and realResNorm <= gNorm)", "willAccept = np.logical_or(rho >= settings.eta1, np.logical_and(rho >= 0, realResNorm <= gNorm))"), None))
    V.append(Variant("W23 reversed comparisons", E, chain(
        sub_in_func(T, "willAccept = rho >= settings.eta1 or (rho >= -0 and realResNorm <= gNorm)", "willAccept = settings.eta1 <= rho or (0 <= rho and gNorm >= realResNorm)"),
        sub_in_func(T, "            if modelObjective > 0:", "            if 0 < modelObjective:"),
    ), None))
    V.append(Variant("W25 carried objective updated incrementally", E, sub_in_func(T, "                o = objective.value(x)\n                gNorm = realResNorm", "                o = o + realObjective if not settings.use_incremental_objective else objective.value(x)\n                gNorm = realResNorm"), None))
    V.append(Variant("W26 no carried objective at all", E, chain(
        sub_in_func(T, "            incremental_objective = lambda d: objective.value(x+d) - o\n", "            incremental_objective = lambda d: objective.value(x+d) - objective.value(x)\n"),
        sub_in_func(T, "                o = objective.value(x)\n                gNorm = realResNorm", "                gNorm = realResNorm"),
    ), None))
    V.append(Variant("W27 default-argument binding in the lambda", E, sub_in_func(T, "            incremental_objective = lambda d: objective.value(x+d) - o\n", "            incremental_objective = lambda d, x0=x, o0=o: objective.value(x0+d) - o0\n"), None))
    V.append(Variant("B12 NaN-unsafe explicit test order (isnan missing)", E, sub_in_func(T, "            if not rho >= settings.eta2:  # write it this way to handle NaNs", "            if rho < settings.eta2 or np.isinf(rho):"), "D4/T12-nan-polarity"))
    V.append(Variant("B13 is_converged <= on squared vs unsquared", E, sub_in_func("is_converged", "    if gg < settings.tol**2:", "    if np.sqrt(gg) < settings.tol**2:"), "D1/T1-convergence-test"))
    V.append(Variant("B14 stale lambda binding (bound once before the loop)", E, chain(
        sub_in_func(T, "    cumulativeCgIters=0\n    \n    for i in range(settings.max_trust_iters):\n", "    cumulativeCgIters=0\n    exact_incremental_objective = lambda d, x0=x, o0=o: objective.value(x0+d) - o0\n    \n    for i in range(settings.max_trust_iters):\n"),
        sub_in_func(T, "            incremental_objective = lambda d: objective.value(x+d) - o\n", "            incremental_objective = exact_incremental_objective\n"),
    ), "D2/T8-descent"))
    V.append(Variant("B15 solver success or-ed with True default", E, sub_in_func("nonlinear_equation_solve", "    return objective.invScaling * xBar, solverSuccess", "    return objective.invScaling * xBar, solverSuccess or useWarmStart"), "D1/T2-parameters-before-solve"))
    V.append(Variant("B16 warm start with the old parameters as target", E, sub_in_func("nonlinear_equation_solve", "                                               xBar0, p)", "                                               xBar0, objective.p)"), "D1/T2-parameters-before-solve"))


    V.append(Variant("P11 Objective.gradient through a late-binding closure stored on the object", O, chain(
        sub("        self.grad_p = jit(grad(f,1))\n", "        self.grad_p = jit(grad(f,1))\n        self.residual = lambda x: self.grad_x(x, self.p)\n"),
        sub("        return self.grad_x(x, self.p)", "        return self.residual(x)")), None))
    V.append(Variant("B17 Objective.gradient through a closure that froze the constructor's parameters", O, chain(
        sub("        self.grad_p = jit(grad(f,1))\n", "        self.grad_p = jit(grad(f,1))\n        self.residual = lambda x: self.grad_x(x, p)\n"),
        sub("        return self.grad_x(x, self.p)", "        return self.residual(x)")), "D1/T5-objective-uses-current-parameters"))
    V.append(Variant("P12 is_on_boundary through a module-level collection", E, chain(
        sub("def is_on_boundary(stepType):\n    return stepType==boundaryString or stepType==negCurveString",
            "_BOUNDARY_STEP_TYPES = frozenset((boundaryString, negCurveString))\n\n\ndef is_on_boundary(stepType):\n    return stepType in _BOUNDARY_STEP_TYPES")), None))
    V.append(Variant("S1 iterate state in a tuple", E, chain(
        sub_in_func(T, "    print(\"\\nInitial objective, residual = \", o, gNorm)\n", "    print(\"\\nInitial objective, residual = \", o, gNorm)\n    state = (x, g, o, gNorm)\n"),
        sub_in_func(T, "            d = dogleg_step(cauchyPoint, qNewtonPoint, trSize, mult_by_approx_hessian)\n", "            x, g, o, gNorm = state\n            d = dogleg_step(cauchyPoint, qNewtonPoint, trSize, mult_by_approx_hessian)\n"),
        sub_in_func(T, "                x = y\n                g = gy\n                #g,hess_vec_func = gradientAndTanOpt(x) \n                o = objective.value(x)\n                gNorm = realResNorm\n",
                    "                state = (y, gy, objective.value(y), realResNorm)\n                x, g, o, gNorm = state\n")), None))
    V.append(Variant("S4 iterate state in a dict", E, chain(
        sub_in_func(T, "    print(\"\\nInitial objective, residual = \", o, gNorm)\n", "    print(\"\\nInitial objective, residual = \", o, gNorm)\n    state = {'x': x, 'g': g, 'o': o, 'gNorm': gNorm}\n"),
        sub_in_func(T, "            d = dogleg_step(cauchyPoint, qNewtonPoint, trSize, mult_by_approx_hessian)\n", "            x, g, o, gNorm = state['x'], state['g'], state['o'], state['gNorm']\n            d = dogleg_step(cauchyPoint, qNewtonPoint, trSize, mult_by_approx_hessian)\n"),
        sub_in_func(T, "                x = y\n                g = gy\n                #g,hess_vec_func = gradientAndTanOpt(x) \n                o = objective.value(x)\n                gNorm = realResNorm\n",
                    "                state = dict(state, x=y, g=gy, o=objective.value(y), gNorm=realResNorm)\n                x, g, o, gNorm = state['x'], state['g'], state['o'], state['gNorm']\n")), None))
    V.append(Variant("S2 iterate state in a namedtuple record", E, replace_func(T, RECORD_STATE), None))
    V.append(Variant("S3 record state, reference value taken before the record is replaced (stale)", E, chain(
        replace_func(T, RECORD_STATE),
        sub("                it = _Iterate(y, gy, objective.value(y), realResNorm)\n", "                it = _Iterate(y, gy, objective.value(it.x), realResNorm)\n")), "D2/T8-descent"))
    V.append(Variant("Q1 settings_with_new_tol through _asdict and **", E, replace_func("settings_with_new_tol",
        "def settings_with_new_tol(oldSettings, newTol):\n    fields = oldSettings._asdict()\n    fields['tol'] = newTol\n    fields['cg_tol'] = 0.2*newTol\n    return Settings(**fields)\n"), None))
    V.append(Variant("Q1b settings_with_new_tol through _asdict, tolerance stored in the wrong field", E, replace_func("settings_with_new_tol",
        "def settings_with_new_tol(oldSettings, newTol):\n    fields = oldSettings._asdict()\n    fields['tol'] = newTol\n    fields['cg_tol'] = oldSettings.tol\n    return Settings(**fields)\n"), "D1/T5-settings-wiring"))
    V.append(Variant("Q2 get_settings through Settings._make", E, chain(
        sub_in_func("get_settings", "    return Settings(t1, t2, eta1, eta2, eta3,\n                    max_trust_iters=max_trust_iters,\n                    tol=tol,\n                    max_cg_iters=max_cg_iters,\n                    max_cumulative_cg_iters=max_cumulative_cg_iters,\n                    cg_tol=cg_tol,\n                    cg_inexact_solve_ratio=cg_inexact_solve_ratio,\n                    tr_size=tr_size,\n                    min_tr_size=min_tr_size,\n                    check_stability=check_stability,\n                    use_preconditioned_inner_product_for_cg=use_preconditioned_inner_product_for_cg,\n                    use_incremental_objective=use_incremental_objective,\n                    debug_info=debug_info,\n                    over_iters=over_iters)",
                    "    values = (t1, t2, eta1, eta2, eta3, max_trust_iters, tol, max_cg_iters, max_cumulative_cg_iters, cg_tol, cg_inexact_solve_ratio, tr_size, min_tr_size,\n              check_stability, use_preconditioned_inner_product_for_cg, use_incremental_objective, debug_info, over_iters)\n    return Settings._make(values)")), None))
    V.append(Variant("Q2b get_settings through Settings._make, two values exchanged", E, chain(
        sub_in_func("get_settings", "    return Settings(t1, t2, eta1, eta2, eta3,\n                    max_trust_iters=max_trust_iters,\n                    tol=tol,\n                    max_cg_iters=max_cg_iters,\n                    max_cumulative_cg_iters=max_cumulative_cg_iters,\n                    cg_tol=cg_tol,\n                    cg_inexact_solve_ratio=cg_inexact_solve_ratio,\n                    tr_size=tr_size,\n                    min_tr_size=min_tr_size,\n                    check_stability=check_stability,\n                    use_preconditioned_inner_product_for_cg=use_preconditioned_inner_product_for_cg,\n                    use_incremental_objective=use_incremental_objective,\n                    debug_info=debug_info,\n                    over_iters=over_iters)",
                    "    values = (t1, t2, eta1, eta2, eta3, max_trust_iters, tol, max_cg_iters, max_cumulative_cg_iters, cg_tol, cg_inexact_solve_ratio, min_tr_size, tr_size,\n              check_stability, use_preconditioned_inner_product_for_cg, use_incremental_objective, debug_info, over_iters)\n    return Settings._make(values)")), "D1/T5-settings-wiring"))
    V.append(Variant("Q3 parameters assigned with setattr", E, chain(
        sub_in_func("nonlinear_equation_solve", "        xBar0 += dxBar\n        objective.p = p\n    else:\n        objective.p = p\n", "        xBar0 += dxBar\n    setattr(objective, 'p', p)\n")), None))
    V.append(Variant("Q4 reports through a small callable class", E, chain(
        sub("def trust_region_minimize(", "class _Reporter:\n    def __init__(self, callback, objective):\n        self.callback = callback\n        self.objective = objective\n\n    def __call__(self, point):\n        if self.callback:\n            self.callback(point, self.objective)\n\n\ndef trust_region_minimize("),
        sub_in_func(T, "    trSize = settings.tr_size\n    triedNewPrecond = False\n", "    trSize = settings.tr_size\n    triedNewPrecond = False\n    report = _Reporter(callback, objective)\n"),
        sub_in_func(T, "        if callback: callback(x, objective)\n        return x, True", "        report(x)\n        return x, True"),
        sub_in_func(T, "                if callback: callback(y, objective)\n                return y, True", "                report(y)\n                return y, True"),
        sub_in_func(T, "                happyAboutTrSize = True\n\n                if callback: callback(x, objective)\n", "                happyAboutTrSize = True\n\n                report(x)\n"),
        sub_in_func(T, "                    if callback: callback(x, objective)\n                    return x, False", "                    report(x)\n                    return x, False"),
        sub_in_func(T, "        if callback: callback(x, objective)\n    return x, False", "        report(x)\n    return x, False")), None))
    V.append(Variant("Q5 ratio through np.divide / np.where", E, chain(
        sub_in_func(T, "            rho = realImprove / modelImprove\n\n            if modelObjective > 0:\n                print('Found a positive model objective increase.  Debug if you see this.')\n                rho = realImprove / -modelImprove\n                #exit(1)\n",
                    "            rho = np.where(modelObjective > 0, np.divide(realImprove, -modelImprove), np.divide(realImprove, modelImprove))\n")), None))
    V.append(Variant("H1 single exit with flags", E, replace_func(T, SINGLE_EXIT), None))
    V.append(Variant("H2 inner loop in a helper", E, replace_func(T, INNER_HELPER), None))
    V.append(Variant("deep alpha-rename trust_region_minimize", E, alpha_rename(T, suffix="_dr", deep=True), None))
    V.append(Variant("deep alpha-rename nonlinear_equation_solve", E, alpha_rename("nonlinear_equation_solve", suffix="_dr", deep=True), None))
    # ---------- sibling implementations of the objective interface (classes derived from Objective): what they evaluate must follow the current parameters
    R5 = "D1/T5-objective-uses-current-parameters"
    SO = "ScaledObjective.__init__"
    CO = "optimism/ConstrainedObjective.py"
    WRAP = "        def scaled_objective(xBar, p):\n            x = invScaling * xBar\n            return objective_func(x, p)\n"
    V.append(Variant("SO1 scaled wrapper: parameter renamed, body binds the constructor's p (seeded m6)", O,
                     sub_in_func(SO, "def scaled_objective(xBar, p):", "def scaled_objective(xBar, params):"), R5))
    V.append(Variant("SO2 scaled wrapper as a lambda that ignores its parameter argument", O,
                     sub_in_func(SO, "        super().__init__(scaled_objective,", "        super().__init__(lambda xBar, q: objective_func(invScaling * xBar, p),"), R5))
    V.append(Variant("SO3 scaled wrapper freezes the constructor's p in a default argument", O,
                     sub_in_func(SO, WRAP, "        def scaled_objective(xBar, q, frozen=p):\n            x = invScaling * xBar\n            return objective_func(x, frozen)\n"), R5))
    V.append(Variant("SO4 scaled wrapper through partial, constructor's p bound as the parameters", O, chain(
        sub("class PrecondStrategy:", "def _scaled(objective_func, invScaling, p, xBar, q):\n    return objective_func(invScaling * xBar, p)\n\n\nclass PrecondStrategy:"),
        sub_in_func(SO, "        super().__init__(scaled_objective,", "        super().__init__(partial(_scaled, objective_func, invScaling, p),")), R5))
    V.append(Variant("SO5 Objective.hess_vec closure takes q but differentiates grad_x(., p) of the constructor", O,
                     sub_in_func("Objective.__init__", "self.hess_vec   = jit(lambda x, p, vx:", "self.hess_vec   = jit(lambda x, q, vx:"), R5))
    V.append(Variant("SO6 ScaledObjective overrides gradient with the parameters kept at construction", O, chain(
        sub_in_func(SO, "        self.scaling = scaling\n", "        self.scaling = scaling\n        self.pInitial = p\n"),
        sub("    def get_value(self, x):\n", "    def gradient(self, x):\n        return self.grad_x(x, self.pInitial)\n\n\n    def get_value(self, x):\n")), R5))
    V.append(Variant("SO7 ConstrainedObjective.jit_hess_vec closure takes q but differentiates at the constructor's p", CO,
                     sub_in_func("ConstrainedObjective.__init__", "self.jit_hess_vec = jit(lambda x, p, l, k, vx:", "self.jit_hess_vec = jit(lambda x, q, l, k, vx:"), R5))
    V.append(Variant("SO8 ConstrainedObjective stores the gradient of another function than value evaluates", CO,
                     sub_in_func("ConstrainedObjective.__init__", "        grad_x = grad(f,0)\n", "        grad_x = grad(objective_func,0)\n"), R5))
    V.append(Variant("SO9 scaled wrapper reads self.p inside the jit-compiled function instead of using its parameter argument", O,
                     sub_in_func(SO, WRAP, "        def scaled_objective(xBar, q):\n            x = invScaling * xBar\n            return objective_func(x, self.p)\n"), R5))
    V.append(Variant("SOP7 Objective.value reads the parameters through a helper method at call time", O, chain(
        sub("    def value(self, x):\n        return self.objective(x, self.p)", "    def current_parameters(self):\n        return self.p\n\n    def value(self, x):\n        return self.objective(x, self.current_parameters())"),), None))
    V.append(Variant("SOP1 scaled wrapper with consistently renamed parameters, no temporary", O,
                     sub_in_func(SO, WRAP, "        def scaled_objective(y, q):\n            return objective_func(invScaling * y, q)\n"), None))
    V.append(Variant("SOP2 scaled wrapper as a lambda that passes its parameter argument on", O,
                     sub_in_func(SO, "        super().__init__(scaled_objective,", "        super().__init__(lambda xBar, q: objective_func(invScaling * xBar, q),"), None))
    V.append(Variant("SOP3 scaled wrapper through partial of a module-level function", O, chain(
        sub("class PrecondStrategy:", "def _scaled(objective_func, invScaling, xBar, q):\n    return objective_func(invScaling * xBar, q)\n\n\nclass PrecondStrategy:"),
        sub_in_func(SO, "        super().__init__(scaled_objective,", "        super().__init__(partial(_scaled, objective_func, invScaling),")), None))
    V.append(Variant("SOP4 ScaledObjective overrides value / gradient with explicit calls under self.p", O,
                     sub("    def get_value(self, x):\n", "    def value(self, x):\n        params = self.p\n        return self.objective(x, params)\n\n\n    def gradient(self, x):\n        return self.grad_x(x, self.p)\n\n\n    def get_value(self, x):\n"), None))
    V.append(Variant("SOP5 base constructor called explicitly instead of through super()", O,
                     sub_in_func(SO, "        super().__init__(scaled_objective,", "        Objective.__init__(self, scaled_objective,"), None))
    V.append(Variant("SOP6 ConstrainedObjective.jit_hess_vec with renamed closure parameters", CO,
                     sub_in_func("ConstrainedObjective.__init__", "self.jit_hess_vec = jit(lambda x, p, l, k, vx:\n                                jvp(lambda z: grad_x(z,p,l,k), (x,), (vx,))[1])",
                                 "self.jit_hess_vec = jit(lambda y, q, l, k, vy:\n                                jvp(lambda z: grad_x(z,q,l,k), (y,), (vy,))[1])"), None))
    return V
