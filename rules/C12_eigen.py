"""Exact algebra and index roles of the closed-form symmetric 3x3 eigen solver (C12: O2/T7-eigen-solver-algebra, O2/T9-eigen-roles).

`eigen_sym33_non_unit` is interpreted symbolically on a generic 3x3 input (rules/C12_sym.py: helper functions are followed, conditions
are symbolic, selections become registered atoms) in three situations:

   P1  no hypothesis                      -> which comparisons of a quadratic invariant of the input exist (the guards)
   P2  every guard says "deviator != 0"   -> the general branch: three eigenvalues, three eigenvectors, sorting
   P3  every guard says "deviator == 0"   -> the spherical branch

All roles are read off the *values*, never off names, statement order or spelling:

   S = sym(T), m = tr(S)/3, D = S - m I, J2 = 1/2 D:D, det D   reference quantities built from the parameter
   guard          a comparison lo < hi in which lo, hi or lo - hi is a non-zero quadratic form of the input; normalised to -J2 < B
   trig root      the returned eigenvalue whose value contains the application of cos(acos(.)/3); its argument must be min(|r|, 1)
                  with r = det(D)/2 (3/J2)^(3/2); value - m must be 2 sqrt(J2/3) cos(.) sign(r)
   deflated pair  the two other eigenvalues E0, E1: (E0 - E1)/2 = F q with q a square root and F a factor of finite range (sign / +-1 select);
                  with A_k the q-free parts, two computed quantities u, v with radicand(q) = ((u-v)/2)^2 + (positive monomial):
                  F^2 = 1 for every value of the factor (or the radicand vanishes where that value is taken), A_0 + A_1 - u - v depends on
                  the input only, and A_k - (u+v)/2 = m;
   spherical      P3 returns (m, m, m) and three constant orthonormal vectors;
   pairing        a vector "belongs" to the roots r for which a quantity w reachable from its components satisfies: w involves
                  root-specific atoms and w + r does not (the vector is built from a matrix shifted by that root); the free vector belongs to
                  the trig root only, one vector to one deflated root, and the third is the cross product of the other two;
   sorting        the returned pair is (gather(E, argsort(E)), gather(M, argsort(E), axis = the axis that numbers the vectors = 1)).
"""
from __future__ import annotations

import itertools
from fractions import Fraction

from optilint.expr import Rat, Poly, simplify, poly_div_exact
from optilint.tensoreval import Dual, Arr, EvalError, Raised, _A, rat_const
from .C12_sym import SymInterp, Perm, Gather, proportional, subst
from .eigenalg import reference, _input_atoms, _as_poly, quadratic_form_sign, _positive_witness, _restrict_zero

TM = "optimism.TensorMath"
TRIG = f"{TM}:cos_of_acos_divided_by_3"
SAMPLE = (2, 1, -1, 1, -3, 2, -1, 2, 5)


_TRIG_CACHE = {}


def trig_function(ctx, qual):
    """scope of the approximant of cos(acos(x)/3) used by the solver `qual`: by its public name, else by its role -- the one repository function
    that the solver calls with a single scalar and whose interpreted value is a rational function c(x) of that scalar alone with
    c(0) = sqrt(3)/2 and c(1) = 1 (to 1e-6).  None when there is no such function."""
    sc = ctx.repo.find(TRIG)
    if sc is not None:
        return sc
    key = (id(ctx.repo), qual)
    if key in _TRIG_CACHE and _TRIG_CACHE[key][0] is ctx.repo:
        return _TRIG_CACHE[key][1]
    _TRIG_CACHE.clear()
    found = []
    nu = ctx.repo.find(qual)
    if nu is not None and len(nu.params()) == 1:
        cands = {}

        def hook(it, f, a, k):
            if len(a) + len(k) == 1 and all(isinstance(v, Dual) for v in list(a) + list(k.values())) and f.scope.kind == "function":
                cands.setdefault(f.scope.qualname, f.scope)
        I = SymInterp(ctx.repo)
        I.call_hook = hook
        try:
            I.run(nu, [Arr([Dual(_A.atom(a)) for a in _input_atoms(nu.params()[0])], (3, 3))])
        except (EvalError, Raised, KeyError, IndexError, TypeError, AttributeError, ZeroDivisionError, RecursionError, ValueError):
            pass
        for q, c in cands.items():
            try:
                J = SymInterp(ctx.repo)
                J.tolerant = False
                v = J.num(J.run(c, [Dual(_A.atom("x"))]))
                if not (isinstance(v, Dual) and v.a.atoms() == {"x"} and not v.a.d.is_const()):
                    continue
                at = lambda t: Fraction(v.a.n.eval({"x": Fraction(t)})) / Fraction(v.a.d.eval({"x": Fraction(t)}))
                if abs(float(at(1)) - 1.0) < 1e-6 and abs(float(at(0)) - 0.75 ** 0.5) < 1e-6:
                    found.append(c)
            except (EvalError, Raised, KeyError, IndexError, TypeError, AttributeError, ZeroDivisionError, RecursionError, ValueError):
                continue
    _TRIG_CACHE[key] = (ctx.repo, found[0] if len(found) == 1 else None)
    return _TRIG_CACHE[key][1]


class Guard:
    def __init__(self, cond, lo, hi):
        self.cond, self.lo, self.hi = cond, lo, hi
        self.node, self.names = None, (None, None)
        self.rhs = None          # B in the normal form  -J2 < B  (None: not normalisable)
        self.general = True      # truth value of the condition when the deviator is not negligible
        self.shown = ""


class Solver:
    """symbolic model of eigen_sym33_non_unit (built once per run, used by the algebra rule and by the role rule)"""

    def __init__(self, ctx, qual):
        self.ctx = ctx
        self.nu = ctx.need(qual)
        ps = self.nu.params()
        if len(ps) != 1:
            raise EvalError("the solver takes one tensor")
        self.t = ps[0]
        self.inputs = _input_atoms(self.t)
        self.T = Arr([Dual(_A.atom(a)) for a in self.inputs], (3, 3))
        _, self.S, self.m, self.D, self.J2, self.det = reference(_A, self.t)
        self.m, self.J2, self.det = (simplify(_A.norm(x)) for x in (self.m, self.J2, self.det))
        self.error = None
        self.trig = trig_function(ctx, qual)
        self.guards = []
        self.P2 = self.P3 = None
        try:
            self.I1, self.out1 = self.interpret({})
            self._find_guards()
            if len(self.guards) >= 2 and all(g.rhs is not None for g in self.guards):
                self.P2 = self.interpret({g.cond.key: g.general for g in self.guards})
                self.P3 = self.interpret({g.cond.key: (not g.general) for g in self.guards})
        except (EvalError, Raised, KeyError, IndexError, TypeError, AttributeError, ZeroDivisionError, RecursionError) as ex:
            self.error = f"{type(ex).__name__}: {ex}"

    def interpret(self, hyp):
        I = SymInterp(self.ctx.repo, inputs=self.inputs, abstract=True)
        if self.trig is not None:
            I.opaque_function(self.trig.qualname, "cos_acos_third")
        I.hyp.update(hyp)
        out = I.run(self.nu, [self.T])
        return I, out

    # ---- guards
    def _find_guards(self):
        I = self.I1
        seen = set()
        for (c, l, op, r, node) in I.cmp_log:
            atom = c.args[0] if c.kind == "not" else c
            if atom.kind != "lt" or atom.key in seen:
                continue
            if not (I.pure(l) and I.pure(r)):       # values made of input atoms only are never abstracted
                continue
            lo, hi = (l, r) if op in ("Lt", "LtE") else (r, l)
            d = simplify(_A.norm(lo - hi))
            if not any(quadratic_form_sign(x, self.inputs) not in (None, "zero") for x in (lo, hi, d)):
                continue
            seen.add(atom.key)
            g = Guard(atom, lo, hi)
            g.node = node
            g.names = tuple(I.bound_names.get(repr(x)) for x in (lo, hi))
            # the logged condition is `atom` for strict and `not atom'` for non-strict comparisons; hypotheses are stated on the atom:
            # atom == (lo < hi) for Lt/Gt, atom == (hi < lo) for LtE/GtE
            strict = op in ("Lt", "Gt")
            self._normalise(g, strict)
            self.guards.append(g)

    def _normalise(self, g, strict):
        """bring lo < hi (lo <= hi) to the form -J2 < B; g.general = truth of the *atom* when J2 is large"""
        J2 = _as_poly(self.J2)
        plo, phi = _as_poly(g.lo), _as_poly(g.hi)
        mu_lo = proportional(plo, J2) if plo is not None else None
        mu_hi = proportional(phi, J2) if phi is not None else None
        one = lambda c: Rat(Poly.const(Fraction(c)))
        test_general = None          # truth of the *test* lo < hi for a large deviator
        if mu_lo is not None and mu_lo < 0:
            g.rhs, test_general = simplify(g.hi * one(1 / -mu_lo)), True
        elif mu_hi is not None and mu_hi > 0:
            g.rhs, test_general = simplify(-g.lo * one(1 / mu_hi)), True
        elif mu_lo is not None and mu_lo > 0:       # mu J2 < hi  ==  not (-J2 <= -hi/mu)
            g.rhs, test_general = simplify(-g.hi * one(1 / mu_lo)), False
        elif mu_hi is not None and mu_hi < 0:       # lo < -|mu| J2  ==  not (-J2 <= lo/|mu|)
            g.rhs, test_general = simplify(g.lo * one(1 / -mu_hi)), False
        else:
            d = simplify(_A.norm(g.lo - g.hi))
            e0 = {a: Fraction(v) for a, v in zip(self.inputs, (1, 0, 0, 0, -1, 0, 0, 0, 0))}
            e1 = {a: Fraction(v) for a, v in zip(self.inputs, (1, 0, 0, 0, 1, 0, 0, 0, 1))}
            try:
                al, be = _exact(d, e0), _exact(d, e1)
            except (KeyError, ZeroDivisionError, TypeError):
                al = be = None
            if al is not None and al != 0 and _A.equal(d, self.J2 * one(al) + self.m * self.m * one(be)):
                # al J2 + be m^2 < 0
                g.rhs = simplify(self.m * self.m * one(-be / abs(al)) * one(1 if al < 0 else -1))
                test_general = al < 0
        def nm(x, k):
            c = rat_const(x)
            if c is not None:
                return str(float(c)) if c.denominator != 1 else str(c)
            return g.names[k] or (repr(x) if len(repr(x)) < 60 else repr(x)[:57] + "...")
        g.shown = f"{nm(g.lo, 0)} {'<' if strict else '<='} {nm(g.hi, 1)}"
        if test_general is not None:
            g.general = test_general if strict else (not test_general)

    # ---- results of the general pass
    def general(self):
        """(I, E, M, vals, vecs): interpreter, array of the three eigenvalues, matrix of the vectors (before sorting), returned objects"""
        if self.P2 is None:
            return None
        I, out = self.P2
        return (I,) + _unpack(out)

    def spherical(self):
        if self.P3 is None:
            return None
        I, out = self.P3
        return (I,) + _unpack(out)


def _short(r, limit=140):
    t = repr(r)
    return t if len(t) <= limit else t[:limit] + "..."


def _exact(r: Rat, pt):
    n = r.n.eval(pt)
    d = r.d.eval(pt)
    return Fraction(n) / Fraction(d)


def as_pair(out):
    """the two components of a returned pair: a tuple, a list or a two-field NamedTuple / dataclass record; else None"""
    from optilint.tensoreval import Record
    if isinstance(out, Record) and len(out.values) == 2:
        return tuple(out.values)
    if isinstance(out, (tuple, list)) and len(out) == 2 and not (out and isinstance(out[0], str)):
        return tuple(out)
    return None


def pair_maker(ctx, qual):
    """a function (values, vectors) -> the kind of container the repository function `qual` (an eigen solver) returns, so that a stand-in
    for it can be unpacked, indexed or read by field name exactly like the real result (tuple when the container cannot be read)"""
    from optilint.tensoreval import Record
    key = ("maker", id(ctx.repo), qual)
    if key in _TRIG_CACHE and _TRIG_CACHE[key][0] is ctx.repo:
        return _TRIG_CACHE[key][1]
    make = lambda vals, vecs: (vals, vecs)
    sc = ctx.repo.find(qual)
    out = None
    if sc is not None and qual.endswith("non_unit"):
        # the closed-form solver: the (abstracting) interpretation the algebra rules use anyway
        try:
            out = solver(ctx, qual).out1
        except (AttributeError, EvalError):
            out = None
        if isinstance(out, Record) and len(out.values) == 2:
            make = lambda vals, vecs, out=out: Record(out.tname, out.fields, [vals, vecs], cls=out.cls)
        elif isinstance(out, list) and len(out) == 2:
            make = lambda vals, vecs: [vals, vecs]
    elif sc is not None and len(sc.params()) >= 1:
        I = SymInterp(ctx.repo)
        other = [q for q in (f"{TM}:eigen_sym33_non_unit", f"{TM}:eigen_sym33_unit") if q != qual and ctx.repo.find(q) is not None]
        for q in other:
            inner = pair_maker(ctx, q) if q.endswith("non_unit") else (lambda a, b: (a, b))
            I.special[q] = lambda it, a, k, inner=inner: inner(Arr([Dual(_A.atom(f"@s{i}")) for i in range(3)], (3,)),
                                                               Arr([Dual(_A.atom(f"@w{i}{j}")) for i in range(3) for j in range(3)], (3, 3)))
        try:
            out = I.run(sc, [Arr([Dual(_A.atom(f"@t{min(i, j)}{max(i, j)}")) for i in range(3) for j in range(3)], (3, 3))])
        except (EvalError, Raised, KeyError, IndexError, TypeError, AttributeError, ZeroDivisionError, RecursionError, ValueError):
            out = None
        if isinstance(out, Record) and len(out.values) == 2:
            make = lambda vals, vecs, out=out: Record(out.tname, out.fields, [vals, vecs], cls=out.cls)
        elif isinstance(out, list) and len(out) == 2:
            make = lambda vals, vecs: [vals, vecs]
    _TRIG_CACHE[key] = (ctx.repo, make)
    return make


def _unpack(out):
    if as_pair(out) is None:
        raise EvalError("the solver does not return a pair")
    vals, vecs = as_pair(out)
    E = vals.arr if isinstance(vals, Gather) else vals
    M = vecs.arr if isinstance(vecs, Gather) else vecs
    if not (isinstance(E, Arr) and E.shape == (3,) and isinstance(M, Arr) and M.shape == (3, 3)):
        raise EvalError("the solver does not return (3 values, 3x3 vectors)")
    return E, M, vals, vecs


_CACHE = {}


def solver(ctx, qual) -> Solver:
    key = (id(ctx.repo), qual)
    if key not in _CACHE or _CACHE[key][0] is not ctx.repo:          # the tree object is kept with the entry: its id cannot be reused
        _CACHE.clear()
        _CACHE[key] = (ctx.repo, Solver(ctx, qual))
    ctx.touch(_CACHE[key][1].nu)
    return _CACHE[key][1]


# ------------------------------------------------------------------------------------------------ O2/T7: algebra

def run(ctx, rule, qual):
    sv = solver(ctx, qual)
    nu = sv.nu
    if sv.error:
        ctx.undecided(rule, nu, None, construct="interpretation", detail=f"the solver cannot be interpreted symbolically: {sv.error}")
        return
    if len(sv.guards) < 2:
        ctx.undecided(rule, nu, None, construct="guards", detail=f"{len(sv.guards)} comparisons of a quadratic invariant found (2 expected: trigonometric-branch guard and spherical guard)")
        return
    inputs = sv.inputs
    for k, g in enumerate(sv.guards):
        ctx.decide(rule, g.rhs is not None, nu, g.node, construct=f"guard:{k}:compares-second-deviatoric-invariant",
                   detail="the test is equivalent to -J2(dev sym T) < threshold",
                   bad_detail=f"`{g.shown}`: the compared quantity is not -1/2 dev:dev of the symmetrised input")
        if g.rhs is None:
            continue
        r = g.rhs
        kind = "zero" if r.n.is_zero() else quadratic_form_sign(r, inputs)
        ok = kind in ("zero", "nsd")
        wit = ""
        if kind in ("psd", "indefinite") or kind is None:
            wit = _positive_witness(_A, r, inputs)
        ctx.decide(rule, ok if kind is not None or wit else None, nu, g.node, construct=f"guard:{k}:threshold-nonpositive-and-degree-2",
                   detail=f"threshold is {'0' if kind == 'zero' else 'a negative semi-definite quadratic form of the input'}",
                   bad_detail=f"`{g.shown}`: the threshold (normalised: -J2 < {_short(r)}) is "
                              f"{'not homogeneous of degree 2 in the input' if kind is None else kind}; {wit}: a tensor with a non-zero deviator "
                              f"(-J2 < 0) can fail the test, or the test depends on the scale/sign of the input")
        if kind == "nsd":
            try:
                k_ = abs(_exact(r, {a_: Fraction(1 if a_.endswith(("0, 0]", "1, 1]", "2, 2]")) else 0) for a_ in inputs}))
            except (KeyError, ZeroDivisionError):
                k_ = None
            if k_ is not None:
                bound = (2.0 * float(k_)) ** 0.5
                ctx.decide(rule, bound <= 1e-12, nu, g.node, construct=f"guard:{k}:discarded-deviator-below-accuracy",
                           detail=f"a deviator is discarded only below {bound:.2g} of the tensor's size (<= 1e-12)",
                           bad_detail=f"`{g.shown}`: with the threshold {_short(r)} every tensor whose deviator is below {bound:.2g} of its size is returned with three "
                                      f"equal eigenvalues: nearly repeated eigenvalues are not resolved and the decomposition does not reconstruct the tensor to 1e-12")
    if sv.P2 is None:
        return
    try:
        I, E, M, vals, vecs = sv.general()
    except EvalError as ex:
        ctx.undecided(rule, nu, None, construct="general-branch", detail=str(ex))
        return
    if any(not isinstance(x, Dual) for x in E.data):
        ctx.undecided(rule, nu, None, construct="general-branch", detail="an eigenvalue could not be interpreted")
        return
    Ev = [x.a for x in E.data]
    k_trig, cos_atom, R, sgn_ok = _trig(ctx, rule, sv, I, Ev)
    if k_trig is not None:
        _deflated(ctx, rule, sv, I, Ev, k_trig)
    _spherical(ctx, rule, sv)
    from . import C12_pivot
    try:
        C12_pivot.run(ctx, rule, sv)
    except (EvalError, Raised, KeyError, IndexError, TypeError, AttributeError, ZeroDivisionError, RecursionError, ValueError) as ex:
        ctx.undecided(rule, nu, None, construct="pivot-row", detail=f"the row pivoting could not be read: {type(ex).__name__}: {ex}")


def _fn_atoms(I, name):
    return [a for a, (n, _) in I.fn.items() if n == name]


def _single_atom(r: Rat):
    """the atom a if r == a exactly"""
    if r.d.is_const() and r.d.const_value() == 1 and len(r.n.t) == 1:
        (mono, c), = r.n.t.items()
        if c == 1 and len(mono) == 1 and mono[0][1] == 1:
            return mono[0][0]
    return None


def sign_like(I, a):
    """(argument Rat, [(value, constraint)]) of an atom with a finite range that depends on the sign of its argument:
    sign(x) -> x, {1, -1, 0 only where x = 0};  select(d < 0, c1, c2) -> d, {c1, c2}.  None otherwise."""
    if a in I.fn and I.fn[a][0] == "sign":
        x = I.fn[a][1][0].a
        return x, [(Fraction(1), None), (Fraction(-1), None), (Fraction(0), ("zero", x))]
    if a in I.sel:
        c, x, y = I.sel[a]
        cx, cy = rat_const(x), rat_const(y)
        if c.kind == "lt" and cx is not None and cy is not None:
            return c.args[0], [(cx, None), (cy, None)]
    return None


def _trig(ctx, rule, sv, I, Ev):
    """cubic argument and largest root; returns (index of the trigonometric root, cos atom, r, ok)"""
    nu = sv.nu
    cos_atoms = _fn_atoms(I, "cos_acos_third")
    if len(cos_atoms) != 1:
        ctx.undecided(rule, nu, None, construct="cubic:trigonometric-root-call", detail=f"{len(cos_atoms)} applications of cos_of_acos_divided_by_3 found in the general branch")
        return None, None, None, False
    ca = cos_atoms[0]
    arg = I.fn[ca][1][0]
    R = None
    shown = "?"
    state = None           # True: min(|r|, 1); False: positively something else; None: not recognised
    if isinstance(arg, Dual):
        shown = _show(I, arg.a)
        peeled = _peel_clip(I, arg.a)
        if peeled is not None:
            R, has_abs, clipped = peeled
            explicit = all(a in I.inputs or a in _A.rules for a in I.reach([R])[0] if a not in I.let)
            if clipped is not True and clipped is not False:
                state, R = False, None             # min(., c) with a constant c != 1: acos is applied outside / inside its domain
            elif has_abs and clipped:
                state = True
            elif explicit:
                state = False      # an explicit formula of the input without absolute value and/or without the clip to 1
            else:
                R = None
    ctx.decide(rule, state, nu, None, construct="cubic:argument-is-min(|r|,1)", detail="cos(acos(min(|r|,1))/3)",
               bad_detail=f"the trigonometric root is applied to `{shown}`, not to min(|r|, 1)")
    if R is None:
        return None, ca, None, False
    try:
        Rf = I.expand(R)
    except EvalError as ex:
        ctx.undecided(rule, nu, None, construct="cubic:r=det(D)/2*(3/J2)^(3/2)", detail=str(ex))
        return None, ca, None, False
    three = Rat(Poly.const(Fraction(3)))
    quarter = Rat(Poly.const(Fraction(1, 4)))
    Tq = three / sv.J2
    detp = _as_poly(sv.det)
    q = poly_div_exact(Rf.n, detp) if detp is not None else None
    # the comparison is exact algebra: it needs r as an explicit formula of the input (entries and square roots of such formulas)
    understood = all(a in I.inputs or a in _A.rules for a in I.reach([Rf])[0])
    if not understood:
        ok_sq = None
    elif q is not None:
        Rq = Rat(q, Rf.d)
        ok_sq = _A.equal(_A.norm(Rq * Rq), _A.norm(quarter * Tq * Tq * Tq))
    elif len(Rf.n.t) * len(Rf.n.t) <= 250000:
        ok_sq = _A.equal(_A.norm(Rf * Rf), _A.norm(sv.det * sv.det * quarter * Tq * Tq * Tq))
    else:
        ok_sq = None
    pt = {a: Fraction(v) for a, v in zip(sv.inputs, SAMPLE)}
    # ---- the trigonometric root among the returned eigenvalues
    idx, Ex = [], []
    for k, e in enumerate(Ev):
        try:
            ex = I.expand(e)
        except EvalError:
            ex = e
        Ex.append(ex)
        if ca in ex.atoms():
            idx.append(k)
    kt = idx[0] if len(idx) == 1 else None
    sigma = None            # the sign-like factor of the trigonometric root
    lhs = Dk = None
    mono_ok = False
    if kt is not None:
        Dk = simplify(_A.norm(Ex[kt] - sv.m))
        lhs = simplify(_A.norm(simplify(_A.norm(Dk * Dk)) * Tq))
        lp = _as_poly(lhs)
        if lp is not None and len(lp.t) == 1:
            (mono, c), = lp.t.items()
            d = dict(mono)
            others = [a for a in d if a != ca]
            if d.get(ca) == 2 and len(others) == 1 and d[others[0]] == 2 and sign_like(I, others[0]) is not None:
                sigma = others[0]
                mono_ok = (c == 4)
    # ---- orientation: the factor sigma must have the sign of det(D) (= sign of r).  Proved when its argument is c*r with a constant c
    #      and the sign agrees at a sample point; refuted by a sample point where the signs disagree; open otherwise.
    sgn_arg_ok = None
    ok_sign = None
    if sigma is not None and ok_sq:
        x, _rng = sign_like(I, sigma)
        try:
            xf = I.expand(x)
            ratio = None
            if not xf.n.is_zero() and not Rf.n.is_zero():
                ratio = rat_const(simplify(_A.norm(xf / Rf)))
            agree = []
            for smp in (SAMPLE, (1, 2, 0, 2, -2, 1, 0, 1, 3), (-3, 1, 2, 1, 4, -1, 2, -1, 0)):
                ptk = {a: Fraction(v) for a, v in zip(sv.inputs, smp)}
                want = _A.eval(_A.norm(sv.det * Rat(Poly.const(Fraction(1, 2))) * Tq), ptk) * (_A.eval(Tq, ptk) ** 0.5)
                xs = I.numeric(xf, ptk)
                if sigma in I.sel:
                    _c, x1, y1 = I.sel[sigma]
                    sval = float(rat_const(x1) if xs < 0 else rat_const(y1))
                else:
                    sval = float((xs > 0) - (xs < 0))
                if want != 0 and want == want and sval == sval:
                    agree.append(sval * want > 0)
            if agree and not all(agree):
                ok_sign = False
            elif agree and ratio is not None:
                ok_sign = True
            sgn_arg_ok = True if (ratio is not None and ok_sign) else (False if ok_sign is False else None)
        except (KeyError, ZeroDivisionError, EvalError, ValueError, TypeError):
            ok_sign = sgn_arg_ok = None
    verdict, why = None, ""
    if ok_sq is False:
        verdict, why = False, "square differs"
    elif ok_sq and ok_sign is False:
        verdict, why = False, "opposite sign"
    elif ok_sq:
        verdict = True          # where no sign factor is applied to it the sign of r is not observable: the largest-root obligation reports that
    ctx.decide(rule, verdict, nu, _node_of(I, R), construct="cubic:r=det(D)/2*(3/J2)^(3/2)", detail="r^2 == det(D)^2/4 (3/J2)^3 exactly; sign fixed at sample points",
               bad_detail=f"the cubic argument `{_show(I, R)}` is not cos(3 phi) = det(D)/2 (3/J2)^(3/2) of the deviator ({why})")
    if kt is None:
        ctx.undecided(rule, nu, None, construct="largest-root", detail=f"{len(idx)} returned eigenvalues contain the trigonometric root")
        return None, ca, Rf, False
    pos = None
    if mono_ok:
        try:
            pos = I.numeric(Dk, pt, {ca: 0.9, sigma: 1.0}) > 0
        except (KeyError, ZeroDivisionError):
            pos = None
    # positively wrong: (lambda - m)^2 3/J2 is a constant multiple of cos^2 other than 4 / carries no factor that depends on the sign of r
    # (the root of largest magnitude changes sign with r) / the factor has the opposite sign / the root is negative for r > 0;
    # a factor whose square is not recognised as 1 is an idiom this rule does not read
    no_sign = bare = False
    lp_ = _as_poly(lhs) if lhs is not None else None
    if lp_ is not None and len(lp_.t) == 1:
        (mono_, c_), = lp_.t.items()
        if dict(mono_) == {ca: 2}:
            bare, no_sign = True, (c_ == 4)
    if bare or (sigma is not None and not mono_ok) or sgn_arg_ok is False or pos is False:
        ok = False
    elif mono_ok and sgn_arg_ok and pos:
        ok = True
    else:
        ok = None
    ctx.decide(rule, ok, nu, _node_of(I, Ev[kt]), construct="largest-root:2*sqrt(J2/3)*cos*sign(r)",
               detail="(lambda - m)^2 * 3/J2 == 4 cos^2 sign(r)^2 with the sign taken of the cubic argument",
               bad_detail=f"eigenvalue {kt}: (lambda - m)^2*3/J2 lowers to {_show(I, lhs)}; expected 4*cos(.)^2*sign(r)^2 with the sign of the cubic argument and a positive factor")
    # shift of the trigonometric root: its input-only part is the mean
    pure_part = simplify(_A.subst(Ex[kt], ca, Rat(Poly())))
    ctx.decide(rule, _A.equal(pure_part, sv.m), nu, None, construct=f"shift:value-{kt}=deviatoric-root+mean", detail="returned eigenvalue == root of the deviator + tr/3",
               bad_detail=f"eigenvalue {kt}: besides its deviatoric root it contains {pure_part!r}, not the mean of the diagonal exactly once")
    return kt, ca, Rf, True


def _peel_clip(I, r: Rat):
    """min(|x|, 1) -> (x, True, True); |x| -> (x, True, False); min(x, 1) -> (x, False, True); x -> (x, False, False)"""
    has_abs = clipped = False
    for _ in range(4):
        a = _single_atom(r)
        if a in I.fn and I.fn[a][0] == "min":
            xs = I.fn[a][1]
            consts = [x for x in xs if rat_const(x.a) is not None]
            others = [x for x in xs if rat_const(x.a) is None]
            if len(consts) == 1 and rat_const(consts[0].a) == 1 and len(others) == 1 and not clipped:
                clipped, r = True, others[0].a
                continue
            if len(consts) == 1 and len(others) == 1 and not clipped:
                return others[0].a, has_abs, rat_const(consts[0].a)          # clipped to another constant than 1
            return None
        if a in I.fn and I.fn[a][0] == "abs" and not has_abs:
            has_abs, r = True, I.fn[a][1][0].a
            continue
        break
    return r, has_abs, clipped


def _node_of(I, r):
    """statement that bound the value r to a local (for the location of a verdict), or None"""
    if isinstance(r, Dual):
        r = r.a
    if not isinstance(r, Rat):
        return None
    n = I.bound_nodes.get(repr(r))
    if n is None:
        a = _single_atom(r)
        if a is not None:
            n = I.atom_nodes.get(a)
    return n


def _show(I, r: Rat, limit=160):
    s = repr(r)
    for a in sorted(r.atoms(), key=len, reverse=True):
        k = repr(_A.atom(a))
        nm = I.bound_names.get(k)
        if nm and a in I.let:
            s = s.replace(a, f"<{nm}>")
    return s if len(s) <= limit else s[:limit] + "..."


def _expose(I, r: Rat, special):
    """expand exactly those let atoms whose definition (transitively) contains one of the `special` atoms"""
    memo = {}

    def has(a, depth=0):
        if a in memo:
            return memo[a]
        memo[a] = False
        if a in special:
            memo[a] = True
        elif a in I.let and depth < 20:
            memo[a] = any(has(b, depth + 1) for b in I.let[a].atoms())
        return memo[a]
    for _ in range(12):
        todo = [a for a in r.atoms() if a in I.let and has(a)]
        if not todo:
            break
        for a in todo:
            r = subst(r, a, I.let[a])
    return simplify(_A.norm(r))


def _poly_in(r: Rat, atom):
    """coefficients {exponent: Rat} of r as a polynomial in `atom` (denominator free of the atom), else None"""
    if atom in r.d.atoms():
        return None
    out = {}
    for m, c in r.n.t.items():
        d = dict(m)
        e = d.pop(atom, 0)
        mm = tuple(sorted(d.items()))
        out.setdefault(e, Poly())
        out[e] = out[e] + Poly({mm: c})
    return {e: simplify(Rat(p, r.d)) for e, p in out.items()}


def _full(I, r: Rat) -> Rat:
    try:
        return I.expand(r)
    except EvalError:
        return r


def _positive_monomial(r: Rat):
    p = _as_poly(r)
    return p is not None and len(p.t) == 1 and next(iter(p.t.values())) > 0 and not p.is_const()


def _native(I, r: Rat) -> Rat:
    """a named quantity at the level at which it was computed: the definition of a let atom, else itself"""
    a = _single_atom(r)
    return I.let[a] if a in I.let else r


def _block_diagonal(I, X: Rat):
    """(ok, u, v, w2): computed quantities u, v with X - ((u-v)/2)^2 = w2; ok iff w2 is a positive monomial.
    Searched among the values bound to locals: first a half-difference B with X - B^2 a positive monomial and then u - v = 2B
    at the level where B was computed; else directly u, v among the atoms of X.  A pair whose w2 is not a positive monomial is
    returned (ok False) only when B could be identified by the weaker test X - B^2 = +-monomial.  None: nothing found."""
    quarter = Rat(Poly.const(Fraction(1, 4)))
    two = Rat(Poly.const(Fraction(2)))
    xatoms = X.atoms()
    vals = list(I.values.values())
    cands = [v for v in vals if v.atoms() and v.atoms() <= xatoms and v.d.is_const()]
    # direct: u, v at the level of X
    for u, v in itertools.combinations(cands, 2):
        w2 = simplify(_A.norm(X - (u - v) * (u - v) * quarter))
        if _positive_monomial(w2) and not _A.is_zero(simplify(_A.norm(u - v))):
            return True, u, v, w2
    # through a named half-difference
    weak = None
    for B in cands:
        w2 = simplify(_A.norm(X - B * B))
        p = _as_poly(w2)
        if p is None or len(p.t) != 1 or p.is_const():
            continue
        Bd = _native(I, B)
        pool = [v for v in vals if v.atoms() and v.atoms() <= Bd.atoms() and v.d.is_const()]
        keys = {repr(v): v for v in pool}
        for u in pool:
            for sgn in (1, -1):
                v = simplify(_A.norm(u - Bd * two * Rat(Poly.const(Fraction(sgn)))))
                if repr(v) in keys and not _A.is_zero(v) and repr(v) != repr(u):
                    if _positive_monomial(w2):
                        return True, u, keys[repr(v)], w2
                    weak = weak or (False, u, keys[repr(v)], w2)
    return weak


def _by_trace(I, X, Sx, special):
    """fallback: two computed quantities (free of the radical) whose sum differs from e0 + e1 by a function of the input only are the
    diagonal entries; returned with ok = False because the radicand test failed for every pair -> (False, u, v, w2) or None"""
    quarter = Rat(Poly.const(Fraction(1, 4)))
    cands = []
    for v in I.values.values():
        if not v.atoms() or I.pure(v) or not v.d.is_const():
            continue
        vx = _full(I, v)
        if vx.atoms() & special:
            continue
        if vx.atoms() and vx.atoms() <= Sx.atoms() | set(I.inputs):
            cands.append((v, vx))
    if len(cands) > 80:
        return None
    Xx = _full(I, X)
    for (u, ux), (v, vx) in itertools.combinations(cands, 2):
        rem = simplify(_A.norm(Sx - ux - vx))
        if I.pure(rem) and not _A.is_zero(simplify(_A.norm(ux - vx))):
            w2 = simplify(_A.norm(Xx - (ux - vx) * (ux - vx) * quarter))
            if not _positive_monomial(w2):
                return False, u, v, w2
    return None


def _deflated(ctx, rule, sv, I, Ev, kt):
    nu = sv.nu
    k0, k1 = [k for k in range(3) if k != kt]
    # the square roots of non-input radicands are the radicals of the deflated block
    radicals = {a for a in _A.rules if not I.pure(Rat(_A.rules[a]))}
    sig_atoms = {a for a in list(I.fn) + list(I.sel) if sign_like(I, a) is not None}
    E0, E1 = _expose(I, Ev[k0], radicals), _expose(I, Ev[k1], radicals)
    qs = sorted((E0.atoms() | E1.atoms()) & radicals)
    if len(qs) != 1:
        ctx.undecided(rule, nu, None, construct="deflated-2x2:shift-statement", detail=f"{len(qs)} square roots found in the two remaining eigenvalues")
        return
    q = qs[0]
    X = Rat(_A.rules[q])
    S = simplify(_A.norm(E0 + E1))
    Dm = simplify(_A.norm(E0 - E1))
    co = _poly_in(Dm, q)
    if co is not None and all(e in (0, 1) for e in co) and q in S.atoms() and _poly_in(S, q) is not None:
        ctx.refuted(rule, nu, _node_of(I, Ev[k1]), construct="deflated-2x2:sum-of-roots=trace",
                    detail=f"the sum of the two deflated eigenvalues contains the radical ({_show(I, S)}): they are not the two roots (xx+yy)/2 -+ sqrt(X) of the reduced block")
        return
    if co is None or any(e not in (0, 1) for e in co) or q in S.atoms():
        ctx.undecided(rule, nu, None, construct="deflated-2x2:roots", detail="the two remaining eigenvalues are not of the form A -+ F*sqrt(X)")
        return
    half = Rat(Poly.const(Fraction(1, 2)))
    F = simplify(co.get(1, Rat(Poly())) * half)
    G = co.get(0, Rat(Poly()))
    A0, A1 = simplify((S + G) * half), simplify((S - G) * half)
    # ---- range of the factor F
    fs = sorted(F.atoms() & sig_atoms)
    rng = None
    if not F.atoms():
        rng = [(None, None)]
    elif len(fs) == 1 and F.atoms() == {fs[0]}:
        rng = sign_like(I, fs[0])[1]
    if rng is None:
        ctx.undecided(rule, nu, None, construct="deflated-2x2:sign-factor-range", detail=f"range of the factor `{_show(I, F)}` of the radical not recognised")
        return
    # ---- block diagonal (u, v): computed quantities with X = ((u-v)/2)^2 + positive monomial
    found = _block_diagonal(I, X)
    Sx = _full(I, S)
    if found is None:
        found = _by_trace(I, X, Sx, radicals | sig_atoms)
    if found is not None and found[0]:
        _, u, v, w2 = found
        ctx.proved(rule, nu, None, construct="deflated-2x2:radicand=((xx-yy)/2)^2+xy^2",
                   detail=f"radicand - ((xx-yy)/2)^2 = {_show(I, w2)} is the squared off-diagonal entry")
    elif found is not None:
        _, u, v, w2 = found
        ctx.refuted(rule, nu, None, construct="deflated-2x2:radicand=((xx-yy)/2)^2+xy^2",
                    detail=f"the radicand {_show(I, X)} minus ((xx-yy)/2)^2 (xx = {_show(I, u)}, yy = {_show(I, v)}) is {_show(I, w2)}, not the squared off-diagonal entry of the reduced block")
    else:
        ctx.undecided(rule, nu, None, construct="deflated-2x2:radicand=((xx-yy)/2)^2+xy^2", detail=f"no two computed quantities u, v with radicand = ((u-v)/2)^2 + w^2 found (radicand {_show(I, X)})")
        return
    ux, vx = _full(I, u), _full(I, v)
    rem = simplify(_A.norm(Sx - ux - vx))
    ctx.decide(rule, I.pure(rem), nu, None, construct="deflated-2x2:sum-of-roots=trace",
               detail="e0 + e1 == xx + yy (+ a shift that depends on the input only)",
               bad_detail=f"the two deflated roots sum to xx + yy + {_show(I, rem)}: not the trace of the reduced block")
    # ---- F^2 == 1 for every value of the factor
    bad = []
    for val, cons in rng:
        Fv = F if val is None else simplify(_A.subst(F, fs[0], Rat(Poly.const(val))))
        res = simplify(_A.norm(X * (Rat(Poly.const(Fraction(1))) - Fv * Fv)))
        if _A.is_zero(res):
            continue
        if cons is not None:
            try:
                res2 = _restrict_zero(_A, res, _expose(I, cons[1], set()))
            except Exception:
                res2 = None
            if res2 is not None and _A.is_zero(res2):
                continue
            bad.append(f"sign factor = {val} (reached when {_show(I, cons[1])} = 0) leaves e0*e1 - det = {_show(I, res2 if res2 is not None else res)}")
        else:
            bad.append(f"factor of the radical = {Fv!r} leaves e0*e1 - det = {_show(I, res)}")
    ctx.decide(rule, not bad, nu, None, construct="deflated-2x2:product-of-roots=det-for-every-sign-value",
               detail=f"e0*e1 == xx*yy - xy^2 for sign factor in {[str(v) for v, _ in rng]}",
               bad_detail="; ".join(bad) + " -- the roots of the reduced 2x2 block are wrong there (both collapse onto the mean of the diagonal)")
    # ---- shift
    mid = simplify((ux + vx) * half)
    for k, Ak in ((k0, A0), (k1, A1)):
        sh = simplify(_A.norm(_full(I, Ak) - mid))
        ctx.decide(rule, _A.equal(sh, sv.m), nu, None, construct=f"shift:value-{k}=deviatoric-root+mean", detail="returned eigenvalue == root of the deviator + tr/3",
                   bad_detail=f"eigenvalue {k}: besides its deviatoric root it contains {_show(I, sh)}, not the mean of the diagonal exactly once")


def _spherical(ctx, rule, sv):
    nu = sv.nu
    try:
        I, E, M, vals, vecs = sv.spherical()
    except (EvalError, TypeError) as ex:
        ctx.undecided(rule, nu, None, construct="shift:spherical-branch", detail=f"spherical branch: {ex}")
        return
    for k, e in enumerate(E.data):
        ok = None
        if isinstance(e, Dual):
            try:
                ok = _A.equal(I.expand(e.a), sv.m)
            except EvalError:
                ok = None
        ctx.decide(rule, ok, nu, None, construct=f"shift:value-{k}:spherical-branch=mean", detail="eigenvalue of a spherical tensor == tr/3",
                   bad_detail=f"in the spherical branch eigenvalue {k} is `{_show(I, e.a) if isinstance(e, Dual) else e!r}`, not the mean of the diagonal")
    cs = [rat_const(x.a) if isinstance(x, Dual) else None for x in M.data]
    if any(c is None for c in cs):
        ctx.undecided(rule, nu, None, construct="shift:spherical-branch-vectors-orthonormal", detail="the spherical branch does not return constant vectors")
        return
    cols = [[cs[i * 3 + j] for i in range(3)] for j in range(3)]
    ok = all(sum(a * b for a, b in zip(cols[i], cols[j])) == (1 if i == j else 0) for i in range(3) for j in range(3))
    ctx.decide(rule, ok, nu, None, construct="shift:spherical-branch-vectors-orthonormal",
               detail="three constant orthonormal vectors", bad_detail=f"the spherical branch returns the vectors {[[str(x) for x in c] for c in cols]}, which is not an orthonormal triad")


# ------------------------------------------------------------------------------------------------ O2/T9: roles

def roles(ctx, rule, qual):
    """sorting permutation and pairing of values and vectors"""
    sv = solver(ctx, qual)
    nu = sv.nu
    if sv.error or sv.P2 is None:
        why = sv.error or "the guards of the general branch were not found"
        ctx.undecided(rule, nu, None, construct="sorting-permutation-on-values-and-columns", detail=why)
        ctx.undecided(rule, nu, None, construct="values-and-vectors-assembled-in-the-same-order", detail=why)
        return
    try:
        I, E, M, vals, vecs = sv.general()
    except EvalError as ex:
        ctx.undecided(rule, nu, None, construct="sorting-permutation-on-values-and-columns", detail=str(ex))
        ctx.undecided(rule, nu, None, construct="values-and-vectors-assembled-in-the-same-order", detail=str(ex))
        return
    # ---- pairing
    axis, detail, bad = _pairing(sv, I, E, M)
    ctx.decide(rule, None if axis is None else (axis == 1 and not bad), nu, None, construct="values-and-vectors-assembled-in-the-same-order",
               detail=detail, bad_detail=bad or detail)
    # ---- sorting
    ok, shown = None, "?"
    if isinstance(vals, Gather) and isinstance(vecs, Gather):
        same = vals.perm.same(vecs.perm) and vals.perm.same(Perm(E))
        ok = bool(same and vals.axis == 0 and vecs.axis == 1)
        shown = (f"values permuted by argsort of {'the eigenvalues' if vals.perm.same(Perm(E)) else 'another array'}, vectors permuted along axis {vecs.axis} "
                 f"by {'the same' if vals.perm.same(vecs.perm) else 'a different'} permutation")
    elif isinstance(vals, Arr) and isinstance(vecs, (Arr, Gather)) or isinstance(vals, Gather) and isinstance(vecs, Arr):
        shown = ("eigenvalues are returned in the order of computation (not sorted)" if isinstance(vals, Arr) else "eigenvalues sorted") + \
                ("; eigenvectors not permuted" if isinstance(vecs, Arr) else "; eigenvectors permuted")
        # positively unsorted only when the returned entries are the computed roots themselves; an ordering idiom that is not
        # argsort / sort (min / max networks, selections on comparisons of the roots) is not recognised rather than wrong
        idiom = False
        rootish = {a for a in _A.rules if not I.pure(Rat(_A.rules[a]))} | set(_fn_atoms(I, "cos_acos_third"))
        for x in (list(vals.data) if isinstance(vals, Arr) else []):
            if isinstance(x, Dual):
                for a in x.a.atoms():
                    if a in I.fn and I.fn[a][0] in ("min", "max", "amin", "amax"):
                        idiom = True
                    if a in I.sel:
                        cv = [t.args[0] for t in I.sel[a][0].atoms() if t.kind in ("lt", "eq")]
                        if any(_expose(I, v, rootish).atoms() & rootish for v in cv):
                            idiom = True          # a selection on a comparison that involves the roots
            else:
                idiom = True
        ok = None if idiom else False
    ctx.decide(rule, ok, nu, None, construct="sorting-permutation-on-values-and-columns", detail=shown,
               bad_detail=f"eigen solver: {shown}; the ascending permutation argsort(evals) must index the eigenvalues and the COLUMN axis of the eigenvectors")


def _pairing(sv, I, E, M):
    """-> (axis that numbers the vectors or None, detail, bad detail)"""
    if any(not isinstance(x, Dual) for x in list(E.data) + list(M.data)):
        return None, "an eigenvalue or eigenvector component could not be interpreted", None
    Ev = [x.a for x in E.data]
    cos_atoms = _fn_atoms(I, "cos_acos_third")
    radicals = {a for a in _A.rules if not I.pure(Rat(_A.rules[a]))}
    sig_atoms = {a for a in list(I.fn) + list(I.sel) if sign_like(I, a) is not None}
    if len(cos_atoms) != 1:
        return None, "trigonometric root not found", None
    ca = cos_atoms[0]
    Ex = []
    for e in Ev:
        try:
            Ex.append(I.expand(e))
        except EvalError:
            Ex.append(e)
    trig = [k for k in range(3) if ca in Ex[k].atoms()]
    if len(trig) != 1:
        return None, "trigonometric root not found among the returned eigenvalues", None
    kt = trig[0]
    # deviatoric roots at the level of the named quantities
    Rk = []
    for k in range(3):
        r = simplify(_A.norm(_expose(I, Ev[k], radicals) - sv.m))
        Rk.append(r)
    special = set(radicals) | sig_atoms | (Rk[kt].atoms() - set(I.inputs))
    if not any(radicals & r.atoms() for k, r in enumerate(Rk) if k != kt):
        return None, "radical of the deflated roots not found", None

    def belongs(vec):
        """indices of the roots by which a quantity reachable from the vector's components is shifted"""
        _, vals = I.reach([x.a for x in vec], through_conditions=False)
        seen, out = set(), set()
        for w in vals:
            kx = repr(w)
            if kx in seen:
                continue
            seen.add(kx)
            w = _expose(I, w, radicals)
            if not (w.atoms() & special):
                continue
            for k in range(3):
                s = simplify(_A.norm(w + Rk[k]))
                if not (s.atoms() & special):
                    out.add(k)
        return out

    def is_cross(c, a, b):
        """c == +-(a x b) as an identity in the components"""
        try:
            a = [x.a for x in a]
            b = [x.a for x in b]
            want = [a[1] * b[2] - a[2] * b[1], a[2] * b[0] - a[0] * b[2], a[0] * b[1] - a[1] * b[0]]
            got = [_one_level(I, x.a) for x in c]
            for s in (1, -1):
                if all(_A.equal(g, w * Rat(Poly.const(Fraction(s)))) or _A.equal(I.expand(g), I.expand(w * Rat(Poly.const(Fraction(s))))) for g, w in zip(got, want)):
                    return True
        except EvalError:
            pass
        return False

    results = {}
    for axis in (1, 0):
        vs = [[M.data[i * 3 + j] if axis == 1 else M.data[j * 3 + i] for i in range(3)] for j in range(3)]
        sets = [belongs(v) for v in vs]
        free = [j for j in range(3) if sets[j] == {kt}]
        if len(free) != 1:
            results[axis] = None
            continue
        rest = [j for j in range(3) if j != free[0]]
        role = None
        for a, b in (rest, rest[::-1]):
            # a: first (built from the block shifted by one deflated root), b: cross product of the other two
            own = sets[a] - {kt}
            if len(own) == 1 and (is_cross(vs[b], vs[free[0]], vs[a]) or is_cross(vs[b], vs[a], vs[free[0]])):
                role = (a, b, next(iter(own)))
        if role is None:
            results[axis] = None
            continue
        a, b, ka = role
        kb = [k for k in range(3) if k not in (kt, ka)][0]
        results[axis] = {free[0]: kt, a: ka, b: kb}
    if results.get(1) is not None:
        pm = results[1]
        wrong = [j for j in range(3) if pm[j] != j]
        if not wrong:
            return 1, "eigenvalue k is returned at the position of the vector built from the matrix shifted by it (trigonometric root <-> free vector, " \
                      "first deflated root <-> vector of the shifted 2x2 block, second <-> their cross product); vectors are the columns", None
        return 1, "", f"eigenvalues and eigenvector columns are assembled in different orders: column {wrong[0]} is the eigenvector of eigenvalue {pm[wrong[0]]}"
    if results.get(0) is not None:
        return 0, "", "the eigenvectors are stacked as ROWS of the returned matrix (its columns are not eigenvectors)"
    return None, "the roles of the three vectors (free / shifted 2x2 block / cross product) could not be derived", None


def _one_level(I, r: Rat) -> Rat:
    for a in list(r.atoms()):
        if a in I.let:
            r = subst(r, a, I.let[a])
    return simplify(_A.norm(r))
