"""Mesh file readers decided on their results (C13 rules D2/*).

`ReadExodusMesh.read_exodus_mesh` is interpreted (rules/C03_interp.MeshInterp) on *fake* Exodus files: analyser-side objects that answer
`dataset.dimensions[...]`, `dataset.variables[...]`, `record[:]`, `record.elem_type`, ... with the one-based index records and symbolic
coordinates of a small, well-formed file (three blocks of different sizes, named and unnamed sets, with / without an element number map;
a 6-node triangle file).  The mesh that comes out is compared with what the file says: every index record arrives zero-based exactly once,
coordinates and id maps unshifted, blocks as consecutive element ranges in file order, nothing lost; for 6-node triangles the native node
order is derived from the parent element's own vertex / face tables at degree 2.
"""
from __future__ import annotations

from optilint.tensoreval import Dual, Arr, EvalError, Raised, Unknown, Record, PyFunc, _A
from .C03_interp import MeshInterp, fresh_interp, int_arr, ints_of, const_of, rows_of, arr_get
from . import C03_mesh as CM
from .C03_mesh import ERRS, eq

RX = "optimism.ReadExodusMesh"


class FakeDim:
    def __init__(self, n):
        self.n = n

    def optilint_len(self, it):
        return self.n

    def optilint_attr(self, it, a):
        if a == "size":
            return self.n
        raise EvalError(f"attribute {a} of a netCDF dimension")


class FakeVar:
    def __init__(self, data, **attrs):
        self.data, self.attrs = data, attrs

    def optilint_getitem(self, it, key):
        if isinstance(self.data, Arr):
            return arr_get(self.data, key)
        if isinstance(key, slice):
            return [list(r) for r in self.data[key]]
        return list(self.data[it.as_int(key)])

    def optilint_len(self, it):
        return self.data.shape[0] if isinstance(self.data, Arr) else len(self.data)

    def optilint_iter(self, it):
        return rows_of(self.data) if isinstance(self.data, Arr) else [list(r) for r in self.data]

    def optilint_attr(self, it, a):
        if a in self.attrs:
            return self.attrs[a]
        if a in ("set_auto_mask", "set_auto_maskandscale", "set_auto_scale", "set_always_mask"):
            return PyFunc(a, lambda it_, args, kw: None)
        if a == "shape":
            return tuple(self.data.shape) if isinstance(self.data, Arr) else (len(self.data), len(self.data[0]) if self.data else 0)
        if a == "size" and isinstance(self.data, Arr):
            return self.data.size()
        if a == "filled" and isinstance(self.data, Arr):
            return PyFunc(a, lambda it_, args, kw: self.data)
        raise EvalError(f"attribute {a} of a netCDF variable")


class FakeDataset:
    def __init__(self, dims, variables):
        self.dimensions = {k: FakeDim(v) for k, v in dims.items()}
        self.variables = variables

    def optilint_attr(self, it, a):
        if a == "dimensions":
            return self.dimensions
        if a == "variables":
            return self.variables
        if a in ("close", "__enter__", "__exit__", "set_auto_mask"):
            return PyFunc(a, lambda it_, args, kw: None)
        raise EvalError(f"attribute {a} of a netCDF dataset")

    def optilint_getitem(self, it, key):
        if key not in self.variables:
            raise EvalError(f"netCDF variable {key!r} missing")
        return self.variables[key]


def _chars(names, width=8):
    return [[bytes([c]) for c in nm.encode()] + [b""] * (width - len(nm)) for nm in names]


class ExoFile:
    """Contents of a small Exodus file, as the file stores them (one-based)."""
    def __init__(self, elem_type, blocks, block_names, nnodes, node_sets=None, node_set_names=None, side_sets=None, side_set_names=None, elem_map=None):
        self.elem_type, self.blocks, self.block_names, self.nnodes = elem_type, blocks, block_names, nnodes
        self.node_sets, self.node_set_names = node_sets, node_set_names
        self.side_sets, self.side_set_names = side_sets, side_set_names
        self.elem_map = elem_map
        self.x = Arr([Dual(_A.atom(f"cx{i}")) for i in range(nnodes)], (nnodes,))
        self.y = Arr([Dual(_A.atom(f"cy{i}")) for i in range(nnodes)], (nnodes,))

    def dataset(self):
        npe = len(self.blocks[0][0])
        dims = {"num_nodes": self.nnodes, "num_dim": 2, "num_el_blk": len(self.blocks), "num_elem": sum(len(b) for b in self.blocks),
                "len_string": 33, "len_name": 33, "time_step": 0}
        var = {"coordx": FakeVar(self.x), "coordy": FakeVar(self.y), "eb_names": FakeVar(_chars(self.block_names))}
        for i, b in enumerate(self.blocks):
            dims[f"num_el_in_blk{i + 1}"] = len(b)
            dims[f"num_nod_per_el{i + 1}"] = npe
            var[f"connect{i + 1}"] = FakeVar(Arr([Dual(v) for r in b for v in r], (len(b), npe)), elem_type=self.elem_type)
        if self.node_sets is not None:
            dims["num_node_sets"] = len(self.node_sets)
            var["ns_names"] = FakeVar(_chars(self.node_set_names))
            for i, ns in enumerate(self.node_sets):
                dims[f"num_nod_ns{i + 1}"] = len(ns)
                var[f"node_ns{i + 1}"] = FakeVar(int_arr(ns))
        if self.side_sets is not None:
            dims["num_side_sets"] = len(self.side_sets)
            var["ss_names"] = FakeVar(_chars(self.side_set_names))
            for i, ss in enumerate(self.side_sets):
                dims[f"num_side_ss{i + 1}"] = len(ss)
                var[f"elem_ss{i + 1}"] = FakeVar(int_arr([e for e, s in ss]))
                var[f"side_ss{i + 1}"] = FakeVar(int_arr([s for e, s in ss]))
        if self.elem_map is not None:
            var["elem_num_map"] = FakeVar(int_arr(self.elem_map))
        return FakeDataset(dims, var)


TRI3 = ExoFile("TRI3", [[(1, 2, 3), (3, 4, 1)], [(5, 1, 4)], [(5, 4, 6), (6, 4, 7)]], ["left", "", "right"], 7,
               node_sets=[[1, 2, 3], [7]], node_set_names=["fix", ""], side_sets=[[(1, 1), (4, 3)], [(5, 2)]], side_set_names=["", "load"],
               elem_map=[11, 12, 13, 14, 15])
TRI3_PLAIN = ExoFile("tri", [[(1, 2, 3)], [(3, 2, 4), (4, 2, 5)]], ["", "b"], 5)
TRI6 = ExoFile("TRI6", [[(1, 2, 3, 4, 5, 6)], [(2, 7, 3, 8, 9, 5)]], ["one", "two"], 9, node_sets=[[2, 5, 3]], node_set_names=["mid"])


def read(ctx, exo):
    I = fresh_interp(ctx.repo)
    ds = exo.dataset()
    for nm in ("netCDF4.Dataset", "netCDF4._netCDF4.Dataset"):
        I.ext_special[nm] = lambda it, args, kw: ds

    def chartostring(it, args, kw):
        return [b"".join(r).decode("utf-8") for r in args[0]]
    I.ext_special["netCDF4.chartostring"] = chartostring
    r = I.call(I.module_value(ctx.repo.modules[RX], "read_exodus_mesh"), ["file.exo"], {})
    for q in I.visited:
        s_ = ctx.repo.find(q)
        if s_ is not None and s_.module.name == RX:
            ctx.touch(s_)
    if not isinstance(r, Record):
        raise EvalError(f"read_exodus_mesh returns {r!r}")
    return r, I


def _ints(v, what):
    if isinstance(v, Unknown):
        raise EvalError(f"{what} not evaluated: {v.why[:120]}")
    if isinstance(v, (list, tuple)):
        return [int(const_of(x)) for x in v]
    if not isinstance(v, Arr):
        raise EvalError(f"{what} is {v!r}")
    return ints_of(v)


def _shift_msg(got, want_file):
    """describe got relative to the one-based file values"""
    if len(got) == len(want_file) and got:
        ds = {g - f for g, f in zip(got, want_file)}
        if len(ds) == 1:
            return f"shifted by {ds.pop()}"
    return f"{got}"


def _named_entries(d, names, what):
    """entries of dict d in file order: named sets under their name, unnamed ones under some other distinct key"""
    if isinstance(d, Unknown):
        raise EvalError(f"{what} not evaluated: {d.why[:120]}")
    if not isinstance(d, dict):
        raise EvalError(f"{what} is {d!r}")
    if len(d) != len(names):
        return None, f"{len(d)} {what} for {len(names)} in the file ({list(d)})"
    out = []
    free = [k for k in d if k not in names]
    for nm in names:
        if nm:
            if nm not in d:
                return None, f"{what} '{nm}' of the file is missing (found {list(d)})"
            out.append(d[nm])
        else:
            if not free:
                return None, f"an unnamed entry of {what} is missing (found {list(d)})"
            out.append(d[free.pop(0)])
    return out, None


def exodus_rules(ctx):
    sc = ctx.need(f"{RX}:read_exodus_mesh")
    r1 = "D2/T5-one-based-records"
    r2 = "D2/T4-block-ranges-accumulate"
    results = {}
    for tag, exo in (("tri3", TRI3), ("tri3-plain", TRI3_PLAIN), ("tri6", TRI6)):
        try:
            results[tag] = read(ctx, exo)
        except ERRS as ex:
            for rule in (r1, r2) if tag != "tri6" else ("D2/T5-tri6-permutation",):
                ctx.undecided(rule, sc, None, construct=f"read[{tag}]", detail=f"cannot interpret read_exodus_mesh on the sample file: {type(ex).__name__}: {str(ex)[:260]}")

    def check(rule, cons, fn, detail):
        try:
            bad = fn()
        except ERRS as ex:
            ctx.undecided(rule, sc, None, construct=cons, detail=f"{type(ex).__name__}: {str(ex)[:220]}")
            return
        ctx.decide(rule, bad is None, sc, None, construct=cons, detail=detail, bad_detail=f"{bad}; required: {detail}" if bad else None)
    for tag in ("tri3", "tri3-plain"):
        if tag not in results:
            continue
        exo = TRI3 if tag == "tri3" else TRI3_PLAIN
        mesh, I = results[tag]
        file_conns = [v for b in exo.blocks for r in b for v in r]
        nE = sum(len(b) for b in exo.blocks)

        def conns_ok(mesh=mesh, exo=exo, file_conns=file_conns, nE=nE):
            c = mesh.get("conns")
            got = _ints(c, "conns")
            if tuple(c.shape) != (nE, 3):
                return f"connectivity has shape {tuple(c.shape)} for {nE} three-node elements"
            return None if got == [v - 1 for v in file_conns] else f"record `connect*` (one-based node ids {file_conns}) arrives as {_shift_msg(got, file_conns)}"
        check(r1, f"connect*:one-based-to-zero-based[{tag}]", conns_ok, "connectivity = file records - 1, blocks stacked in file order")

        def coords_ok(mesh=mesh, exo=exo):
            c = mesh.get("coords")
            if isinstance(c, Unknown) or not isinstance(c, Arr):
                raise EvalError(f"coords is {c!r}")
            want = [v for i in range(exo.nnodes) for v in (exo.x.data[i], exo.y.data[i])]
            if tuple(c.shape) != (exo.nnodes, 2):
                return f"coords has shape {tuple(c.shape)}"
            bad = [i for i, (g, w) in enumerate(zip(c.data, want)) if not eq(g, w)]
            return None if not bad else f"record `coordx/coordy` is not an index but entry {bad[0]} arrives as {c.data[bad[0]].a!r} instead of {want[bad[0]].a!r}"
        check(r1, f"coordx/coordy:not-an-index[{tag}]", coords_ok, "coords[:, 0] = coordx, coords[:, 1] = coordy, unshifted")

        def blocks_ok(mesh=mesh, exo=exo):
            ents, bad = _named_entries(mesh.get("blocks"), exo.block_names, "blocks")
            if bad:
                return bad
            start = 0
            for i, (e, b) in enumerate(zip(ents, exo.blocks)):
                got = _ints(e, "block")
                want = list(range(start, start + len(b)))
                if got != want:
                    return f"block {i + 1} ({len(b)} elements, preceded by {start}) holds elements {got}, expected {want}: blocks would overlap or skip elements"
                start += len(b)
            return None
        check(r2, f"blocks:consecutive-ranges-in-file-order[{tag}]", blocks_ok, "block i = the next len(block i) element numbers, starting from 0")

        def maps_ok(mesh=mesh, exo=exo, nE=nE):
            bm = mesh.get("block_maps")
            ents, bad = _named_entries(bm, exo.block_names, "block maps")
            if bad:
                return bad
            emap = exo.elem_map if exo.elem_map is not None else list(range(1, nE + 1))
            start = 0
            for i, (e, b) in enumerate(zip(ents, exo.blocks)):
                got = _ints(e, "block map")
                want = emap[start:start + len(b)]
                if got != want:
                    return f"block {i + 1}: element id map {got}, the file's map gives {want} (an id map is not an index: unshifted, consecutive slices)"
                start += len(b)
            return None
        check(r2, f"block_maps:consecutive-slices-of-the-id-map[{tag}]", maps_ok, "block i -> slice of elem_num_map (or 1..nElem) for its elements")
        if exo.node_sets is not None:
            def ns_ok(mesh=mesh, exo=exo):
                ents, bad = _named_entries(mesh.get("nodeSets"), exo.node_set_names, "node sets")
                if bad:
                    return bad
                for i, (e, ns) in enumerate(zip(ents, exo.node_sets)):
                    got = _ints(e, "node set")
                    if got != [v - 1 for v in ns]:
                        return f"record `node_ns{i + 1}` (one-based {ns}) arrives as {_shift_msg(got, ns)}"
                return None
            check(r1, f"node_ns*:one-based-to-zero-based[{tag}]", ns_ok, "node sets = file records - 1, none lost, named sets under their names")

            def ss_ok(col, mesh=mesh, exo=exo):
                ents, bad = _named_entries(mesh.get("sideSets"), exo.side_set_names, "side sets")
                if bad:
                    return bad
                for i, (e, ss) in enumerate(zip(ents, exo.side_sets)):
                    if isinstance(e, Unknown) or not isinstance(e, Arr) or e.ndim != 2 or e.shape[1] != 2:
                        raise EvalError(f"side set is {e!r}")
                    got = ints_of(arr_get(e, (slice(None), col)))
                    want = [p[col] for p in ss]
                    if got != [v - 1 for v in want]:
                        return f"record `{'elem_ss' if col == 0 else 'side_ss'}{i + 1}` (one-based {want}) arrives as {_shift_msg(got, want)}"
                return None
            check(r1, f"elem_ss*:one-based-to-zero-based[{tag}]", lambda: ss_ok(0), "side set column 0 = element record - 1")
            check(r1, f"side_ss*:one-based-to-zero-based[{tag}]", lambda: ss_ok(1), "side set column 1 = local side record - 1")
        else:
            def empty_ok(mesh=mesh):
                for f in ("nodeSets", "sideSets"):
                    v = mesh.get(f)
                    if isinstance(v, Unknown):
                        raise EvalError(f"{f} not evaluated")
                    if v not in ({}, None):
                        return f"a file without sets yields {f} = {v!r}"
                return None
            check(r1, f"no-sets-in-file[{tag}]", empty_ok, "files without node / side sets give empty collections")

        def simplex_ok(mesh=mesh, exo=exo):
            got = _ints(mesh.get("simplexNodesOrdinals"), "simplexNodesOrdinals")
            pe = mesh.get("parentElement")
            if not isinstance(pe, Record) or const_of(pe.get("degree")) != 1:
                return "3-node triangles are not given the degree-1 parent element"
            return None if sorted(got) == list(range(exo.nnodes)) else f"vertex nodes {got} of a linear mesh with {exo.nnodes} nodes"
        check(r2, f"linear-mesh:all-nodes-are-vertices[{tag}]", simplex_ok, "degree-1 parent element; every node is a vertex")
    # ---- 6-node triangles
    rule = "D2/T5-tri6-permutation"
    if "tri6" in results:
        mesh, I = results["tri6"]
        exo = TRI6
        try:
            pe, pe1 = CM.parent_elements(I, 2, False)
            vert = ints_of(CM.table(pe, "vertexNodes"))
            faces = ints_of(CM.table(pe, "faceNodes"))
            faces = [faces[0:3], faces[3:6], faces[6:9]]
            c = mesh.get("conns")
            C = _ints(c, "conns")
            if tuple(c.shape) != (2, 6):
                raise EvalError(f"connectivity has shape {tuple(c.shape)}")
            rows = [C[0:6], C[6:12]]
            file_rows = [list(r) for b in exo.blocks for r in b]
        except ERRS as ex:
            ctx.undecided(rule, sc, None, construct="read[tri6]", detail=f"{type(ex).__name__}: {str(ex)[:240]}")
            return
        ctx.extra_cov["tri6_tables"] = {"vertexNodes": vert, "faceNodes": faces}
        bad = None
        for got, f in zip(rows, file_rows):
            if sorted(got) != sorted(v - 1 for v in f):
                bad = f"element with file nodes {f} (one-based) has native nodes {got}: not the same six nodes, zero-based"
        ctx.decide(rule, bad is None, sc, None, construct="tri6:every-node-kept-zero-based", detail="each native row is a reordering of the file row - 1",
                   bad_detail=bad)
        # Exodus TRI6: columns 0..2 vertices, 3: mid(0,1), 4: mid(1,2), 5: mid(2,0)
        for k in range(3):
            bad = None
            for got, f in zip(rows, file_rows):
                if got[vert[k]] != f[k] - 1:
                    bad = (f"native vertex slot {vert[k]} (vertex {k} of the parent element) holds node {got[vert[k]]}; the file's vertex {k} is node {f[k] - 1} "
                           f"(counter-clockwise vertex order is preserved only then)")
            ctx.decide(rule, bad is None, sc, None, construct=f"vertex-{k}", detail=f"native slot {vert[k]} receives Exodus vertex {k}", bad_detail=bad)
        exo_mid = {(0, 1): 3, (1, 2): 4, (2, 0): 5}
        for fi in range(3):
            a, mid, b = faces[fi]
            if a not in vert or b not in vert:
                ctx.undecided(rule, sc, None, construct=f"mid-edge-of-face-{fi}", detail=f"face table row {faces[fi]} does not start / end at vertices")
                continue
            ea, eb = vert.index(a), vert.index(b)
            col = exo_mid.get((ea, eb))
            bad = None
            for got, f in zip(rows, file_rows):
                if col is None or got[mid] != f[col] - 1:
                    bad = (f"native mid-edge slot {mid} of the face between vertices {ea} and {eb} holds node {got[mid]}; the file's mid-side node of that edge is "
                           f"{f[col] - 1 if col is not None else '?'}")
            ctx.decide(rule, bad is None, sc, None, construct=f"mid-edge-of-face-{fi}", detail=f"native slot {mid} receives the Exodus mid-side node of edge ({ea},{eb})",
                       bad_detail=bad)

        def simplex6():
            got = _ints(mesh.get("simplexNodesOrdinals"), "simplexNodesOrdinals")
            want = sorted({v - 1 for f in file_rows for v in f[:3]})
            pe_m = mesh.get("parentElement")
            if not isinstance(pe_m, Record) or const_of(pe_m.get("degree")) != 2:
                return "6-node triangles are not given the degree-2 parent element"
            return None if sorted(got) == want and len(got) == len(want) else f"vertex nodes {sorted(got)}; the file's vertex columns hold {want}"
        check(rule, "vertices-are-the-exodus-vertex-columns", simplex6, "simplexNodesOrdinals = the nodes in the first three Exodus columns (zero-based), once each")

        def ns6():
            ents, bad = _named_entries(mesh.get("nodeSets"), exo.node_set_names, "node sets")
            if bad:
                return bad
            got = _ints(ents[0], "node set")
            return None if got == [v - 1 for v in exo.node_sets[0]] else f"node set arrives as {_shift_msg(got, exo.node_sets[0])}"
        check(rule, "tri6:node-sets-not-permuted", ns6, "node numbers of sets are global: zero-based, untouched by the column permutation")


def json_rules(ctx):
    """ReadMesh.read_json_mesh on a fake JSON document: nothing lost, nothing shifted (the JSON format is zero-based)."""
    rule = "D2/T5-json-reader"
    RM = "optimism.ReadMesh"
    sc = ctx.repo.find(f"{RM}:read_json_mesh")
    if sc is None:
        return
    ctx.touch(sc)
    nn = 5
    xs = [[Dual(_A.atom(f"jx{i}")), Dual(_A.atom(f"jy{i}"))] for i in range(nn)]
    doc = {"coordinates": xs, "connectivity": [[0, 1, 2], [2, 1, 3], [3, 1, 4]], "nodeSets": {"a": [0, 1], "b": [4]},
           "sideSets": {"s": [[0, 2], [1, 0]], "t": [[1], [2]]}}
    try:
        I = fresh_interp(ctx.repo)
        I.ext_special["json.load"] = lambda it, args, kw: doc
        I.ext_special["json.loads"] = lambda it, args, kw: doc
        from .C03_interp import Opaque

        class _File:
            def optilint_attr(self, it, a):
                if a == "read":
                    return PyFunc("read", lambda it_, args, kw: "<json text>")
                return PyFunc(a, lambda it_, args, kw: None)
        I.ext_special["builtins.open"] = lambda it, args, kw: _File()
        mesh = I.call(I.module_value(ctx.repo.modules[RM], "read_json_mesh"), ["mesh.json"], {})
        if not isinstance(mesh, Record):
            raise EvalError(f"result is {mesh!r}")
        bad = None
        c = mesh.get("coords")
        if isinstance(c, Unknown) or not isinstance(c, Arr):
            raise EvalError(f"coords is {c!r}")
        if tuple(c.shape) != (nn, 2) or not all(eq(g, w) for g, w in zip(c.data, [v for r in xs for v in r])):
            bad = "coordinates differ from the document's"
        if bad is None and _ints(mesh.get("conns"), "conns") != [v for r in doc["connectivity"] for v in r]:
            bad = f"connectivity {_ints(mesh.get('conns'), 'conns')} differs from the document's (zero-based) connectivity"
        ns = mesh.get("nodeSets")
        if bad is None and (not isinstance(ns, dict) or sorted(ns) != ["a", "b"] or any(_ints(ns[k], "node set") != doc["nodeSets"][k] for k in ("a", "b"))):
            bad = "node sets differ from the document's"
        ss = mesh.get("sideSets")
        if bad is None:
            if not isinstance(ss, dict) or sorted(ss) != ["s", "t"]:
                bad = "side sets differ from the document's"
            else:
                for k in ("s", "t"):
                    e = ss[k]
                    want = [v for pr in zip(doc["sideSets"][k][0], doc["sideSets"][k][1]) for v in pr]
                    if not isinstance(e, Arr) or e.ndim != 2 or ints_of(e) != want:
                        bad = f"side set '{k}' is not the (element, side) pairs of the document"
    except ERRS as ex:
        ctx.undecided(rule, sc, None, construct="read_json_mesh", detail=f"cannot interpret: {type(ex).__name__}: {str(ex)[:240]}")
        return
    ctx.decide(rule, bad is None, sc, None, construct="read_json_mesh:nothing-lost-nothing-shifted",
               detail="coordinates, connectivity, node sets and (element, side) pairs of the document arrive unchanged", bad_detail=f"read_json_mesh: {bad}")
