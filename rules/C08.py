"""C08 -- elastic energies: zero energy and zero stress at rest for every model and option (D1);
configuration-frame typing of the finite-deformation kinematics (D2, objectivity).

  D1  For every model factory and every combination of its options (enumerated from the string
      literals the factory compares `properties[...]` with), the energy closure is evaluated by constant
      propagation on the rest-state lattice: displacement gradient eps*e_k e_k^T (dual number, eps^2 = 0,
      k = 0,1,2 and the isotropic direction), virgin internal state from the model's own
      compute_initial_state, material constants as positive symbols.  Obligation: the value part of the
      energy is exactly 0 and every eps part is 0 (diagonal first Piola stress vanishes; off-diagonal
      stress at an isotropic state vanishes by isotropy).  Hardening energies vanish at zero plastic strain.
  D2  see rules/frames.py: every factory is called for every option scenario and the energy / state-update closures it returns are
      interpreted on frame-typed symbolic tensors (spatial / reference / intermediate frames): every product chains, every spectral
      function acts on an endomorphism of one frame, the energy of every finite-deformation scenario depends on the deformation only
      through invariants, and the tensor written to a state slot has the frames of the tensor read from it.
Not decided: isotropy under reference rotations for evolved states as numbers, symmetry of the Kirchhoff stress
as a number, invariance to rounding inside compiled batches.
"""
from __future__ import annotations

import ast

from optilint.core import Incomplete
from optilint.tensoreval import Dual, Arr, EvalError, Raised, _A, rat_is_zero, Record
from .common import src
from . import materials as mt
from . import frames
from . import C08_options as opts

LEVEL = "other"
RULE_TEXT = ("obligations = (model x option scenario x strain direction: energy value 0 and first variation 0 at rest) + "
             "(hardening law: zero energy at zero plastic strain) + (matrix expression in finite-deformation kinematics x frame type)")
EXPLANATION = ("Sparse conditional constant propagation of every material factory on the rest-state lattice (dual rational constants "
               "over positive material symbols) for every option scenario enumerated from the source, plus configuration-frame type "
               "inference for the finite-deformation kinematics. Decides zero energy / zero diagonal stress at rest exactly; "
               "objectivity is decided at the level of frame consistency of tensor expressions, not of floating-point values.")


def run(ctx):
    ctx.guard(d1, ctx)
    ctx.guard(d1_hardening, ctx)
    from . import units
    ctx.guard(units.run, ctx, "D1/T8-dimensional-homogeneity", {m for (m, f, k) in mt.MODELS if k == "solid" and not m.endswith("J2Plastic") and "Visco" not in m}, min_scenarios=3)
    ctx.guard(frames.run_frames, ctx, "D2/T9-frames", which="C08")
    from . import C08_tensorid as tensorid
    ctx.guard(tensorid.run_identities, ctx, "D2/T7-tensor-helper-identities", ["inv", "detpIm1", "det", "deviator", "sym", "norm_of_deviator_squared"])
    ctx.trust("first-order Taylor arithmetic on dual numbers; isotropic tensor functions act on diagonal matrices entrywise")
    ctx.assume("material constants and dt are positive; virgin flow stress > 0; rate-sensitivity and hardening exponents > 0")


def _energy_args(kind, H, state, I):
    dt = Dual(_A.atom("dt"))
    I.positive.add("dt")
    if kind == "solid":
        return [H, state, dt]
    zero2 = Arr([Dual(0), Dual(0)], (2,))
    return [H, Dual(0), zero2, state, dt]


def d1(ctx):
    rule = "D1/SCCP-rest-state"
    n_sc = 0
    for (mname, fac, kind) in mt.MODELS:
        mod = ctx.need_module(mname)
        fsc = ctx.need(f"{mname}:{fac}")
        extra = ["optimism.material.Hardening"] if frames._imports(ctx, mname, "Hardening") else []
        values, optional, presence = opts.option_space(ctx, [mname] + extra)
        for sc in mt.scenarios(values, optional, presence):
            label = ", ".join(f"{k}={v}" for k, v in sorted(sc.items())) or "defaults"
            I = mt.make_interp(ctx.repo)
            props = mt.PropDict(I, sc, set(values) | presence)
            try:
                model = I.call(I.module_value(mod, fac), [props], {})
                state = I.call(model.get("compute_initial_state"), [], {})
                if isinstance(state, Arr):
                    state = state.ravel()
                energy = model.get("compute_energy_density")
            except Raised as ex:
                # the factory rejects this combination (e.g. unknown option): not an advertised scenario
                continue
            except (EvalError, KeyError, AttributeError, IndexError, TypeError, ValueError) as ex:
                ctx.undecided(rule, fsc, None, construct=f"{mname.split('.')[-1]}[{label}]:setup", detail=f"cannot evaluate the factory: {ex}")
                continue
            n_sc += 1
            for dname, H in [("e0", mt.unit_dir(0)), ("e1", mt.unit_dir(1)), ("e2", mt.unit_dir(2)), ("iso", mt.iso_dir())]:
                cons = f"{mname.split('.')[-1]}[{label}]:{dname}"
                try:
                    W = I.num(I.call(energy, _energy_args(kind, H, state, I), {}))
                except (EvalError, Raised, KeyError, AttributeError, IndexError, TypeError, ValueError, ZeroDivisionError) as ex:
                    ctx.undecided(rule, fsc, None, construct=cons, detail=f"rest-state evaluation left the constant lattice: {ex}")
                    continue
                ok0, ok1 = rat_is_zero(W.a), rat_is_zero(W.b)
                ctx.decide(rule, ok0 and ok1, fsc, None, construct=cons,
                           detail="W(0) = 0 and dW/deps = 0",
                           bad_detail=(f"at the undeformed virgin state the energy is W = {W.a!r}" if not ok0 else "") +
                                      ("; " if not ok0 and not ok1 else "") +
                                      (f"the first variation in direction {dname} is {W.b!r} (non-zero stress at rest)" if not ok1 else "") +
                                      f" for options [{label}]")
            ctx.extra_cov.setdefault("functions_interpreted", set()).update(I.visited)
    ctx.extra_cov["functions_interpreted"] = sorted(ctx.extra_cov.get("functions_interpreted", []))
    ctx.extra_cov["option_scenarios"] = n_sc
    if n_sc < 20:
        raise Incomplete(f"{n_sc} model/option scenarios evaluated (at least 20 on the reference tree)")


def d1_hardening(ctx):
    rule = "D1/SCCP-hardening-zero"
    mname = "optimism.material.Hardening"
    mod = ctx.need_module(mname)
    values, optional, presence = opts.option_space(ctx, [mname])
    n = 0
    for sc in mt.scenarios(values, optional, presence):
        label = ", ".join(f"{k}={v}" for k, v in sorted(sc.items()))
        I = mt.make_interp(ctx.repo)
        props = mt.PropDict(I, sc, set(values) | presence)
        fsc = ctx.need(f"{mname}:create_hardening_model")
        try:
            hm = I.call(I.module_value(mod, "create_hardening_model"), [props], {})
            dt = Dual(_A.atom("dt"))
            I.positive.add("dt")
            W = I.num(I.call(hm.values[0], [Dual(0), Dual(0), dt], {}))
            Y = I.num(I.call(hm.values[1], [Dual(0), Dual(0), dt], {}))
        except Raised:
            continue
        except (EvalError, KeyError, AttributeError, IndexError, TypeError, ValueError, ZeroDivisionError) as ex:
            ctx.undecided(rule, fsc, None, construct=f"hardening[{label}]", detail=str(ex))
            continue
        n += 1
        ctx.decide(rule, rat_is_zero(W.a), fsc, None, construct=f"hardening[{label}]:energy(0)=0", detail="hardening energy vanishes at zero plastic strain",
                   bad_detail=f"hardening energy at zero plastic strain is {W.a!r} for [{label}]")
        from optilint.tensoreval import rat_sign
        s = rat_sign(Y.a, I.positive)
        ctx.decide(rule, True if s == 1 else (False if s in (0, -1) else None), fsc, None, construct=f"hardening[{label}]:flow-stress(0)>0",
                   detail=f"virgin flow stress {Y.a!r} > 0", bad_detail=f"virgin flow stress is {Y.a!r} for [{label}]")
    if n < 6:
        raise Incomplete(f"{n} hardening scenarios evaluated (6 expected)")


def variants(repo):
    from optilint.selftest import Variant, sub, sub_in_func, alpha_rename, reformat
    N = "optimism/material/Neohookean.py"
    L = "optimism/material/LinearElastic.py"
    G = "optimism/material/Gent.py"
    J = "optimism/material/J2Plastic.py"
    V = "optimism/material/HyperViscoelastic.py"
    MB = "optimism/material/MultiBranchHyperViscoelastic.py"
    Hd = "optimism/material/Hardening.py"
    P = "optimism/phasefield/PhaseFieldThreshold.py"
    return [
        Variant("forget + I (seth hill)", J, sub("    F = dispGrad + np.identity(3)\n    C = F.T@F\n    strain = (TensorMath.pow_symm", "    C = dispGrad.T@dispGrad\n    strain = (TensorMath.pow_symm"), "D1/SCCP-rest-state"),
        Variant("Gent: log argument normalised by a modulus", G, sub("np.log(1. - (I1_bar - 3.) / props[PROPS_JM])", "np.log(1. - (I1_bar - 3.) / props[PROPS_MU])"), "D1/T8-dimensional-homogeneity"),
        Variant("Neohookean: modulus squared", N, sub_in_func("_adagio_neohookean", "0.5*props[PROPS_MU]*(I1Bar - 3.0)", "0.5*props[PROPS_MU]*props[PROPS_MU]*(I1Bar - 3.0)"), "D1/T8-dimensional-homogeneity"),
        Variant("J**(-1/3)", N, sub_in_func("_adagio_neohookean", "np.power(J, -2.0/3.0)", "np.power(J, -1.0/3.0)"), "D1/SCCP-rest-state"),
        Variant("missing -3", N, sub_in_func("_adagio_neohookean", "(I1Bar - 3.0)", "(I1Bar)"), "D1/SCCP-rest-state"),
        Variant("volumetric term not stationary", G, sub("(0.5*J**2 - 0.5 - np.log(J))", "(0.5*J**2 - 0.5 - 2*np.log(J))"), "D1/SCCP-rest-state"),
        Variant("coupled neo-Hookean log term", N, sub_in_func("_neohookean_3D_energy_density", "C1*(I1m3-2.*np.log(J))", "C1*(I1m3-np.log(J))"), "D1/SCCP-rest-state"),
        Variant("green-lagrange sign", L, sub("0.5*(dispGrad + dispGrad.T + dispGrad.T@dispGrad)", "0.5*(dispGrad + dispGrad.T + dispGrad.T@dispGrad) + 0.5*np.identity(3)"), "D1/SCCP-rest-state"),
        Variant("log strain without trace fix", L, sub_in_func("log_strain", "    traceStrain = np.log1p(Jm1)", "    traceStrain = Jm1 + 1.0"), "D1/SCCP-rest-state"),
        Variant("visco non-equilibrium energy of the full strain", V, sub_in_func("_neq_strain_energy", "TensorMath.norm_of_deviator_squared(elasticStrain)", "TensorMath.norm_of_deviator_squared(elasticStrain + np.diag(np.array([1.0, 0.0, 0.0])))"), "D1/SCCP-rest-state"),
        Variant("multibranch eq energy", MB, sub_in_func("_eq_strain_energy", "Wdev = 0.5 * G * (I1Bar - 3.0)", "Wdev = 0.5 * G * (I1Bar - 2.0)"), "D1/SCCP-rest-state"),
        Variant("phase-field log strain", P, sub_in_func("compute_logarithmic_strain", "    traceE = np.log1p(Jm1)", "    traceE = np.log1p(Jm1) + 1.0"), "D1/SCCP-rest-state"),
        Variant("voce hardening offset", Hd, sub("(np.expm1(-eqps/eps0))", "(np.exp(-eqps/eps0))"), "D1/SCCP-hardening-zero"),
        Variant("power law offset", Hd, sub("A*( (1.0 + x)**((n+1)/n) - 1.0 )", "A*( (1.0 + x)**((n+1)/n) )"), "D1/SCCP-hardening-zero"),
        Variant("left Cauchy-Green in visco update", V, sub("TensorMath.log_sqrt_symm(Fe_trial.T @ Fe_trial)", "TensorMath.log_sqrt_symm(Fe_trial @ Fe_trial.T)"), "D2/T9-frames"),
        Variant("inv cofactor transposed index", "optimism/TensorMath.py", sub("invA10 = A[1, 2]*A[2, 0] - A[1, 0]*A[2, 2]", "invA10 = A[1, 2]*A[2, 0] - A[0, 1]*A[2, 2]"), "D2/T7-tensor-helper-identities"),
        Variant("detpIm1 misses a term", "optimism/TensorMath.py", sub("    return trace(A) + I2(A) + det(A)", "    return trace(A) + det(A)"), "D2/T7-tensor-helper-identities"),
        Variant("plastic update order", J, sub("@FpOld\n", "@FpOld.T\n"), "D2/T9-frames"),
        # ---- round 2: violations of objectivity / isotropy / state typing that only a model-level reading derives
        Variant("Neohookean: tr(H.H) instead of H:H", N, sub_in_func("_neohookean_3D_energy_density", "np.tensordot(dispGrad, dispGrad)", "np.tensordot(dispGrad, dispGrad.T)"), "D2/T9-frames"),
        Variant("J2: elastic distortion from the wrong side", J, sub("Fe = F@TensorMath.inv(Fp)", "Fe = TensorMath.inv(Fp)@F"), "D2/T9-frames"),
        Variant("Gent: first invariant from tr F", G, sub("np.tensordot(F, F)", "np.trace(F)**2"), "D2/T9-frames"),
        Variant("phase field: tension test on one strain component", P, sub("np.where(np.trace(strain) > 0.0, degradation(phase), 1.0)", "np.where(strain[2,2] > 0.0, degradation(phase), 1.0)"), "D2/T9-frames"),
        Variant("visco: elastic distortion from the wrong side", V, sub("Fe_trial = F @ np.linalg.inv(Fv_old)", "Fe_trial = np.linalg.inv(Fv_old) @ F"), "D2/T9-frames"),
        Variant("multi-branch: every branch flows with the strain of branch 0", MB, sub_in_func("_compute_state_new", "      Ee_trial = _compute_elastic_logarithmic_strain(dispGrad, state_temp)", "      Ee_trial = _compute_elastic_logarithmic_strain(dispGrad, _return_state_for_branch(stateOld, 0))"), "D2/T9-frames"),
        Variant("J2: linear strain under large-deformation kinematics", J, sub("    if finiteDeformations:\n        compute_elastic_strain = compute_elastic_logarithmic_strain\n", "    if finiteDeformations:\n        compute_elastic_strain = compute_elastic_linear_strain\n"), "D2/T9-frames"),
        Variant("J2: spatial tensor stored as plastic distortion", J, sub("    FpNew = TensorMath.exp_symm(stateInc[PLASTIC_DISTORTION].reshape((3,3)))@FpOld\n", "    FpNew = (dispGrad + np.eye(3))@TensorMath.inv(FpOld)@TensorMath.exp_symm(stateInc[PLASTIC_DISTORTION].reshape((3,3)))@FpOld\n"), "D2/T9-frames"),
        Variant("Gent: squared log in the volumetric energy", G, sub("(0.5*J**2 - 0.5 - np.log(J))", "(0.5*J**2 - 0.5 - np.log(J)**2)"), "D1/SCCP-rest-state"),
        # ---- round 2: restructurings that leave every derived value unchanged
        Variant("Neohookean: I1 as trace of C", N, sub_in_func("_adagio_neohookean", "np.tensordot(F,F)", "np.trace(F.T@F)"), None),
        Variant("Gent: double contraction by einsum", G, sub("np.tensordot(F, F)", "np.einsum('ij,ij', F, F)"), None),
        Variant("Gent: double contraction by sum of products", G, sub("np.tensordot(F, F)", "np.sum(F*F)"), None),
        Variant("J2: inverse from numpy, C assembled first", J, sub("    Fe = F@TensorMath.inv(Fp)\n    Ce = Fe.T@Fe\n", "    FpInv = np.linalg.inv(Fp)\n    Ce = FpInv.T@(F.T@F)@FpInv\n"), None),
        Variant("J2: yield switch with nested defs and negated test", J, sub("    stateInc = jax.lax.cond(isYielding,\n                            lambda e: update_state(e, state, dt, props, hardening_model),\n                            lambda e: np.zeros(NUM_STATE_VARS),\n                            elasticStrain)\n", "    def plastic_step(strain):\n        return update_state(strain, state, dt, props, hardening_model)\n\n    def elastic_step(strain):\n        return np.zeros_like(state)\n\n    stateInc = jax.lax.cond(~isYielding, elastic_step, plastic_step, elasticStrain)\n"), None),
        Variant("J2: new state packed with .at[].set", J, sub("    return np.hstack((eqpsNew, FpNew.ravel()))\n", "    return np.zeros(NUM_STATE_VARS).at[PLASTIC_DISTORTION].set(FpNew.ravel()).at[EQPS].set(eqpsNew)\n"), None),
        Variant("linear elastic: trace written out", L, sub_in_func("_linear_elastic_energy_density", "    traceStrain = np.trace(strain)", "    traceStrain = strain[0, 0] + strain[1, 1] + strain[2, 2]"), None),
        Variant("phase field: where -> if_then_else", P, sub("np.where(np.trace(strain) > 0.0, degradation(phase), 1.0)", "if_then_else(np.trace(strain) > 0.0, degradation(phase), 1.0)"), None),
        Variant("visco: C by einsum, inverse from TensorMath", V, sub("    Fe_trial = F @ np.linalg.inv(Fv_old)\n    return TensorMath.log_sqrt_symm(Fe_trial.T @ Fe_trial)", "    Fe_trial = F @ TensorMath.inv(Fv_old)\n    return 0.5*TensorMath.log_symm(np.einsum('ki,kj->ij', Fe_trial, Fe_trial))"), None),
        Variant("multi-branch: state as a stack of 3x3 blocks", MB, sub_in_func("_compute_state_new", "      state_temp = _return_state_for_branch(stateOld, n)", "      state_temp = stateOld.reshape((NUM_PRONY_TERMS, 3, 3))[n].ravel()"), None),
        Variant("linear elastic: strain measures dispatched through a dict", L, sub("    if strainMeasure == 'linear':\n        _strain = linear_strain\n    elif strainMeasure == 'green lagrange':\n        _strain = green_lagrange_strain\n    elif strainMeasure == 'logarithmic':\n        _strain = log_strain\n    else:\n        raise ValueError('Unrecognized strain measure')\n", "    measures = {'linear': linear_strain, 'green lagrange': green_lagrange_strain, 'logarithmic': log_strain}\n    if strainMeasure not in measures:\n        raise ValueError('Unrecognized strain measure')\n    _strain = measures[strainMeasure]\n"), None),
        Variant("reformat Neohookean", N, reformat(), None),
        Variant("reformat J2Plastic", J, reformat(), None),
        Variant("equivalent volumetric form", G, sub("(0.5*J**2 - 0.5 - np.log(J))", "(0.5*(J**2 - 1.0) - np.log(J))"), None),
        Variant("alpha-rename log_strain", L, alpha_rename("log_strain"), None),
    ]
