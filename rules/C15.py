"""C15 -- Newmark stepping (formulas and momentum-balance wiring).

  D1  composing predict and correct with UCorrection = U_{n+1} - U_pred gives exactly the Newmark formulas
        U_{n+1} = U + dt V + dt^2 [(1/2 - beta) A + beta A_{n+1}],  V_{n+1} = V + dt [(1 - gamma) A + gamma A_{n+1}]
      as polynomial identities in U, V, A, A_{n+1}, dt, beta, gamma (symbolic execution of the two closures);
  D2  momentum-balance wiring: the inertia term of the algorithmic energy is the kinetic energy density
      1/2 rho v.v of (U - U_predicted), scaled by the same 1/(beta dt^2) as `correct` uses for the acceleration,
      so stationarity is f_int + M A_{n+1} = 0; the element Hessian uses the same factor; the factory feeds
      the same Newmark parameters to energy, Hessian, predictor and corrector.
Not decided: energy conservation over histories, exact rigid translation, mass sums (numerical).
"""
from __future__ import annotations

import ast

from optilint.cfg import cfg_of
from optilint.model import dotted, walk_local
from optilint.core import Incomplete
from optilint.expr import Algebra, NotPolynomial, Rat, Poly
from .common import src, expand, same, calls_in, actual

LEVEL = "proof"
RULE_TEXT = "obligations = rational identities on the results of abstractly interpreting the dynamics factory's closures (predict/correct, energy, Hessian density)"
EXPLANATION = ("Abstract interpretation (optilint.tensoreval, exact rational normal forms, integrals represented by their integrand at a generic "
               "point, opaque material energy) of Mechanics.create_dynamics_functions and the closures it returns; comparison with the Newmark "
               "update formulas; the gradient of the energy's inertia part, the corrector's acceleration and the Hessian density's inertia part "
               "carry the same rho/(beta dt^2). Conservation properties of trajectories are not decided.")

M = "optimism.Mechanics"


def run(ctx):
    ctx.need_module(M)
    ctx.guard(d1, ctx)
    ctx.guard(d2, ctx)
    from .common import hook_agreement, mode_dispatch
    ctx.guard(hook_agreement, ctx, "D2/T6-one-gradient-transformation", f"{M}:create_dynamics_functions", min_sites=3)
    ctx.guard(mode_dispatch, ctx, "D2/T14-mode-dispatch", [f"{M}:parse_2D_to_3D_gradient_transformation", f"{M}:create_mechanics_functions"])
    ctx.trust("exact rational arithmetic; normal forms of multivariate rational functions")
    ctx.assume("dt > 0, beta > 0")


class _Model:
    """Mechanics.create_dynamics_functions interpreted by optilint.tensoreval on symbolic data.

    Integration over the mesh is linear in the integrand and interpolation is linear and pointwise in the nodal field, so an
    integral is represented by its integrand at one generic point: integrate_over_block(fs, field, state, dt, density, ...) evaluates
    density(w, grad w, q, x, dt) with w = the field expression itself (entries u_i, p_i, ...) and grad w = the same linear combination
    of gradient symbols (G_u_ij, or Gm_u_ij when a gradient transformation is passed).  The material's strain energy is an opaque
    function SE@(arguments).  The vmapped element-stiffness kernel is represented by the density it is given, evaluated the same way.
    """

    def __init__(self, ctx):
        from optilint.tensoreval import Interp, Dual, Arr, PyFunc, Record, _A, Closure
        from optilint.expr import simplify
        self.ctx = ctx
        self.mod = ctx.need_module(M)
        I = self.I = Interp(ctx.repo)
        self.A = _A
        self.Dual, self.Arr, self.Record, self.PyFunc = Dual, Arr, Record, PyFunc
        S = self.S = lambda n: Dual(_A.atom(n))
        self.fields = {"u": Arr([S("u0"), S("u1")], (2,)), "p": Arr([S("p0"), S("p1")], (2,))}
        self.kernel_calls = []

        def key(v):
            if isinstance(v, Arr):
                return "[" + ",".join(key(x) for x in v.data) + "]"
            if isinstance(v, Dual) or isinstance(v, (int, float)):
                return repr(simplify(I.num(v).a))
            return repr(v)
        self.key = key

        def strain(it, args, kw):
            return Dual(_A.atom("SE@(" + ";".join(key(a) for a in args) + ")"))
        self.strain = PyFunc("strain_energy_density", strain)

        def grad_of(field, modified):
            """the same linear combination of gradient symbols as `field` is of nodal symbols"""
            pre = "Gm_" if modified else "G_"
            rows = []
            for i in range(2):
                row = []
                for j in range(2):
                    e = I.num(field.data[i]).a
                    for nm in ("u", "p"):
                        for c in range(2):
                            e = _A.subst(e, f"{nm}{c}", _A.atom(f"{pre}{nm}{c}{j}") if c == i else _A.const(0))
                    row.append(Dual(_A.norm(e)))
                rows.append(row)
            return Arr([x for r_ in rows for x in r_], (2, 2))
        self.grad_of = grad_of

        def point_density(field, state, dt, density, modified, extra=()):
            if not isinstance(field, Arr) or field.shape != (2,):
                from optilint.tensoreval import EvalError
                raise EvalError("field argument is not a 2-vector expression of the symbolic fields")
            return I.num(I.call(density, [field, grad_of(field, modified), state, S("X")] + [dt] + list(extra), {}))

        def is_modifier(v):
            return v is not None and not (isinstance(v, Closure) and v.scope.name == "default_modify_element_gradient")

        def integrate(it, args, kw):
            fs, field, state, dt, func = args[:5]
            extra = args[6:]
            mod_ = kw.get("modify_element_gradient")
            # the density receives (w, grad w, q, x, *params) with params = (dt, *extra) in this library's kernels
            return point_density(field, state, dt, func, is_modifier(mod_), extra)
        I.special["optimism.FunctionSpace:integrate_over_block"] = integrate

        def kernel(it, args, kw):
            field, coords, state, dt, conn, shp, shpg, vols, density = args[:9]
            mod_ = args[9] if len(args) > 9 else kw.get("modify_element_gradient")
            v = point_density(field, state, dt, density, is_modifier(mod_))
            self.kernel_calls.append(v)
            return v
        I.special[f"{M}:compute_element_stiffness_from_global_fields"] = kernel

        def vmap(it, args, kw):
            f = args[0]
            return PyFunc("vmapped", lambda it2, a, k, f=f: it2.call(f, a, k))
        I.ext_special["jax.vmap"] = vmap
        I.ext_special["jax.jit"] = lambda it, args, kw: args[0]
        I.ext_special["jax.value_and_grad"] = lambda it, args, kw: PyFunc("value_and_grad", lambda *a: None)

    def factory(self):
        S, Record = self.S, self.Record
        fs = Record("FunctionSpace", ["mesh", "shapes", "shapeGrads", "vols", "quadratureRule"],
                    [Record("Mesh", ["coords", "conns"], [S("coords"), S("conns")]), S("shapes"), S("shapeGrads"), S("vols"), S("quadratureRule")])
        mat = Record("MaterialModel", ["compute_energy_density", "compute_initial_state", "compute_state_new", "density"],
                     [self.strain, self.PyFunc("initial_state", lambda *a: S("q0")), self.PyFunc("state_new", lambda *a: S("q1")), S("rho")])
        nm = Record("NewmarkParameters", ["gamma", "beta"], [S("gamma"), S("beta")])
        return self.I.call(self.I.module_value(self.mod, "create_dynamics_functions"), [fs, "plane strain", mat, nm], {})

    def split(self, v):
        """(part without strain-energy atoms, part with them) of a scalar value"""
        from optilint.expr import Rat, Poly
        A = self.A
        r = A.norm(self.I.num(v).a)
        if not r.d.is_const():
            # common denominator: split the numerator
            pass
        kin, se = {}, {}
        for mono, c in r.n.t.items():
            (se if any(a.startswith("SE@") for a, _e in mono) else kin)[mono] = c
        return A.norm(Rat(Poly(kin), r.d)), A.norm(Rat(Poly(se), r.d))


def d1(ctx):
    rule = "D1/T7-newmark-formulas"
    from optilint.tensoreval import EvalError, Raised
    fac = ctx.need(f"{M}:create_dynamics_functions")
    mdl = _Model(ctx)
    I, A, S = mdl.I, mdl.A, mdl.S
    try:
        fns = mdl.factory()
        predict, correct = fns.get("predict"), fns.get("correct")
    except (EvalError, Raised, KeyError, ValueError, TypeError, AttributeError, IndexError) as ex:
        ctx.undecided(rule, fac, None, construct="factory", detail=f"cannot interpret create_dynamics_functions: {ex}")
        return
    U, V, Ac, dt, A1 = S("U"), S("V"), S("A"), S("dt"), S("A1")
    beta, gamma = S("beta"), S("gamma")
    half = mdl.Dual(A.const(1) / A.const(2))
    one = mdl.Dual(A.const(1))
    try:
        Up, Vp = I.call(predict, [U, V, Ac, dt], {})
        U1 = U + dt * V + dt * dt * ((half - beta) * Ac + beta * A1)
        V1 = V + dt * ((one - gamma) * Ac + gamma * A1)
        Vc, Acode = I.call(correct, [I.num(U1) - I.num(Up), Vp, Ac, dt], {})
    except (EvalError, Raised, KeyError, ValueError, TypeError, AttributeError, IndexError) as ex:
        ctx.undecided(rule, fac, None, construct="predict/correct", detail=f"cannot interpret predict / correct: {ex}")
        return
    eq = lambda a, b: A.equal(I.num(a).a, I.num(b).a)
    ctx.decide(rule, eq(Acode, A1), fac, None, construct="acceleration-consistent-with-displacement-update",
               detail="correct(U_{n+1} - U_pred) returns A_{n+1} for U_{n+1} = U + dt V + dt^2[(1/2-beta)A + beta A_{n+1}]",
               bad_detail=f"with U_(n+1) from the Newmark displacement formula, correct() returns the acceleration {I.num(Acode).a!r} instead of A_(n+1): "
                          f"predictor/corrector do not realise U_(n+1) = U + dt V + dt^2[(1/2-beta)A + beta A_(n+1)]")
    ctx.decide(rule, eq(Vc, V1), fac, None, construct="velocity-update",
               detail="V_{n+1} = V + dt[(1-gamma)A + gamma A_{n+1}]",
               bad_detail=f"predict+correct give V_(n+1) = {I.num(Vc).a!r}, but the Newmark formula is {I.num(V1).a!r}")
    # the predictor alone: U_pred = U + dt V + dt^2 (1/2 - beta) A, V_pred = V + dt (1 - gamma) A  (what the energy's inertia term is centred on)
    ctx.decide(rule, eq(Up, U + dt * V + dt * dt * (half - beta) * Ac) and eq(Vp, V + dt * (one - gamma) * Ac), fac, None, construct="predictor",
               detail="U_pred = U + dt V + dt^2 (1/2 - beta) A, V_pred = V + dt (1 - gamma) A",
               bad_detail=f"predict returns U_pred = {I.num(Up).a!r}, V_pred = {I.num(Vp).a!r}")
    for q in sorted(I.visited):
        sc = ctx.repo.find(q)
        if sc is not None:
            ctx.touch(sc)


def d2(ctx):
    rule = "D2/T7-inertia-wiring"
    from optilint.tensoreval import EvalError, Raised
    fac = ctx.need(f"{M}:create_dynamics_functions")
    lag = ctx.need(f"{M}:compute_newmark_lagrangian")
    hes = ctx.need(f"{M}:_compute_newmark_element_hessians") if ctx.repo.find(f"{M}:_compute_newmark_element_hessians") else fac
    ked = ctx.need(f"{M}:kinetic_energy_density")
    mdl = _Model(ctx)
    I, A, S = mdl.I, mdl.A, mdl.S
    ERR = (EvalError, Raised, KeyError, ValueError, TypeError, AttributeError, IndexError)
    num = lambda v: I.num(v).a
    # kinetic density = 1/2 rho <V,V>
    try:
        got = num(I.call(I.module_value(mdl.mod, "kinetic_energy_density"), [mdl.fields["u"], S("rho")], {}))
        want = A.norm(A.const(1) / A.const(2) * A.atom("rho") * (A.atom("u0") * A.atom("u0") + A.atom("u1") * A.atom("u1")))
        ctx.decide(rule, A.equal(got, want), ked, None, construct="kinetic-density", detail="1/2 rho v.v",
                   bad_detail=f"kinetic energy density of v is {got!r}, not 1/2*density*dot(v, v)")
    except ERR as ex:
        ctx.undecided(rule, ked, None, construct="kinetic-density", detail=f"cannot interpret: {ex}")
    try:
        fns = mdl.factory()
    except ERR as ex:
        ctx.undecided(rule, fac, None, construct="factory", detail=f"cannot interpret create_dynamics_functions: {ex}")
        return
    u, p = mdl.fields["u"], mdl.fields["p"]
    q, dt = S("Q"), S("dt")
    scale = A.atom("rho") / (A.atom("beta") * A.atom("dt") * A.atom("dt"))
    se_want = A.atom("SE@(" + mdl.key(mdl.grad_of(u, True)) + ";" + mdl.key(q) + ";" + mdl.key(dt) + ")")
    # ---- algorithmic energy
    try:
        E = I.call(fns.get("compute_algorithmic_energy"), [u, p, q, dt], {})
        kin, se = mdl.split(E)
    except ERR as ex:
        ctx.undecided(rule, lag, None, construct="energy", detail=f"cannot interpret compute_algorithmic_energy: {ex}")
        kin = se = None
    if kin is not None:
        ctx.decide(rule, A.equal(se, se_want), lag, None, construct="energy:strain-part",
                   detail="strain energy of U (with the factory's gradient transformation), weight 1",
                   bad_detail=f"the strain part of the algorithmic energy is {se!r}; it must be the material's energy density of the (transformed) gradient of U, "
                              f"the state and dt: {se_want!r}")
        bad = None
        for i in range(2):
            g = A.norm(A.diff(kin, f"u{i}"))
            w = A.norm(scale * (A.atom(f"u{i}") - A.atom(f"p{i}")))
            if not A.equal(g, w):
                bad = f"d(inertia term)/dU_{i} = {g!r}, but M A_(n+1) needs rho*(U_{i} - UPredicted_{i})/(beta*dt^2) = {w!r}"
                break
        ctx.decide(rule, bad is None, lag, None, construct="energy:inertia-gradient",
                   detail="d(inertia term)/dU = rho (U - U_pred)/(beta dt^2) = M A_{n+1} with the corrector's A_{n+1}",
                   bad_detail=f"{bad}: the minimiser of the algorithmic energy would not satisfy f_int + M A_(n+1) = 0")
    # ---- corrector: A_{n+1} = (U - U_pred)/(beta dt^2)
    try:
        W = S("W")
        _, Acode = I.call(fns.get("correct"), [W, S("V"), S("A"), dt], {})
        okc = A.equal(num(Acode), A.norm(A.atom("W") / (A.atom("beta") * A.atom("dt") * A.atom("dt"))))
        ctx.decide(rule, okc, fac, None, construct="inertia-factor-corrector",
                   detail="A_{n+1} = (U - U_pred)/(beta dt^2): same factor as the inertia term, so d(energy)/dU = f_int + M A_{n+1}",
                   bad_detail=f"corrector computes the acceleration as {num(Acode)!r}; the inertia term of the energy uses 1/(beta*dt^2): "
                              f"the minimiser would not satisfy f_int + M A_(n+1) = 0")
    except ERR as ex:
        ctx.undecided(rule, fac, None, construct="inertia-factor-corrector", detail=f"cannot interpret correct: {ex}")
    # ---- element Hessians: density handed to the stiffness kernel
    try:
        del mdl.kernel_calls[:]
        H = I.call(fns.get("compute_element_hessians"), [u, p, q, dt], {})
        kinh, seh = mdl.split(H)
    except ERR as ex:
        ctx.undecided(rule, hes, None, construct="hessian", detail=f"cannot interpret compute_element_hessians: {ex}")
        kinh = None
    if kinh is not None:
        ctx.decide(rule, bool(mdl.kernel_calls) and A.equal(seh, se_want), hes, None, construct="hessian:strain-part",
                   detail="the Hessian density contains the strain energy linearised about U, weight 1",
                   bad_detail=f"the strain part of the Hessian density is {seh!r}; it must be {se_want!r} (linearised about U, not about U - UPredicted)")
        bad = None
        for i in range(2):
            for j in range(2):
                h = A.norm(A.diff(A.diff(kinh, f"u{i}"), f"u{j}"))
                w = A.norm(scale) if i == j else A.const(0)
                if not A.equal(h, w):
                    bad = f"d2(inertia density)/dU_{i}dU_{j} = {h!r}, expected {w!r}"
        ctx.decide(rule, bad is None, hes, None, construct="inertia-factor-hessian",
                   detail="Hessian of the inertia density = rho/(beta dt^2) I: the same factor as the energy and the corrector",
                   bad_detail=f"{bad}: the tangent is not the derivative of the algorithmic energy's gradient")
    # ---- direct (non-factory) entry point agrees with the factory wiring: same density, beta and dt reach compute_newmark_lagrangian
    try:
        E2 = I.call(I.module_value(mdl.mod, "compute_newmark_lagrangian"),
                    [S("fs"), u, p, q, S("rho"), dt, S("beta"), mdl.strain, mdl.PyFunc("modify", lambda *a: None)], {})
        ok = kin is not None and A.equal(num(E2), num(E))
        ctx.decide(rule, ok, fac, None, construct="wiring:compute_algorithmic_energy",
                   detail="compute_algorithmic_energy = compute_newmark_lagrangian(density=materialModel.density, dt, beta=newmarkParameters.beta, material energy, gradient transformation)",
                   bad_detail=f"the factory's compute_algorithmic_energy gives {num(E)!r} but compute_newmark_lagrangian with the material's density, "
                              f"the time step and the Newmark beta gives {num(E2)!r}: the factory wires different parameters")
    except ERR as ex:
        ctx.undecided(rule, lag, None, construct="wiring:compute_algorithmic_energy", detail=f"cannot interpret compute_newmark_lagrangian: {ex}")


def variants(repo):
    from optilint.selftest import Variant, sub, sub_in_func, alpha_rename, reformat
    P = "optimism/Mechanics.py"
    return [
        Variant("algorithmic energy with the unprojected transformation", "optimism/Mechanics.py",
                sub_in_func("create_dynamics_functions", "    modify_element_gradient = define_pressure_projection_gradient_tranformation(functionSpace, pressureProjectionDegree, modify_element_gradient)",
                            "    grad_2D_to_3D = modify_element_gradient\n    modify_element_gradient = define_pressure_projection_gradient_tranformation(functionSpace, pressureProjectionDegree, modify_element_gradient)\n    _unused = grad_2D_to_3D"), None),
        Variant("dynamics: axisymmetric mode selects the plane-strain transformation", "optimism/Mechanics.py",
                sub("        grad_2D_to_3D = axisymmetric_element_gradient_transformation\n    else:\n        raise ValueError", "        grad_2D_to_3D = plane_strain_gradient_transformation\n    else:\n        raise ValueError"), "D2/T14-mode-dispatch"),
        Variant("(1-2beta) -> (1-beta)", P, sub("0.5*dt*dt*(1.0 - 2.0*newmarkParameters.beta)*A", "0.5*dt*dt*(1.0 - newmarkParameters.beta)*A"), "D1/T7-newmark-formulas"),
        Variant("gamma <-> beta in correct", P, sub("        V += dt*newmarkParameters.gamma*A", "        V += dt*newmarkParameters.beta*A"), "D1/T7-newmark-formulas"),
        Variant("predictor velocity with gamma", P, sub("        V += dt*(1.0 - newmarkParameters.gamma)*A", "        V += dt*newmarkParameters.gamma*A"), "D1/T7-newmark-formulas"),
        Variant("corrector 1/(beta dt)", P, sub("        A = UCorrection/(newmarkParameters.beta*dt*dt)", "        A = UCorrection/(newmarkParameters.beta*dt)"), "D1/T7-newmark-formulas"),
        Variant("inertia factor 1/(beta dt)", P, sub("    KE *= 1 / (newmarkBeta*dt**2)", "    KE *= 1 / (newmarkBeta*dt)"), "D2/T7-inertia-wiring"),
        Variant("inertia of U only", P, sub_in_func("compute_newmark_lagrangian", "integrate_over_block(functionSpace, U - UPredicted, internals, dt,", "integrate_over_block(functionSpace, U, internals, dt,"), "D2/T7-inertia-wiring"),
        Variant("kinetic density without 1/2", P, sub("    return 0.5*density*np.dot(V, V)", "    return density*np.dot(V, V)"), "D2/T7-inertia-wiring"),
        Variant("hessian inertia factor", P, sub("kinetic_energy_density(W, density)/(newmarkBeta*dtime**2)", "kinetic_energy_density(W, density)/(newmarkBeta*dtime)"), "D2/T7-inertia-wiring"),
        Variant("energy gets gamma", P, sub_in_func("create_dynamics_functions", "materialModel.density, dt, newmarkParameters.beta,\n                                          materialModel.compute_energy_density,",
                                                   "materialModel.density, dt, newmarkParameters.gamma,\n                                          materialModel.compute_energy_density,"), "D2/T7-inertia-wiring"),
        Variant("reformat", P, reformat(), None),
        Variant("rename corrector local", P, sub("        A = UCorrection/(newmarkParameters.beta*dt*dt)\n        V += dt*newmarkParameters.gamma*A\n        return V, A",
                                               "        ANew = UCorrection/(newmarkParameters.beta*dt*dt)\n        V += dt*newmarkParameters.gamma*ANew\n        return V, ANew"), None),
        Variant("equivalent predictor form", P, sub("0.5*dt*dt*(1.0 - 2.0*newmarkParameters.beta)*A", "dt*dt*(0.5 - newmarkParameters.beta)*A"), None),
        Variant("equivalent inertia factor", P, sub("    KE *= 1 / (newmarkBeta*dt**2)", "    KE *= 1.0 / (dt*dt*newmarkBeta)"), None),
        Variant("inertia factor inside the integrand", P, sub("        return kinetic_energy_density(W, density)\n    KE =  FunctionSpace.integrate_over_block(functionSpace, U - UPredicted, internals, dt,\n                                             lagrangian_density, slice(None))\n    KE *= 1 / (newmarkBeta*dt**2)\n",
                                                               "        return kinetic_energy_density(W, density)/(newmarkBeta*dtime*dtime)\n    KE =  FunctionSpace.integrate_over_block(functionSpace, U - UPredicted, internals, dt,\n                                             lagrangian_density, slice(None))\n"), None),
        Variant("inertia of the negated difference", P, sub_in_func("compute_newmark_lagrangian", "integrate_over_block(functionSpace, U - UPredicted, internals, dt,", "integrate_over_block(functionSpace, UPredicted - U, internals, dt,"), None),
        Variant("hessian linearised about U - UPredicted", P, sub("    return f(U, fs.mesh.coords, internals, dt, fs.mesh.conns, fs.shapes, fs.shapeGrads, fs.vols,\n             lagrangian_density, modify_element_gradient)",
                                                                   "    return f(U - UPredicted, fs.mesh.coords, internals, dt, fs.mesh.conns, fs.shapes, fs.shapeGrads, fs.vols,\n             lagrangian_density, modify_element_gradient)"), "D2/T7-inertia-wiring"),
        Variant("strain energy without the gradient transformation", P, sub_in_func("compute_newmark_lagrangian", "                                            slice(None), modify_element_gradient=modify_element_gradient)", "                                            slice(None))"), "D2/T7-inertia-wiring"),
        Variant("strain energy weighted by beta", P, sub_in_func("compute_newmark_lagrangian", "    return SE + KE", "    return newmarkBeta*SE + KE"), "D2/T7-inertia-wiring"),
    ]
