"""C15 -- Newmark stepping (formulas and momentum-balance wiring).

Every obligation is decided on the *results* of interpreting Mechanics.create_dynamics_functions and the closures it returns
(rules/C15_model.py: the symbolic interpreter of rules/C02_model.py -- tiny mesh with concrete topology, symbolic fields / shape
data / volumes / internal variables, uninterpreted material model, executed jax.vmap, recorded jax.hessian requests -- extended with
try/except, match, dictionary dispatch, n-d gathers, record conveniences).  Nothing is matched against statement text, local names,
helper names or idioms; what is used of the library is its public interface: the factory's signature, the field names of
DynamicsFunctions, the FunctionSpace / Mesh attributes, the material-model interface.

  D1  composing predict and correct with UCorrection = U_{n+1} - U_pred gives exactly the Newmark formulas
        U_{n+1} = U + dt V + dt^2 [(1/2 - beta) A + beta A_{n+1}],  V_{n+1} = V + dt [(1 - gamma) A + gamma A_{n+1}]
      as polynomial identities in the nodal arrays U, V, A, A_{n+1} and dt, beta, gamma;
  D2  momentum-balance wiring (T7): the algorithmic energy is  strain energy of U (weight 1, the idealisation's kinematics)
      + rho/(2 beta dt^2) * sum_q w_q |N (U - U_pred)|^2  up to a U-independent term, so stationarity is f_int + M A_{n+1} = 0 with the
      consistent mass M and the corrector's A_{n+1} = (U - U_pred)/(beta dt^2); the function differentiated by the element-Hessian
      closure has the same strain part (linearised about U) and the same inertia quadratic form; the public
      compute_newmark_lagrangian agrees with the factory's energy; the kinetic energy is 1/2 rho sum_q w_q |N V|^2 (consistent mass);
      (T6) every closure of the factory hands the material the same displacement gradients (with a pressure projection switched on);
      (T14) each mode2D yields its kinematics ([[grad u,0],[0,0]] / hoop strain u_r/r) in every closure, as in the statics factory.
Not decided: energy conservation over histories, exact rigid translation (numerical consequences of the identities above).
"""
from __future__ import annotations

from optilint.core import Incomplete
from optilint.tensoreval import Dual, Arr, Record, EvalError, _A
from optilint.expr import Rat, simplify
from .C15_model import (Session, kinematics, element_functions, element_sum, differentiated_arguments, short, ERR, MODES,
                        ENERGY, STIFF, FIELD_ARGS, M, NE, NQ, ND)

LEVEL = "proof"
RULE_TEXT = ("obligations = rational identities between the results of symbolically interpreting the dynamics factory's closures "
             "(predict/correct, algorithmic energy, function differentiated by the element Hessians, kinetic energy, material calls) and the "
             "Newmark / momentum-balance specification")
EXPLANATION = ("Symbolic interpretation (optilint.tensoreval + rules/C02_model.py + rules/C15_model.py: exact rational normal forms on a "
               "3-element mesh with symbolic fields, shape data, volumes and internal variables, uninterpreted material model, executed vmap, "
               "recorded hessian requests) of Mechanics.create_dynamics_functions and the closures it returns; comparison with the Newmark "
               "update formulas, with strain energy + rho/(2 beta dt^2) |U - U_pred|^2_M, with the corrector's acceleration, with the "
               "kinematics of each 2D idealisation; agreement of the gradients all closures hand to the material. Conservation properties of "
               "trajectories are not decided.")

DYN = "create_dynamics_functions"
STAT = "create_mechanics_functions"


def run(ctx):
    ctx.need_module(M)
    S = ctx.guard(Session, ctx)
    if S is None:
        return
    ctx.guard(d1, ctx, S)
    ctx.guard(d2, ctx, S)
    ctx.guard(t6, ctx, S)
    ctx.guard(t14, ctx, S)
    for q in sorted(S.W.I.visited):
        sc = ctx.repo.find(q)
        if sc is not None and not sc.module.is_test:
            ctx.touch(sc)
    ctx.trust("python ast; optilint resolver; exact rational-function arithmetic; applications of uninterpreted functions are identified when "
              "their arguments are equal (polynomial identity test modulo 2^61-1, confirmed by exact subtraction)")
    ctx.trust("jax.hessian(f, argnums)(*args) is the second derivative of f w.r.t. positional argument argnums at args; jax.vmap(f, in_axes) "
              "applies f along the leading axis of the arguments whose in_axes entry is 0; jax.jit is transparent")
    ctx.assume("dt > 0, beta > 0; the material model is a pure function of (displacement gradient, internal variables, dt)")


# ------------------------------------------------------------------ helpers

def comb(*terms):
    """sum_k c_k * X_k for Dual scalars c_k and arrays X_k of one shape"""
    out = None
    for c, X in terms:
        t = X.map(lambda x, c=c: c * x)
        out = t if out is None else out.zip(t, lambda a, b: a + b)
    return out


def pair(v, what):
    if isinstance(v, Record):
        v = list(v.values)
    if not isinstance(v, (tuple, list)) or len(v) != 2:
        raise EvalError(f"{what} does not return a pair")
    return v[0], v[1]


def first_diff(W, got, want):
    """'entry: got ... expected ...' for the first entry where two numeric values differ"""
    I = W.I
    try:
        got, want = I.num(got), I.num(want)
    except EvalError:
        return f"{short(got, 120)} is not a numeric value"
    if isinstance(got, Arr) and isinstance(want, Arr) and got.shape == want.shape:
        import itertools
        for ix in itertools.product(*[range(s) for s in got.shape]):
            g, w = got.get(ix), want.get(ix)
            if not _A.is_zero(_A.norm(g.a - w.a)):
                return f"entry {list(ix)}: {short(simplify(_A.norm(g.a)), 200)} instead of {short(simplify(_A.norm(w.a)), 200)}"
        return "equal"
    if isinstance(got, Arr) or isinstance(want, Arr):
        return f"shape {getattr(got, 'shape', ())} instead of {getattr(want, 'shape', ())}"
    return f"{short(simplify(_A.norm(got.a)), 200)} instead of {short(simplify(_A.norm(want.a)), 200)}"


def tri(ok, tainted):
    """a derived difference is only reliable when no kernel fell back to an uninterpreted application"""
    return True if ok else (None if tainted else False)


def decide(ctx, S, rule, ok, tainted, scope, construct="", detail="", bad_detail=""):
    """ctx.decide, except that a derived difference (ok False) counts as UNDECIDED when a kernel on the way could not be interpreted and was
    replaced by an uninterpreted application: equalities proved with it are sound (congruence), differences are not"""
    if ok is False and tainted:
        t = S.W.I.taint[-1] if S.W.I.taint else ("?", "?")
        bad_detail = (f"not decided: {t[0].split(':')[-1]} could not be interpreted ({t[1]}) and was treated as an uninterpreted function; "
                      f"with that: {bad_detail}")
        ok = None
    return ctx.decide(rule, ok, scope, None, construct=construct, detail=detail, bad_detail=bad_detail)


def base_case(ctx, S, rule, fac_scope):
    case = S.case(DYN, "plane strain", None)
    if case.fns is None:
        ctx.undecided(rule, fac_scope, None, construct="factory",
                      detail=f"cannot interpret {DYN}(functionSpace, 'plane strain', materialModel, newmarkParameters): {case.error or 'raised ' + str(case.rejected)}")
        return None
    return case


def closure(case, name):
    if name not in case.fns.fields or case.fns.get(name) is None:
        raise EvalError(f"the factory's result has no closure `{name}`")
    return case.fns.get(name)


# ------------------------------------------------------------------ D1: predictor / corrector = Newmark formulas

def d1(ctx, S):
    rule = "D1/T7-newmark-formulas"
    W, I = S.W, S.W.I
    fac = ctx.need(f"{M}:{DYN}")
    case = base_case(ctx, S, rule, fac)
    if case is None:
        return
    U, V, Ac, A1, dt = W.U, W.V, W.Ac, W.A1, W.dt
    beta, gamma = I.sym("beta"), I.sym("gamma")
    half, one = Dual(_A.const(1) / _A.const(2)), Dual(1)
    try:
        Up, Vp = pair(I.call(closure(case, "predict"), [U, V, Ac, dt], {}), "predict")
        U1 = comb((one, U), (dt, V), (dt * dt * (half - beta), Ac), (dt * dt * beta, A1))
        V1 = comb((one, V), (dt * (one - gamma), Ac), (dt * gamma, A1))
        dU = I.num(U1).zip(I.num(Up), lambda a, b: a - b)
        Vc, Acode = pair(I.call(closure(case, "correct"), [dU, Vp, Ac, dt], {}), "correct")
    except ERR as ex:
        ctx.undecided(rule, fac, None, construct="predict/correct", detail=f"cannot interpret predict / correct: {type(ex).__name__}: {ex}")
        return
    t = case.tainted or bool(I.taint)
    same = lambda a, b: W.same(a, b)
    # the predictor alone (what the energy's inertia term is centred on)
    Upw = comb((one, U), (dt, V), (dt * dt * (half - beta), Ac))
    Vpw = comb((one, V), (dt * (one - gamma), Ac))
    ru, rv = same(Up, Upw), same(Vp, Vpw)
    rp = False if (ru is False or rv is False) else (None if (ru is None or rv is None) else True)
    blame = (" (predict() is as specified: the defect is in correct())" if rp is True else
             " (predict() already deviates, see the predictor obligation)" if rp is False else "")
    r = same(Acode, A1)
    decide(ctx, S, rule, r, t, fac, construct="acceleration-consistent-with-displacement-update",
           detail="correct(U_{n+1} - U_pred) returns A_{n+1} for U_{n+1} = U + dt V + dt^2[(1/2-beta)A + beta A_{n+1}]",
           bad_detail=f"with U_(n+1) from the Newmark displacement formula, correct() does not return the acceleration A_(n+1) ({first_diff(W, Acode, A1)}): "
                      f"predict/correct do not realise U_(n+1) = U + dt V + dt^2[(1/2-beta)A + beta A_(n+1)]{blame}")
    r = same(Vc, V1)
    decide(ctx, S, rule, r, t, fac, construct="velocity-update",
           detail="V_{n+1} = V + dt[(1-gamma)A + gamma A_{n+1}]",
           bad_detail=f"predict followed by correct does not give the Newmark velocity V_(n+1) = V + dt[(1-gamma)A + gamma A_(n+1)]: {first_diff(W, Vc, V1)}{blame}")
    decide(ctx, S, rule, rp, t, fac, construct="predictor",
           detail="U_pred = U + dt V + dt^2 (1/2 - beta) A, V_pred = V + dt (1 - gamma) A",
           bad_detail=f"predict(): U_pred {first_diff(W, Up, Upw)}; V_pred {first_diff(W, Vp, Vpw)}")


# ------------------------------------------------------------------ D2/T7: inertia wiring

def strain_diagnosis(W, se: Rat, want: Rat):
    """why the strain part `se` of an integral is not the specification `want`"""
    I = W.I
    se, want = simplify(_A.norm(se)), simplify(_A.norm(want))
    if _A.is_zero(se):
        return "it has no strain-energy term at all"
    have = {a for a in se.atoms() if a.startswith("SE:")}
    spec = {a for a in want.atoms() if a.startswith("SE:")}
    odd = sorted(have - spec)
    if odd:
        info = I.atom_info.get(odd[0])
        where = ""
        if info:
            deps = {s.split("_")[0] for s in info[2]}
            names = {"U": "U", "UP": "UPredicted", "dN": "the shape function gradients", "N": "the shape functions", "X": "the coordinates",
                     "Q": "the internal variables", "dt": "dt", "beta": "beta", "gamma": "gamma"}
            g = info[1][0] if info[1] else None
            where = (f"; e.g. the material is evaluated at a {'x'.join(map(str, g.shape)) if isinstance(g, Arr) else ''} gradient argument {short(g, 140)} "
                     f"(arguments depend on {', '.join(sorted(names.get(d, d) for d in deps))})")
        return (f"the material's energy density is evaluated {len(odd)}x at arguments that are not (the idealisation's 3x3 gradient of U at a quadrature point, "
                f"that point's internal variables, dt){where}")
    missing = sorted(spec - have)
    if missing:
        return f"{len(missing)} of the {NE * NQ} quadrature points contribute no strain energy"
    # same material evaluations, other weights
    a = sorted(have)[0]
    cg = _A.norm(_A.diff(se, a))
    cw = _A.norm(_A.diff(want, a))
    return f"the strain energy density at a quadrature point is weighted by {short(simplify(cg), 120)} instead of its quadrature volume {short(simplify(cw), 40)}"


def d2(ctx, S):
    rule = "D2/T7-inertia-wiring"
    W, I = S.W, S.W.I
    fac = ctx.need(f"{M}:{DYN}")
    lag = ctx.repo.find(f"{M}:compute_newmark_lagrangian") or fac
    ked = ctx.repo.find(f"{M}:kinetic_energy_density")
    num = lambda v: _A.norm(I.num(v).a)
    rho = W.material("A").get("density")
    beta, dt = I.sym("beta"), W.dt
    # ---- kinetic energy density = 1/2 rho <v, v>
    if ked is not None:
        try:
            v = I.sym_arr("v", (ND,))
            got = num(I.call(W.fn(M, "kinetic_energy_density"), [v, rho], {}))
            want = _A.norm((Dual(_A.const(1) / _A.const(2)) * rho * sum((x * x for x in v.data), Dual(0))).a)
            ctx.decide(rule, _A.equal(got, want), ked, None, construct="kinetic-density", detail="1/2 rho v.v",
                       bad_detail=f"kinetic energy density of v is {short(simplify(got), 200)}, not 1/2*density*dot(v, v)")
        except ERR as ex:
            ctx.undecided(rule, ked, None, construct="kinetic-density", detail=f"cannot interpret: {type(ex).__name__}: {ex}")
    case = base_case(ctx, S, rule, fac)
    if case is None:
        return
    # ---- the kinetic energy closure: 1/2 rho sum_q w_q |N V|^2 (consistent mass, sums to rho * area for a partition of unity)
    ke = case.ev("compute_output_kinetic_energy")
    if ke.error:
        ctx.undecided(rule, fac, None, construct="kinetic-energy-closure", detail=f"cannot interpret compute_output_kinetic_energy: {ke.error}")
    else:
        try:
            got, want = W.rat(ke.value), W.kinetic_spec(W.V)
            decide(ctx, S, rule, _A.equal(got, want), ke.tainted, fac, construct="kinetic-energy-closure",
                       detail="compute_output_kinetic_energy(V) = 1/2 rho sum_q w_q |N V|^2: the consistent mass of the interpolation",
                       bad_detail=f"compute_output_kinetic_energy(V) is not 1/2*density*sum_q w_q |sum_a N_a V_a|^2: d/dV[0,0] = "
                                  f"{short(simplify(_A.norm(_A.diff(got, 'V_0_0'))), 160)} instead of {short(simplify(_A.norm(_A.diff(want, 'V_0_0'))), 160)}")
        except ERR as ex:
            ctx.undecided(rule, fac, None, construct="kinetic-energy-closure", detail=f"compute_output_kinetic_energy does not return a scalar: {ex}")
    scale = Dual(1) / (beta * dt * dt)
    dU = W.U.zip(W.UP, lambda a, b: a - b)
    kin_want = _A.norm(scale.a * W.kinetic_spec(dU))
    se_want = W.strain_spec("plane strain")
    # ---- algorithmic energy
    E = kin = None
    ee = case.ev(ENERGY["dyn"])
    if ee.error:
        ctx.undecided(rule, lag, None, construct="energy", detail=f"cannot interpret compute_algorithmic_energy: {ee.error}")
    else:
        try:
            E = W.rat(ee.value)
            kin, se = W.split_energy(E)
        except ERR as ex:
            ctx.undecided(rule, lag, None, construct="energy", detail=f"compute_algorithmic_energy does not return a scalar: {ex}")
            E = None
    if E is not None:
        ok = _A.equal(se, se_want)
        decide(ctx, S, rule, ok, ee.tainted, lag, construct="energy:strain-part",
                   detail="strain energy of U (with the factory's gradient transformation), weight 1",
                   bad_detail="the strain part of the algorithmic energy is not sum_q w_q * energy_density(3x3 plane-strain gradient of U, state, dt): "
                              + ("" if ok else strain_diagnosis(W, se, se_want)))
        D = _A.norm(kin - kin_want)
        odd = W.foreign_atoms(D)
        bad = None
        if not odd:
            for s_ in sorted(W.usyms):
                g = _A.norm(_A.diff(D, s_))
                if not _A.is_zero(g):
                    n_, i_ = s_.split("_")[1:]
                    gk, gw = _A.norm(_A.diff(kin, s_)), _A.norm(_A.diff(kin_want, s_))
                    ratio = None if _A.is_zero(gw) else simplify(_A.norm(gk / gw))
                    if ratio is not None and len(repr(ratio)) <= 80:
                        bad = (f"d(inertia term)/dU[{n_},{i_}] is {ratio!r} times (M A_(n+1))[{n_},{i_}] (consistent mass M, A_(n+1) = (U - UPredicted)/(beta*dt^2), "
                               f"i.e. {short(simplify(gw), 160)})")
                    else:
                        bad = (f"d(inertia term)/dU[{n_},{i_}] = {short(simplify(gk), 220)}, but (M A_(n+1))[{n_},{i_}] with the consistent mass and "
                               f"A_(n+1) = (U - UPredicted)/(beta*dt^2) is {short(simplify(gw), 220)}")
                    break
        ctx.decide(rule, None if odd else tri(bad is None, ee.tainted), lag, None, construct="energy:inertia-gradient",
                   detail="d(inertia term)/dU = M (U - U_pred)/(beta dt^2) = M A_{n+1} with the consistent mass M and the corrector's A_{n+1}",
                   bad_detail=(f"the inertia term contains applications of functions that are not interpreted: {sorted(odd)[:3]}" if odd else
                               f"{bad}: the minimiser of the algorithmic energy would not satisfy f_int + M A_(n+1) = 0"))
    # ---- corrector: A_{n+1} = (U - U_pred)/(beta dt^2)
    try:
        _, Acode = pair(I.call(closure(case, "correct"), [W.Wc, W.V, W.Ac, dt], {}), "correct")
        want = W.Wc.map(lambda x: x * scale)
        r = W.same(Acode, want)
        decide(ctx, S, rule, r, case.tainted, fac, construct="inertia-factor-corrector",
                   detail="A_{n+1} = (U - U_pred)/(beta dt^2): same factor as the inertia term, so d(energy)/dU = f_int + M A_{n+1}",
                   bad_detail=f"the corrector does not compute the acceleration as UCorrection/(beta*dt^2) ({first_diff(W, Acode, want)}), while the inertia "
                              f"term of the energy must use 1/(beta*dt^2): the minimiser would not satisfy f_int + M A_(n+1) = 0")
    except ERR as ex:
        ctx.undecided(rule, fac, None, construct="inertia-factor-corrector", detail=f"cannot interpret correct: {type(ex).__name__}: {ex}")
    # ---- element Hessians: the function that is differentiated
    he = case.ev(STIFF["dyn"])
    F = None
    if he.error:
        ctx.undecided(rule, fac, None, construct="hessian", detail=f"cannot interpret compute_element_hessians: {he.error}")
    else:
        ef, why = element_functions(S, he)
        if ef is None:
            ctx.undecided(rule, fac, None, construct="hessian", detail=f"compute_element_hessians: {why}")
        else:
            F, err, _, ftaint = element_sum(S, ef)
            if err:
                ctx.undecided(rule, fac, None, construct="hessian", detail=f"compute_element_hessians: {err}")
                F = None
    if F is not None:
        tainted = he.tainted or ftaint
        problem, positive = differentiated_arguments(S, ef)
        kinh, seh = W.split_energy(F)
        ok = _A.equal(seh, se_want)
        if problem is not None:
            ctx.decide(rule, tri(False, tainted) if positive else None, fac, None, construct="hessian:strain-part", bad_detail=f"compute_element_hessians: {problem}")
        else:
            decide(ctx, S, rule, ok, tainted, fac, construct="hessian:strain-part",
                       detail="the function differentiated by compute_element_hessians contains the strain energy of U (linearised about U), weight 1",
                       bad_detail="the strain part of the function differentiated by compute_element_hessians is not the strain energy of U (the energy must be "
                                  "linearised about U, not about U - UPredicted, with the same kinematics and weight 1): " + ("" if ok else strain_diagnosis(W, seh, se_want)))
        Dh = _A.norm(kinh - kin_want)
        odd = W.foreign_atoms(Dh)
        bad = None
        if not odd and problem is None:
            na = W.nonaffine(Dh)
            if na:
                s0 = sorted(W.usyms)[0]
                h = _A.norm(_A.diff(_A.diff(kinh, s0), s0))
                w = _A.norm(_A.diff(_A.diff(kin_want, s0), s0))
                bad = (f"d2(inertia part)/dU[0,0]^2 = {short(simplify(h), 200)}, expected the consistent mass entry times 1/(beta*dt^2) = {short(simplify(w), 200)}"
                       if not _A.is_zero(_A.norm(h - w)) else f"the inertia parts differ by a term that is not affine in U ({short(na[0][0], 80)})")
        ctx.decide(rule, None if (odd or problem is not None) else tri(bad is None, tainted), fac, None, construct="inertia-factor-hessian",
                   detail="Hessian of the inertia part = M/(beta dt^2) with the consistent mass: the same factor as the energy and the corrector",
                   bad_detail=(f"compute_element_hessians: {problem}" if problem is not None else
                               f"the inertia part contains applications of functions that are not interpreted: {sorted(odd)[:3]}" if odd else
                               f"{bad}: the tangent is not the derivative of the algorithmic energy's gradient"))
    # ---- the public (non-factory) entry point agrees with the factory wiring: same density, beta, dt, material energy, kinematics
    if ctx.repo.find(f"{M}:compute_newmark_lagrangian") is None:
        ctx.undecided(rule, fac, None, construct="wiring:compute_algorithmic_energy", detail="public function compute_newmark_lagrangian not found")
    else:
        t0 = len(I.taint)
        try:
            E2 = W.rat(I.call(W.fn(M, "compute_newmark_lagrangian"),
                              [W.fs, W.U, W.UP, W.Q, rho, dt, beta, W.material("A").get("compute_energy_density"), W.plane_strain_hook()], {}))
            if E is None:
                ctx.undecided(rule, fac, None, construct="wiring:compute_algorithmic_energy", detail="the factory's energy closure could not be interpreted")
            else:
                ok = _A.equal(E2, E)
                k2, s2 = W.split_energy(E2)
                what = "strain" if not _A.equal(s2, se) else "inertia"
                decide(ctx, S, rule, ok, ee.tainted or len(I.taint) > t0, fac, construct="wiring:compute_algorithmic_energy",
                           detail="compute_algorithmic_energy = compute_newmark_lagrangian(density=materialModel.density, dt, beta=newmarkParameters.beta, material energy, gradient transformation)",
                           bad_detail=f"the factory's compute_algorithmic_energy differs in its {what} part from compute_newmark_lagrangian called with the material's density, "
                                      f"the time step, the Newmark beta, the material's energy density and the plane-strain kinematics: the factory wires different parameters "
                                      f"({what} part: {short(simplify(kin if what == 'inertia' else se), 160)} vs {short(simplify(k2 if what == 'inertia' else s2), 160)})")
        except ERR as ex:
            ctx.undecided(rule, lag, None, construct="wiring:compute_algorithmic_energy", detail=f"cannot interpret compute_newmark_lagrangian: {type(ex).__name__}: {ex}")


# ------------------------------------------------------------------ D2/T6: one gradient transformation for all closures of the factory

def material_closures(S, case):
    """{field: (kinematics dict | error string, Ev)} for the closures of the modelled interface that evaluate the material"""
    out = {}
    for field in case.fns.fields:
        if field not in FIELD_ARGS[case.kind] or case.fns.get(field) is None:
            continue
        got, ev = kinematics(S, case, field)
        if got is None:
            continue
        out[field] = (got, ev)
    return out


def t6(ctx, S):
    rule = "D2/T6-one-gradient-transformation"
    W, I = S.W, S.W.I
    fac = ctx.need(f"{M}:{DYN}")
    n_done = 0
    for mode, deg in (("plane strain", 1), ("axisymmetric", 0)):
        case = S.case(DYN, mode, deg)
        tag = f"[mode2D={mode!r},pressureProjectionDegree={deg}]"
        if case.rejected is not None:
            ctx.proved(rule, fac, None, construct=f"{DYN}:{tag}", detail=f"option combination rejected explicitly ({case.rejected})")
            n_done += 1
            continue
        if case.fns is None:
            ctx.undecided(rule, fac, None, construct=f"{DYN}:{tag}", detail=f"cannot build the factory: {case.error}")
            continue
        mc = material_closures(S, case)
        good = {}
        for field, (got, ev) in mc.items():
            if not isinstance(got, dict):
                ctx.undecided(rule, fac, None, construct=f"{DYN}:{field}:gradient-transformation{tag}", detail=f"cannot interpret {field}: {got}")
            else:
                good[field] = (got, ev)
        en = ENERGY["dyn"]
        if en not in good:
            if en not in mc:
                ctx.undecided(rule, fac, None, construct=f"{DYN}:{en}:gradient-transformation{tag}", detail=f"{en} does not evaluate the material model")
            continue
        n_done += 1
        # group the closures by what they hand to the material, point by point
        sig = {f: tuple(sorted((p, tuple(sorted(map(repr, ks)))) for p, ks in got.items())) for f, (got, ev) in good.items()}
        groups = {}
        for f in good:
            groups.setdefault(sig[f], []).append(f)
        unproj = S.case(DYN, mode, None)

        def ignores_projection(fs_):
            """the group's closures receive exactly the gradients they receive without a pressure projection"""
            if len(groups) == 1 or unproj.fns is None:
                return False
            g0, _ = kinematics(S, unproj, fs_[0])
            got0 = good[fs_[0]][0]
            return isinstance(g0, dict) and all(got0.get(p) == g0.get(p) for p in got0)
        # reference = the largest group among those that honour the option (if the groups differ at all)
        major = max(groups.values(), key=lambda fs_: (not ignores_projection(fs_), len(fs_), en not in fs_))
        ref = good[major[0]][0]
        full = len(ref) == NE * NQ and all(len(v) == 1 for v in ref.values())
        for field, (got, ev) in good.items():
            if field in major:
                ctx.decide(rule, True if (full or field != major[0]) else None, fac, None, construct=f"{DYN}:{field}:gradient-transformation{tag}",
                           detail=(f"{field} hands the material the same displacement gradients as {', '.join(x for x in major if x != field) or 'itself'}"
                                   + (" (one gradient per quadrature point)" if field == major[0] else "")),
                           bad_detail=f"{field} evaluates the material at {len(ref)} of {NE * NQ} quadrature points")
                continue
            diff = sorted(p for p in got if p not in ref or got[p] != ref[p])
            extra = ""
            if unproj.fns is not None:
                g0, _ = kinematics(S, unproj, field)
                if isinstance(g0, dict) and all(got.get(p) == g0.get(p) for p in got):
                    extra = f"; {field} receives exactly the gradients of pressureProjectionDegree=None: its transformation ignores the pressure projection"
            tainted = ev.tainted or any(good[m][1].tainted for m in major)
            decide(ctx, S, rule, False, tainted, fac, construct=f"{DYN}:{field}:gradient-transformation{tag}",
                       bad_detail=f"{DYN}(mode2D={mode!r}, pressureProjectionDegree={deg}): the closure {field} evaluates the material at displacement gradients that "
                                  f"differ from those of {', '.join(major)} at quadrature points {diff[:3]}: the closures of one factory use different gradient "
                                  f"transformations (energy, derivatives and state update would see different kinematics){extra}")
    if n_done == 0:
        raise Incomplete("the dynamics factory could not be evaluated with a pressure projection")


# ------------------------------------------------------------------ D2/T14: mode2D -> kinematics

def t14(ctx, S):
    rule = "D2/T14-mode-dispatch"
    W, I = S.W, S.W.I
    fac = ctx.need(f"{M}:{DYN}")
    n_done = 0
    energy_sig = {}
    for mode in MODES:
        case = S.case(DYN, mode, None)
        if case.rejected is not None:
            ctx.proved(rule, fac, None, construct=f"{DYN}:{mode}", detail=f"mode rejected explicitly ({case.rejected})")
            n_done += 1
            continue
        if case.fns is None:
            ctx.undecided(rule, fac, None, construct=f"{DYN}:{mode}", detail=f"cannot build the factory: {case.error}")
            continue
        mc = material_closures(S, case)
        en = ENERGY["dyn"]
        if en not in mc or not isinstance(mc[en][0], dict):
            ctx.undecided(rule, fac, None, construct=f"{DYN}:{mode}", detail=f"cannot read the kinematics of {en}: {mc.get(en, ('it does not evaluate the material',))[0]}")
            continue
        n_done += 1
        energy_sig[mode] = mc[en]
        spec = {(e, q): {S.canon(W.grad_spec(mode, e, q))} for e in range(NE) for q in range(NQ)}
        what = "[[grad u, 0], [0, u_r/r]] (hoop strain from the interpolated radial displacement and radius)" if mode == "axisymmetric" else "[[grad u, 0], [0, 0]]"
        bad, und, tainted, seen = [], [], False, []
        for field, (got, ev) in mc.items():
            if not isinstance(got, dict):
                und.append(f"{field}: {got}")
                continue
            seen.append(field)
            wrong = sorted(p for p in got if got[p] != spec.get(p))
            if wrong or (field == en and len(got) != NE * NQ):
                bad.append((field, wrong))
                tainted = tainted or ev.tainted
        other = [m for m in MODES if m != mode]
        ran = sorted(q.split(":")[-1] for q in (case.visited | mc[en][1].visited) if q.startswith(M + ":") and "." not in q.split(":")[-1]
                     and q.split(":")[-1] != DYN)
        if bad:
            f0, w0 = bad[0]
            hoop = ""
            if mode == "axisymmetric":
                psp = {(e, q): {S.canon(W.grad_spec("plane strain", e, q))} for e in range(NE) for q in range(NQ)}
                if all(mc[f0][0].get(p) == psp.get(p) for p in mc[f0][0]):
                    hoop = " (it is the plane-strain gradient: no hoop strain)"
            decide(ctx, S, rule, False, tainted, fac, construct=f"{DYN}:{mode}",
                       bad_detail=f"{DYN}: with mode2D='{mode}' the displacement gradient handed to the material by {', '.join(f for f, _ in bad)} is not {what} "
                                  f"at quadrature points {w0[:3]}{hoop}"
                                  + ("; the axisymmetric idealisation needs the hoop strain (mass and volumes carry the 2 pi r weight)" if mode == "axisymmetric" else
                                     "; only the axisymmetric idealisation has an out-of-plane strain")
                                  + f"; functions executed for this mode: {', '.join(ran)}")
        elif und:
            ctx.undecided(rule, fac, None, construct=f"{DYN}:{mode}", detail=f"cannot read the kinematics of {'; '.join(und)[:300]}")
        else:
            ctx.proved(rule, fac, None, construct=f"{DYN}:{mode}", detail=f"'{mode}': the material receives {what} in {', '.join(seen)}")
    if n_done == 0:
        raise Incomplete("the dynamics factory could not be evaluated")
    # the statics factory interprets the option the same way
    st = ctx.repo.find(f"{M}:{STAT}")
    if st is None:
        return
    for mode in MODES:
        if mode not in energy_sig:
            continue
        sc = S.case(STAT, mode, None)
        if sc.rejected is not None:
            continue
        if sc.fns is None:
            ctx.undecided(rule, fac, None, construct=f"siblings:{STAT}~{DYN}:{mode}", detail=f"cannot build {STAT}: {sc.error}")
            continue
        got, ev = kinematics(S, sc, ENERGY["single"])
        if not isinstance(got, dict):
            ctx.undecided(rule, fac, None, construct=f"siblings:{STAT}~{DYN}:{mode}", detail=f"cannot read the kinematics of {STAT}: {got}")
            continue
        ref, rev = energy_sig[mode]
        decide(ctx, S, rule, got == ref, ev.tainted or rev.tainted, fac, construct=f"siblings:{STAT}~{DYN}:{mode}",
                   detail=f"'{mode}': same kinematics as the statics factory",
                   bad_detail=f"with mode2D='{mode}' {DYN} hands the material other displacement gradients than {STAT}: the sibling factories interpret the option differently")


def variants(repo):
    from .C15_variants import variants as v
    return v(repo)
