"""C15 -- Newmark stepping (formulas and momentum-balance wiring).

  D1  composing predict and correct with UCorrection = U_{n+1} - U_pred gives exactly the Newmark formulas
        U_{n+1} = U + dt V + dt^2 [(1/2 - beta) A + beta A_{n+1}],  V_{n+1} = V + dt [(1 - gamma) A + gamma A_{n+1}]
      as polynomial identities in U, V, A, A_{n+1}, dt, beta, gamma (symbolic execution of the two closures);
  D2  momentum-balance wiring: the inertia term of the algorithmic energy is the kinetic energy density
      1/2 rho v.v of (U - U_predicted), scaled by the same 1/(beta dt^2) as `correct` uses for the acceleration,
      so stationarity is f_int + M A_{n+1} = 0; the element Hessian uses the same factor; the factory feeds
      the same Newmark parameters to energy, Hessian, predictor and corrector.
Not decided: energy conservation over histories, exact rigid translation, mass sums (numerical).
"""
from __future__ import annotations

import ast

from optilint.cfg import cfg_of
from optilint.model import dotted, walk_local
from optilint.core import Incomplete
from optilint.expr import Algebra, NotPolynomial, Rat, Poly
from .common import src, expand, same, calls_in, actual

LEVEL = "proof"
RULE_TEXT = "obligations = polynomial identities obtained by symbolic execution of predict/correct + factor/field agreement of the inertia term"
EXPLANATION = ("Symbolic execution (exact rational normal forms) of the predictor and corrector closures of "
               "Mechanics.create_dynamics_functions and comparison with the Newmark update formulas; algebraic agreement of the "
               "inertia scaling between the algorithmic energy, the element Hessian and the corrector. Conservation "
               "properties of trajectories are not decided.")

M = "optimism.Mechanics"


def run(ctx):
    ctx.need_module(M)
    ctx.guard(d1, ctx)
    ctx.guard(d2, ctx)
    from .common import hook_agreement, mode_dispatch
    ctx.guard(hook_agreement, ctx, "D2/T6-one-gradient-transformation", f"{M}:create_dynamics_functions", min_sites=3)
    ctx.guard(mode_dispatch, ctx, "D2/T14-mode-dispatch", [f"{M}:parse_2D_to_3D_gradient_transformation", f"{M}:create_mechanics_functions"])
    ctx.trust("exact rational arithmetic; normal forms of multivariate rational functions")
    ctx.assume("dt > 0, beta > 0")


def symexec(fn_node, A: Algebra, env):
    """Straight-line symbolic execution: Assign / AugAssign / Return (tuple)."""
    env = dict(env)

    def low(e):
        a2 = Algebra(env={k: v for k, v in env.items()})
        a2.rules = A.rules
        return a2.lower(e)
    for st in fn_node.body:
        if isinstance(st, ast.Assign) and len(st.targets) == 1 and isinstance(st.targets[0], ast.Name):
            env[st.targets[0].id] = low(st.value)
        elif isinstance(st, ast.AugAssign) and isinstance(st.target, ast.Name):
            cur = env.get(st.target.id, A.atom(st.target.id))
            v = low(st.value)
            if isinstance(st.op, ast.Add):
                env[st.target.id] = A.norm(cur + v)
            elif isinstance(st.op, ast.Sub):
                env[st.target.id] = A.norm(cur - v)
            elif isinstance(st.op, ast.Mult):
                env[st.target.id] = A.norm(cur * v)
            else:
                raise NotPolynomial(src(st))
        elif isinstance(st, ast.Return):
            v = st.value
            if isinstance(v, ast.Tuple):
                return [low(e) for e in v.elts]
            return [low(v)]
        elif isinstance(st, ast.Expr) and isinstance(st.value, ast.Constant):
            continue
        else:
            raise NotPolynomial("statement not supported: " + src(st)[:60])
    raise NotPolynomial("no return")


def _closure(fac, name):
    for c in fac.children:
        if c.kind == "function" and c.name == name:
            return c
    return None


def d1(ctx):
    rule = "D1/T7-newmark-formulas"
    fac = ctx.need(f"{M}:create_dynamics_functions")
    pred, corr = _closure(fac, "predict"), _closure(fac, "correct")
    if pred is None or corr is None:
        raise Incomplete("predict/correct closures not found in create_dynamics_functions")
    ctx.touch(pred)
    ctx.touch(corr)
    npar = [p for p in fac.params() if "newmark" in p.lower()]
    if not npar:
        raise Incomplete("Newmark parameter object not found among the factory parameters")
    np_ = npar[0]
    A = Algebra()
    beta, gamma = A.atom("beta"), A.atom("gamma")
    base = {f"{np_}.beta": beta, f"{np_}.gamma": gamma}
    pu, pv, pa, pdt = pred.params()
    U, V, Ac, dt, A1 = A.atom("U"), A.atom("V"), A.atom("A"), A.atom("dt"), A.atom("A1")
    try:
        Up, Vp = symexec(pred.node, A, dict(base, **{pu: U, pv: V, pa: Ac, pdt: dt}))
    except (NotPolynomial, ValueError) as ex:
        ctx.undecided(rule, pred, None, construct="predict", detail=f"cannot execute symbolically: {ex}")
        return
    half = A.const(1) / A.const(2)
    U1 = A.norm(U + dt * V + dt * dt * ((half - beta) * Ac + beta * A1))
    V1 = A.norm(V + dt * ((A.const(1) - gamma) * Ac + gamma * A1))
    cu, cv, ca, cdt = corr.params()
    try:
        Vc, Acode = symexec(corr.node, A, dict(base, **{cu: A.norm(U1 - Up), cv: Vp, ca: Ac, cdt: dt}))
    except (NotPolynomial, ValueError) as ex:
        ctx.undecided(rule, corr, None, construct="correct", detail=f"cannot execute symbolically: {ex}")
        return
    ctx.decide(rule, A.equal(Acode, A1), corr, None, construct="acceleration-consistent-with-displacement-update",
               detail="correct(U_{n+1} - U_pred) returns A_{n+1} for U_{n+1} = U + dt V + dt^2[(1/2-beta)A + beta A_{n+1}]",
               bad_detail=f"with U_(n+1) from the Newmark displacement formula, correct() returns the acceleration {Acode!r} instead of A_(n+1): "
                          f"predictor/corrector do not realise U_(n+1) = U + dt V + dt^2[(1/2-beta)A + beta A_(n+1)]")
    ctx.decide(rule, A.equal(Vc, V1), corr, None, construct="velocity-update",
               detail="V_{n+1} = V + dt[(1-gamma)A + gamma A_{n+1}]",
               bad_detail=f"predict+correct give V_(n+1) = {Vc!r}, but the Newmark formula is {V1!r}")
    # (return order is positional in the symbolic results above: element 0/1 of predict are U_pred/V_pred, of correct V/A)
    # the factory exposes them in the predict / correct slots of DynamicsFunctions
    cls = ctx.need(f"{M}:DynamicsFunctions")
    fields = [st.target.id for st in cls.node.body if isinstance(st, ast.AnnAssign) and isinstance(st.target, ast.Name)]
    for r in fac.returns():
        if isinstance(r, ast.Call) and src(r.func) == "DynamicsFunctions":
            args = [src(a) for a in r.args]
            for want, fname in (("predict", "predict"), ("correct", "correct")):
                if fname in fields and len(args) == len(fields):
                    got = args[fields.index(fname)]
                    ok = got in (want, f"jit({want})")
                    ctx.decide(rule, ok, fac, r, construct=f"slot:{fname}", detail=f"{fname} <- {got}",
                               bad_detail=f"DynamicsFunctions.{fname} is filled with `{got}`")


def d2(ctx):
    rule = "D2/T7-inertia-wiring"
    lag = ctx.need(f"{M}:compute_newmark_lagrangian")
    hes = ctx.need(f"{M}:_compute_newmark_element_hessians")
    ked = ctx.need(f"{M}:kinetic_energy_density")
    fac = ctx.need(f"{M}:create_dynamics_functions")
    corr = _closure(fac, "correct")
    # kinetic density = 1/2 rho <V,V>
    vn, rho = ked.params()
    A = Algebra(vector_atoms={vn})
    r = ked.returns()
    try:
        got = A.lower(r[0])
        want = A.norm(A.const(1) / A.const(2) * A.atom(rho) * A.atom(f"<{vn},{vn}>"))
        ok = A.equal(got, want)
    except (NotPolynomial, IndexError):
        ok = None
    ctx.decide(rule, ok, ked, r[0] if r else None, construct="kinetic-density", detail="1/2 rho v.v",
               bad_detail=f"kinetic energy density is `{src(r[0]) if r else '?'}`, not 1/2*density*dot(V,V)")
    # energy: KE integrated over (U - UPredicted), then scaled
    cfg = cfg_of(lag)
    lp = lag.params()
    Un, Upn, dtn, bn = lp[1], lp[2], lp[5], lp[6]
    B = Algebra()
    ke_nodes = [n for n in cfg.nodes if n.kind == "stmt" and isinstance(n.ast, ast.Assign) and "integrate_over_block" in src(n.ast)
                and any("kinetic_energy_density" in src(d.ast) for d in cfg.reaching(n, "lagrangian_density") if d.ast is not None)]
    if len(ke_nodes) != 1:
        ctx.undecided(rule, lag, None, construct="kinetic-term", detail=f"{len(ke_nodes)} kinetic integrals found")
        return
    ken = ke_nodes[0]
    kname = ken.ast.targets[0].id
    call = ken.ast.value
    iob = ctx.need("optimism.FunctionSpace:integrate_over_block")
    fld = actual(call, iob.params(), "U")
    ok = same(fld, f"{Un} - {Upn}")
    ctx.decide(rule, ok, lag, call, construct="kinetic-field", detail=f"kinetic energy of {src(fld)}",
               bad_detail=f"the inertia term integrates the kinetic density of `{src(fld)}`, not of {Un} - {Upn}")
    scal = [n for n in cfg.nodes if n.kind == "stmt" and isinstance(n.ast, ast.AugAssign) and isinstance(n.ast.target, ast.Name)
            and n.ast.target.id == kname and isinstance(n.ast.op, ast.Mult)]
    if len(scal) != 1:
        ctx.undecided(rule, lag, None, construct="inertia-factor", detail=f"{len(scal)} scalings of the kinetic term")
        return
    try:
        f_energy = B.lower(scal[0].ast.value)
        want = B.norm(B.const(1) / (B.atom(bn) * B.atom(dtn) * B.atom(dtn)))
        ok = B.equal(f_energy, want)
    except NotPolynomial:
        ok = None
        f_energy = None
    ctx.decide(rule, ok, lag, scal[0].ast, construct="inertia-factor-energy", detail="KE scaled by 1/(beta dt^2)",
               bad_detail=f"kinetic term is scaled by {f_energy!r}, not 1/({bn}*{dtn}^2)")
    # returned energy = SE + KE (unweighted sum)
    rets = lag.returns()
    okr = len(rets) == 1 and isinstance(rets[0], ast.BinOp) and isinstance(rets[0].op, ast.Add) and \
        kname in (src(rets[0].left), src(rets[0].right))
    ctx.decide(rule, okr, lag, rets[0] if rets else None, construct="energy-sum", detail="algorithmic energy = strain + scaled kinetic",
               bad_detail=f"algorithmic energy returns `{src(rets[0]) if rets else '?'}`")
    # corrector factor
    if corr is not None:
        cu, cv, ca, cdt = corr.params()
        np_ = [p for p in fac.params() if "newmark" in p.lower()][0]
        C = Algebra()
        try:
            _, Acode = symexec(corr.node, C, {f"{np_}.beta": C.atom(bn), f"{np_}.gamma": C.atom("gamma"), cu: C.atom("W"), cv: C.atom("V"),
                                              ca: C.atom("A"), cdt: C.atom(dtn)})
            ok = C.equal(Acode, C.norm(C.atom("W") / (C.atom(bn) * C.atom(dtn) * C.atom(dtn))))
        except (NotPolynomial, ValueError):
            ok = None
            Acode = None
        ctx.decide(rule, ok, corr, None, construct="inertia-factor-corrector",
                   detail="A_{n+1} = (U - U_pred)/(beta dt^2): same factor as the inertia term, so d(energy)/dU = f_int + M A_{n+1}",
                   bad_detail=f"corrector computes the acceleration as {Acode!r}; the inertia term of the energy uses 1/({bn}*{dtn}^2): "
                              f"the minimiser would not satisfy f_int + M A_(n+1) = 0")
    # Hessian density factor
    hd = [c for c in hes.children if c.kind == "function"]
    okh = None
    shown = "?"
    if hd:
        dens = hd[0]
        W, gW, Q, X, dtime = dens.params()[:5]
        rr = dens.returns()
        if rr:
            terms = []

            def flat(x):
                if isinstance(x, ast.BinOp) and isinstance(x.op, ast.Add):
                    flat(x.left)
                    flat(x.right)
                else:
                    terms.append(x)
            flat(rr[0])
            kin = [t for t in terms if "kinetic_energy_density" in src(t)]
            if len(kin) == 1:
                D = Algebra()
                try:
                    val = D.lower(kin[0])
                    katom = [a for a in val.atoms() if a.startswith("kinetic_energy_density")]
                    want = D.norm(D.atom(katom[0]) / (D.atom(hes.params()[6]) * D.atom(dtime) * D.atom(dtime))) if katom else None
                    okh = want is not None and D.equal(val, want)
                    shown = repr(val)
                except NotPolynomial:
                    okh = None
        # dtime is bound to the dt argument at the kernel call
        ctx.decide(rule, okh, hes, rr[0] if hd and rr else None, construct="inertia-factor-hessian",
                   detail="Hessian density: kinetic/(beta dt^2) + strain", bad_detail=f"Hessian density scales the kinetic term as {shown}")
    # factory wiring: same parameter object
    np_ = [p for p in fac.params() if "newmark" in p.lower()][0]
    for cname, callee, pname in (("compute_algorithmic_energy", "compute_newmark_lagrangian", "newmarkBeta"),
                                 ("compute_element_hessians", "_compute_newmark_element_hessians", "newmarkBeta")):
        cl = _closure(fac, cname)
        tgt = ctx.need(f"{M}:{callee}")
        ok = False
        got = "?"
        if cl is not None:
            for c in calls_in(cl):
                if (dotted(c.func) or "").endswith(callee):
                    a = actual(c, tgt.params(), pname)
                    got = src(a)
                    ok = got == f"{np_}.beta"
                    d_ = actual(c, tgt.params(), "dt")
                    ok = ok and isinstance(d_, ast.Name) and d_.id in cl.params()
        ctx.decide(rule, ok, fac, None, construct=f"wiring:{cname}", detail=f"{callee}(..., newmarkBeta={got}, dt=<closure dt>)",
                   bad_detail=f"{cname} passes newmarkBeta={got} to {callee}; predictor/corrector use {np_}.beta")


def variants(repo):
    from optilint.selftest import Variant, sub, sub_in_func, alpha_rename, reformat
    P = "optimism/Mechanics.py"
    return [
        Variant("algorithmic energy with the unprojected transformation", "optimism/Mechanics.py",
                sub_in_func("create_dynamics_functions", "    modify_element_gradient = define_pressure_projection_gradient_tranformation(functionSpace, pressureProjectionDegree, modify_element_gradient)",
                            "    grad_2D_to_3D = modify_element_gradient\n    modify_element_gradient = define_pressure_projection_gradient_tranformation(functionSpace, pressureProjectionDegree, modify_element_gradient)\n    _unused = grad_2D_to_3D"), None),
        Variant("dynamics: axisymmetric mode selects the plane-strain transformation", "optimism/Mechanics.py",
                sub("        grad_2D_to_3D = axisymmetric_element_gradient_transformation\n    else:\n        raise ValueError", "        grad_2D_to_3D = plane_strain_gradient_transformation\n    else:\n        raise ValueError"), "D2/T14-mode-dispatch"),
        Variant("(1-2beta) -> (1-beta)", P, sub("0.5*dt*dt*(1.0 - 2.0*newmarkParameters.beta)*A", "0.5*dt*dt*(1.0 - newmarkParameters.beta)*A"), "D1/T7-newmark-formulas"),
        Variant("gamma <-> beta in correct", P, sub("        V += dt*newmarkParameters.gamma*A", "        V += dt*newmarkParameters.beta*A"), "D1/T7-newmark-formulas"),
        Variant("predictor velocity with gamma", P, sub("        V += dt*(1.0 - newmarkParameters.gamma)*A", "        V += dt*newmarkParameters.gamma*A"), "D1/T7-newmark-formulas"),
        Variant("corrector 1/(beta dt)", P, sub("        A = UCorrection/(newmarkParameters.beta*dt*dt)", "        A = UCorrection/(newmarkParameters.beta*dt)"), "D1/T7-newmark-formulas"),
        Variant("inertia factor 1/(beta dt)", P, sub("    KE *= 1 / (newmarkBeta*dt**2)", "    KE *= 1 / (newmarkBeta*dt)"), "D2/T7-inertia-wiring"),
        Variant("inertia of U only", P, sub_in_func("compute_newmark_lagrangian", "integrate_over_block(functionSpace, U - UPredicted, internals, dt,", "integrate_over_block(functionSpace, U, internals, dt,"), "D2/T7-inertia-wiring"),
        Variant("kinetic density without 1/2", P, sub("    return 0.5*density*np.dot(V, V)", "    return density*np.dot(V, V)"), "D2/T7-inertia-wiring"),
        Variant("hessian inertia factor", P, sub("kinetic_energy_density(W, density)/(newmarkBeta*dtime**2)", "kinetic_energy_density(W, density)/(newmarkBeta*dtime)"), "D2/T7-inertia-wiring"),
        Variant("energy gets gamma", P, sub_in_func("create_dynamics_functions", "materialModel.density, dt, newmarkParameters.beta,\n                                          materialModel.compute_energy_density,",
                                                   "materialModel.density, dt, newmarkParameters.gamma,\n                                          materialModel.compute_energy_density,"), "D2/T7-inertia-wiring"),
        Variant("reformat", P, reformat(), None),
        Variant("rename corrector local", P, sub("        A = UCorrection/(newmarkParameters.beta*dt*dt)\n        V += dt*newmarkParameters.gamma*A\n        return V, A",
                                               "        ANew = UCorrection/(newmarkParameters.beta*dt*dt)\n        V += dt*newmarkParameters.gamma*ANew\n        return V, ANew"), None),
        Variant("equivalent predictor form", P, sub("0.5*dt*dt*(1.0 - 2.0*newmarkParameters.beta)*A", "dt*dt*(0.5 - newmarkParameters.beta)*A"), None),
        Variant("equivalent inertia factor", P, sub("    KE *= 1 / (newmarkBeta*dt**2)", "    KE *= 1.0 / (dt*dt*newmarkBeta)"), None),
    ]
