"""C13 -- mesh merging, reading and order elevation keep meshes valid.

Every clause is decided on *results*: the library functions are interpreted (rules/C03_interp.MeshInterp: exact symbolic arrays of concrete
shape; the library is never imported or run) on small sample inputs whose index data is concrete and whose coordinates / members are
symbols, and what comes out is compared with the specification.  The organisation of the code (loops, comprehensions, helpers, closures,
in-place buffers, `_replace`, dict idioms, guard clauses, table lookups ...) does not enter.

  D1  merging loses nothing: combine_nodesets / combine_sidesets / combine_blocks on dictionaries with equal and distinct names, absent
      (None) and empty sets: every member of either source is in the result (lossless-merge); members of the second source are shifted by
      the offset, side numbers and the first source are not (index-kinds).  combine_mesh on two meshes whose node and element counts
      differ: coordinates / fields first-mesh-first, connectivity + node count, node sets + node count, side sets and blocks + element count;
  D2  readers (rules/C13_io.py): read_exodus_mesh on fake Exodus files (three blocks, named and unnamed sets, with / without id map; a
      6-node file): every index record (connect*, node_ns*, elem_ss*, side_ss*) arrives zero-based exactly once, coordinates and id maps
      unshifted, blocks = consecutive element ranges in file order, nothing lost; the native 6-node order is derived from the parent
      element's own vertex / face tables at degree 2; vertex set = the first three Exodus columns; read_json_mesh keeps everything;
  D3  order elevation and edge extraction (rules/C03_mesh.py): on sample meshes with symbolic vertex coordinates the elevated mesh has
      in-range connectivity using every node, keeps the vertex numbering, places node k of every element at the affine image of the
      reference node k (=> neighbours share edge nodes in matching order; same map as FunctionSpace's Jacobian), has no duplicate nodes
      and carries the parent elements of the target order; create_edges lists each edge once with correct left / right adjacency;
      parent-element tables (rules/parentelem.py).
Not decided: positive areas of generated meshes, geometric validity of arbitrary input files.
"""
from __future__ import annotations

import ast

from optilint.core import Incomplete

LEVEL = "other"
RULE_TEXT = ("obligations = (merge function x scenario x {no member lost, offset kind}) + (merged mesh field x specification) + (Exodus record x "
             "arrives zero-based once) + (block x consecutive range) + (6-node slot x parent-element table) + (sample mesh x order x "
             "{range, vertices, affine image of edge / interior nodes, duplicates})")
EXPLANATION = ("Symbolic interpretation of Mesh.py, ReadExodusMesh.py, ReadMesh.py, Interpolants.py on sample inputs (concrete index data, symbolic "
               "coordinates and members, fake Exodus / JSON files); results compared with the specification of lossless merging, one-based to "
               "zero-based conversion, consecutive block ranges, parent-element tables and affine placement of elevated nodes. "
               "Geometric validity of arbitrary produced meshes is not decided.")

ME = "optimism.Mesh"
RX = "optimism.ReadExodusMesh"
IP = "optimism.Interpolants"


def run(ctx):
    for m in (ME, RX, IP, "optimism.ReadMesh", "optimism.FunctionSpace"):
        ctx.need_module(m)
    ctx.guard(d1_lossless, ctx)
    ctx.guard(d1_kinds, ctx)
    ctx.guard(d2_exodus, ctx)
    ctx.guard(d2_json, ctx)
    ctx.guard(d3_elevation, ctx)
    ctx.guard(d3_edges, ctx)
    from . import parentelem
    ctx.guard(parentelem.run, ctx, "D3/T6-parent-element-tables")
    ctx.trust("Exodus II stores node/element/side numbers one-based; TRI6 = 3 vertices then mid-side nodes 3:(0,1) 4:(1,2) 5:(2,0)")
    ctx.assume("meshes have at least one block; sets are dicts name -> index array")


# ------------------------------------------------------------------ D1
# Decided on results: the merge functions are interpreted (rules/C03_interp.MeshInterp) on dictionaries of symbolic index arrays and on
# two small meshes; what comes out is compared with "every member of either source is present, members of the second source shifted by
# the offset of their index kind, nothing else shifted".

from optilint.tensoreval import Dual, Arr, EvalError, Raised, Unknown, Record, _A
from .C03_interp import fresh_interp, int_arr, ints_of, const_of, rows_of
from . import C03_mesh as CM
from .C03_mesh import ERRS, eq


def _fnv(I, qual):
    m, _, f = qual.partition(":")
    return I.module_value(I.repo.modules[m], f)


def _sym_ids(prefix, n):
    return Arr([Dual(_A.atom(f"{prefix}{i}")) for i in range(n)], (n,))


def _sym_sides(prefix, n):
    return Arr([Dual(_A.atom(f"{prefix}{i}{c}")) for i in range(n) for c in ("e", "s")], (n, 2))


def _key_of(x):
    return repr(x.a)


def _members(v, width):
    """multiset of the members of an index array: rows (tuples of canonical texts) for width 2, entries for width 1"""
    if isinstance(v, Unknown):
        raise EvalError(f"merged entry not evaluated: {v.why[:100]}")
    if isinstance(v, (list, tuple)):
        v = Arr.from_nested(list(v)) if len(v) else Arr([], (0,))
    if not isinstance(v, Arr):
        raise EvalError(f"merged entry is {v!r}")
    if v.size() == 0:
        return []
    if width == 1:
        return sorted(_key_of(x) for x in v.data)
    if v.ndim != 2 or v.shape[1] != width:
        raise EvalError(f"merged entry has shape {v.shape}")
    return sorted(tuple(_key_of(x) for x in r.data) for r in rows_of(v))


def _zero_off(v, off_atom):
    """the same array with the offset symbol set to zero (membership modulo shifting)"""
    if not isinstance(v, Arr):
        return v
    return Arr([Dual(_A.subst(x.a, off_atom, _A.const(0))) for x in v.data], v.shape)


def _merge_scenarios(kind):
    """(label, set1, set2) with symbolic members; kind: 'nodes' (1-d, None allowed), 'sides' ((k,2), empty = shape (0,), None allowed), 'blocks'"""
    mk = _sym_sides if kind == "sides" else _sym_ids
    empty = lambda: Arr([], (0,))
    sc = [
        ("same name in both", {"a": mk("p", 2), "b": mk("q", 1)}, {"a": mk("r", 2), "c": mk("t", 1)}),
        ("distinct names", {"a": mk("p", 2)}, {"c": mk("t", 2)}),
    ]
    if kind != "blocks":
        sc += [("first is None", None, {"c": mk("t", 2)}), ("second is None", {"a": mk("p", 2)}, None)]
    if kind == "sides":
        sc += [("same name, second empty", {"a": mk("p", 2)}, {"a": empty()}),
               ("same name, first empty", {"a": empty()}, {"a": mk("r", 2)}),
               ("new name, empty", {"a": mk("p", 1)}, {"c": empty()})]
    return sc


def d1_lossless(ctx):
    rule = "D1/T9-lossless-merge"
    rule_k = "D1/T9-index-kinds"
    off = Dual(_A.atom("OFFSET"))
    n_done = 0
    for fname, kind in (("combine_nodesets", "nodes"), ("combine_sidesets", "sides"), ("combine_blocks", "blocks")):
        sc = ctx.need(f"{ME}:{fname}")
        width = 2 if kind == "sides" else 1
        for label, s1, s2 in _merge_scenarios(kind):
            cons = f"{fname}[{label}]"
            try:
                I = fresh_interp(ctx.repo, lobatto=False)
                got = I.call(_fnv(I, f"{ME}:{fname}"), [s1, s2, off], {})
                if not isinstance(got, dict):
                    raise EvalError(f"result is {got!r}")
                want_keys = list(dict.fromkeys(list(s1 or {}) + list(s2 or {})))
                lost = shifted = None
                for k in want_keys:
                    a = (s1 or {}).get(k)
                    b = (s2 or {}).get(k)
                    if k not in got:
                        if (a is None or a.size() == 0) and (b is None or b.size() == 0):
                            continue        # an empty set that is dropped loses no member
                        lost = lost or f"set '{k}' is missing from the merged collection"
                        continue
                    if kind == "sides" and b is not None and b.size():
                        b_sh = Arr([x + off if i % 2 == 0 else x for i, x in enumerate(b.data)], b.shape)
                    elif b is not None and b.size():
                        b_sh = b.map(lambda x: x + off)
                    else:
                        b_sh = b
                    want_exact = (_members(a, width) if a is not None else []) + (_members(b_sh, width) if b_sh is not None else [])
                    want_mod = (_members(a, width) if a is not None else []) + (_members(b, width) if b is not None else [])
                    g = got[k]
                    got_mod = _members(_zero_off(g, "OFFSET"), width)
                    if sorted(got_mod) != sorted(want_mod):
                        missing = [m for m in want_mod if m not in got_mod]
                        lost = lost or (f"set '{k}': merged members {got_mod}, sources hold {sorted(want_mod)}" +
                                        (f" -- {missing} lost" if missing else " -- members duplicated or invented"))
                    elif sorted(_members(g, width)) != sorted(want_exact):
                        shifted = shifted or f"set '{k}': merged members {_members(g, width)}; expected {sorted(want_exact)}"
                extra = [k for k in got if k not in want_keys]
                if extra:
                    lost = lost or f"merged collection has sets {extra} that neither source has"
            except ERRS as ex:
                ctx.undecided(rule, sc, None, construct=cons, detail=f"cannot interpret: {type(ex).__name__}: {str(ex)[:240]}")
                continue
            n_done += 1
            ctx.decide(rule, lost is None, sc, None, construct=f"{cons}:no-member-lost",
                       detail="every member of either source is in the merged set (and nothing else)",
                       bad_detail=f"{fname}, {label}: {lost}: when both meshes have a set named alike (or one side is empty / absent) members are lost")
            if lost is None:
                what = "column 0 (element id) of the second source shifted by the offset, local side numbers unchanged" if kind == "sides" else \
                    "second source shifted by the offset, first source unshifted"
                ctx.decide(rule_k, shifted is None, sc, None, construct=f"{cons}:offset-applied-to-second-source-only",
                           detail=what, bad_detail=f"{fname}, {label}: {shifted}; required: {what}")
    if n_done < 6:
        raise Incomplete(f"{n_done} merge scenarios interpreted")


def d1_kinds(ctx):
    """combine_mesh on two small meshes with different node and element counts: every field of the result against the specification."""
    rule = "D1/T9-index-kinds"
    cm = ctx.need(f"{ME}:combine_mesh")
    try:
        I = fresh_interp(ctx.repo)
        pe, pe1 = CM.parent_elements(I, 1, False)
        X1, X2 = CM.sym_coords(5, "A"), CM.sym_coords(4, "B")
        T1 = [(0, 1, 2), (2, 3, 0), (4, 0, 3)]      # 5 nodes, 3 elements: node and element counts differ
        T2 = [(0, 1, 2), (1, 3, 2)]
        c1 = Arr([Dual(v) for t in T1 for v in t], (3, 3))
        c2 = Arr([Dual(v) for t in T2 for v in t], (2, 3))
        m1 = CM.make_mesh(I, X1, c1, pe, pe1, blocks={"blk": int_arr([0, 1, 2])}, nodeSets={"ns": int_arr([0, 4]), "only1": int_arr([1])},
                          sideSets={"ss": Arr([Dual(v) for v in (0, 0, 2, 1)], (2, 2))})
        m2 = CM.make_mesh(I, X2, c2, pe, pe1, blocks={"blk": int_arr([0]), "other": int_arr([1])}, nodeSets={"ns": int_arr([3]), "only2": int_arr([0, 2])},
                          sideSets={"ss": Arr([Dual(v) for v in (1, 2)], (1, 2)), "ss2": Arr([Dual(v) for v in (0, 1)], (1, 2))})
        d1, d2 = CM.sym_coords(5, "dA"), CM.sym_coords(4, "dB")
        res = I.call(_fnv(I, f"{ME}:combine_mesh"), [(m1, d1), (m2, d2)], {})
        for q in I.visited:
            s_ = ctx.repo.find(q)
            if s_ is not None and s_.module.name == ME:
                ctx.touch(s_)
        mesh, disp = res
        if not isinstance(mesh, Record):
            raise EvalError(f"result is {mesh!r}")
    except ERRS as ex:
        ctx.undecided(rule, cm, None, construct="combine_mesh", detail=f"cannot interpret: {type(ex).__name__}: {str(ex)[:240]}")
        return
    nN1, nE1 = 5, 3

    def arr_eq(got, want):
        if isinstance(got, Unknown):
            raise EvalError(f"not evaluated: {got.why[:100]}")
        return isinstance(got, Arr) and tuple(got.shape) == tuple(want.shape) and all(eq(a, b) for a, b in zip(got.data, want.data))

    def cat(a, b):
        return Arr(list(a.data) + list(b.data), (a.shape[0] + b.shape[0],) + tuple(a.shape[1:]))

    def sets_ok(got, want, width):
        if isinstance(got, Unknown):
            raise EvalError(f"not evaluated: {got.why[:100]}")
        if got is not None and not isinstance(got, dict):
            raise EvalError(f"collection is {got!r}")
        if not isinstance(got, dict) or sorted(got) != sorted(want):
            return f"sets {sorted(got) if isinstance(got, dict) else got!r}, expected {sorted(want)}"
        for k in want:
            g = _members(got[k], width)
            if g != sorted(want[k]):
                return f"set '{k}' = {g}, expected {sorted(want[k])}"
        return None

    def S(vals):
        return sorted(repr(Dual(v).a) for v in vals)

    def S2(rows):
        return sorted(tuple(repr(Dual(v).a) for v in r) for r in rows)
    checks = [
        ("coords:first-mesh-first", lambda: None if arr_eq(mesh.get("coords"), cat(X1, X2)) else "coordinates are not (first mesh, second mesh) stacked in this order",
         "coordinates of the first mesh, then of the second"),
        ("conns:second-mesh-shifted-by-node-count",
         lambda: None if arr_eq(mesh.get("conns"), cat(c1, c2.map(lambda x: x + Dual(nN1)))) else
         f"connectivity is {ints_of(mesh.get('conns')) if isinstance(mesh.get('conns'), Arr) and all(const_of(x) is not None for x in mesh.get('conns').data) else mesh.get('conns')!r}; "
         f"expected the first mesh's rows, then the second mesh's rows + {nN1} (node count of the first mesh)",
         "second mesh's node ids shifted by the first mesh's node count"),
        ("disp:first-mesh-first", lambda: None if arr_eq(disp, cat(d1, d2)) else "nodal field is not (first, second) stacked in node order", "nodal fields stacked like the coordinates"),
        ("combine_nodesets:offset-kind", lambda: sets_ok(mesh.get("nodeSets"), {"ns": S([0, 4, 3 + nN1]), "only1": S([1]), "only2": S([0 + nN1, 2 + nN1])}, 1),
         "node sets: second mesh's members + node count of the first mesh"),
        ("combine_sidesets:offset-kind", lambda: sets_ok(mesh.get("sideSets"), {"ss": S2([(0, 0), (2, 1), (1 + nE1, 2)]), "ss2": S2([(0 + nE1, 1)])}, 2),
         "side sets: element id + element count of the first mesh, local side unchanged"),
        ("combine_blocks:offset-kind", lambda: sets_ok(mesh.get("blocks"), {"blk": S([0, 1, 2, 0 + nE1]), "other": S([1 + nE1])}, 1),
         "blocks: second mesh's element ids + element count of the first mesh"),
        ("simplex-nodes", lambda: None if arr_eq(mesh.get("simplexNodesOrdinals"), int_arr(range(9))) else "simplexNodesOrdinals is not 0..nNodes-1 of the merged mesh",
         "all nodes of the merged linear mesh are vertices"),
    ]
    for cons, fn, detail in checks:
        try:
            bad = fn()
        except ERRS as ex:
            ctx.undecided(rule, cm, None, construct=cons, detail=f"{type(ex).__name__}: {str(ex)[:200]}")
            continue
        ctx.decide(rule, bad is None, cm, None, construct=cons, detail=detail,
                   bad_detail=f"combine_mesh (first mesh: {nN1} nodes / {nE1} elements): {bad}; required: {detail}")


# ------------------------------------------------------------------ D2
# Decided on results: the readers are interpreted on fake files (rules/C13_io.py).

def d2_exodus(ctx):
    from . import C13_io
    C13_io.exodus_rules(ctx)


def d2_json(ctx):
    from . import C13_io
    C13_io.json_rules(ctx)


# ------------------------------------------------------------------ D3

def d3_elevation(ctx):
    """Decided on the *result* of the order elevation interpreted on sample meshes with symbolic vertex coordinates (rules/C03_mesh.py):
    node ranges, shared edge nodes in matching order, affine placement with the vertex convention of the parent element, no duplicate or
    unused nodes.  Independent of how the routine is cut into loops / helpers / closures."""
    from . import C03_mesh
    C03_mesh.elevation(ctx, "D3/T6-order-elevation")


def d3_edges(ctx):
    from . import C03_mesh
    C03_mesh.edge_extraction(ctx, "D3/T6-edge-extraction")


def variants(repo):
    from optilint.selftest import Variant, sub, sub_in_func, alpha_rename, reformat
    M = "optimism/Mesh.py"
    R = "optimism/ReadExodusMesh.py"
    return [
        Variant("empty second side set replaces the first", "optimism/Mesh.py", sub("            elif key in newSet and len(val)==0:\n                val = newSet[key]\n", ""), "D1/T9-lossless-merge"),
        Variant("node sets merged only when missing", "optimism/Mesh.py", sub("            newSet[key] = np.hstack((newSet[key], val)) if key in newSet else val\n    return newSet\n\n\ndef combine_sidesets", "            newSet[key] = val if key in newSet else val\n    return newSet\n\n\ndef combine_sidesets"), "D1/T9-lossless-merge"),
        Variant("bubble face 2 listed forwards", "optimism/Interpolants.py", sub("    kk = onp.array([i for i in reversed(range(degree + 1, nNodesFromBase, 2))] + [0])", "    kk = onp.array([nNodesFromBase - 1] + [i for i in range(degree + 1, nNodesFromBase - 1, 2)] + [0])"), "D3/T6-parent-element-tables"),
        Variant("bubble face 1 copied from plain element", "optimism/Interpolants.py", sub("    jj = onp.array([i for i in range(degree, 3*degree, 2)] + [nNodesFromBase - 1])", "    jj = onp.cumsum(onp.flip(ii)) + ii"), "D3/T6-parent-element-tables"),
        Variant("plain face 2 not reversed", "optimism/Interpolants.py", sub("    kk = onp.flip(jj) - ii", "    kk = jj - onp.flip(ii)"), "D3/T6-parent-element-tables"),
        Variant("vertex list misses the last node", "optimism/Interpolants.py", sub("    vertexPoints = np.array([0, degree, nPoints - 1], dtype=np.int32)", "    vertexPoints = np.array([0, degree, nPoints - 2], dtype=np.int32)"), "D3/T6-parent-element-tables"),
        Variant("nodal x/y formulas exchanged", "optimism/Interpolants.py", sub("            points[point, 0] = (1.0 + 2.0*lobattoPoints[k] - lobattoPoints[j] - lobattoPoints[i])/3.0", "            points[point, 0] = (1.0 + 2.0*lobattoPoints[j] - lobattoPoints[k] - lobattoPoints[i])/3.0"), "D3/T6-parent-element-tables"),
        Variant("alpha-rename bubble element", "optimism/Interpolants.py", alpha_rename("make_parent_element_2d_with_bubble"), None),
        Variant("overwrite on merge (blocks)", M, sub_in_func("combine_blocks", "        newSet[key] = np.hstack((newSet[key], val)) if key in newSet else val", "        newSet[key] = val"), "D1/T9-lossless-merge"),
        Variant("overwrite on merge (nodesets)", M, sub_in_func("combine_nodesets", "            newSet[key] = np.hstack((newSet[key], val)) if key in newSet else val", "            newSet[key] = val"), "D1/T9-lossless-merge"),
        Variant("node offset on side sets", M, sub_in_func("combine_mesh", "combine_sidesets(mesh1.sideSets, mesh2.sideSets, numElems1)", "combine_sidesets(mesh1.sideSets, mesh2.sideSets, numNodes1)"), "D1/T9-index-kinds"),
        Variant("shift both side-set columns", M, sub_in_func("combine_sidesets", "val.at[:,0].add(elemOffset)", "val.at[:,:].add(elemOffset)"), "D1/T9-index-kinds"),
        Variant("conns not shifted", M, sub_in_func("combine_mesh", "mesh2.conns+numNodes1", "mesh2.conns+numElems1"), "D1/T9-index-kinds"),
        Variant("forget -1 for side_ss", R, sub("            sideSetSides = np.array(record[:] - 1)", "            sideSetSides = np.array(record[:])"), "D2/T5-one-based-records"),
        Variant("double -1 for node sets", R, sub("            nodeSetNodes.append(record[:] - 1)", "            nodeSetNodes.append(record[:] - 1 - 1)"), "D2/T5-one-based-records"),
        Variant("coords shifted", R, sub("    coordsX = exodusDataset.variables['coordx'][:]", "    coordsX = exodusDataset.variables['coordx'][:] - 1"), "D2/T5-one-based-records"),
        Variant("block offset overwritten", R, sub_in_func("_read_blocks", "        firstElemInBlock += nElemsInBlock", "        firstElemInBlock = nElemsInBlock"), "D2/T4-block-ranges-accumulate"),
        Variant("permutation edited", R, sub("np.array([0, 3, 1, 5, 4, 2])", "np.array([0, 3, 1, 4, 5, 2])"), "D2/T5-tri6-permutation"),
        Variant("permutation swaps vertices", R, sub("np.array([0, 3, 1, 5, 4, 2])", "np.array([1, 3, 0, 5, 4, 2])"), "D2/T5-tri6-permutation"),
        Variant("vertices after permutation", R, sub("            simplexNodesOrdinals = _get_vertex_nodes_from_exodus_tri6_mesh(conns)\n            conns = conns[:, exodusToNativeTri6NodeOrder]",
                                                   "            conns = conns[:, exodusToNativeTri6NodeOrder]\n            simplexNodesOrdinals = _get_vertex_nodes_from_exodus_tri6_mesh(conns)"), "D2/T5-tri6-permutation"),
        Variant("remove flip", M, sub("set(np.flip(edgeNodeOrdinals))", "set(edgeNodeOrdinals)"), "D3/T6-order-elevation"),
        Variant("interior convention", M, sub("        N0 = basis.coordinates[basis.interiorNodes,0]\n        N1 = basis.coordinates[basis.interiorNodes,1]\n        N2 = 1.0 - N0 - N1",
                                            "        N1 = basis.coordinates[basis.interiorNodes,0]\n        N2 = basis.coordinates[basis.interiorNodes,1]\n        N0 = 1.0 - N1 - N2"), "D3/T6-order-elevation"),
        Variant("interior offset", M, sub("    nodeOrdinalOffset += nEdges*nNodesPerEdge", "    nodeOrdinalOffset += nEdges"), "D3/T6-order-elevation"),
        Variant("edge numbering overlap", M, sub("np.arange(e*nNodesPerEdge,(e+1)*nNodesPerEdge)", "np.arange(e,e+nNodesPerEdge)"), "D3/T6-order-elevation"),
        # --- further breaking edits
        Variant("right-neighbour store unguarded", M, sub("        if elemRight >= 0:", "        if True:"), "D3/T6-order-elevation"),
        Variant("edge node weights exchanged", M, sub("    A = np.column_stack((1.0-parentElement1d.coordinates[parentElement1d.interiorNodes],\n                         parentElement1d.coordinates[parentElement1d.interiorNodes]))",
                                                    "    A = np.column_stack((parentElement1d.coordinates[parentElement1d.interiorNodes],\n                         1.0-parentElement1d.coordinates[parentElement1d.interiorNodes]))"), "D3/T6-order-elevation"),
        Variant("blocks merged unshifted", M, sub_in_func("combine_blocks", "        val = set2[key] + elemOffset", "        val = set2[key]"), "D1/T9-index-kinds"),
        Variant("right side of an edge miscounted", M, sub("            edges[i, 3] = j // nTris", "            edges[i, 3] = j % 3"), "D3/T6-edge-extraction"),
        Variant("default element map zero-based", R, sub("        elementMap = onp.arange(1, nEle)", "        elementMap = onp.arange(0, nEle - 1)"), "D2/T4-block-ranges-accumulate"),
        Variant("json side set columns exchanged", "optimism/ReadMesh.py", sub("        sideSets[key] = np.column_stack((elements, sides))", "        sideSets[key] = np.column_stack((sides, elements))"), "D2/T5-json-reader"),
        Variant("elevated mesh keeps the linear parent element", M, sub("    newMesh = Mesh(coords, conns, simplexNodesOrdinals, basis,", "    newMesh = Mesh(coords, conns, simplexNodesOrdinals, mesh.parentElement,"), "D3/T6-order-elevation"),
        # --- further preserving edits
        Variant("blocks merged with concatenate", M, sub_in_func("combine_blocks", "np.hstack((newSet[key], val))", "np.concatenate((newSet[key], val))"), None),
        Variant("block offset by plain assignment", R, sub_in_func("_read_blocks", "        firstElemInBlock += nElemsInBlock", "        firstElemInBlock = nElemsInBlock + firstElemInBlock"), None),
        Variant("permutation by take", R, sub("            conns = conns[:, exodusToNativeTri6NodeOrder]", "            conns = np.take(conns, exodusToNativeTri6NodeOrder, axis=1)"), None),
        Variant("guard written negatively", M, sub("        if elemRight >= 0:", "        if not elemRight < 0:"), None),
        Variant("interior ordinals by 2-d update", M, sub("        conns = vmap(add_element_interior_nodes)(conns, newNodeOrdinals)", "        conns = conns.at[:, basis.interiorNodes].set(newNodeOrdinals)"), None),
        Variant("minus one applied after stacking", R, sub("    return np.array(record[:] - 1)\n\n\ndef _read_blocks", "    return np.array(record[:])\n\n\ndef _read_blocks", 1), "D2/T5-one-based-records"),
        Variant("reformat Mesh", M, reformat(), None),
        Variant("reformat ReadExodusMesh", R, reformat(), None),
        Variant("alpha-rename combine_mesh", M, alpha_rename("combine_mesh"), None),
    ]
