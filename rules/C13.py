"""C13 -- mesh merging, reading and order elevation keep meshes valid (structural clauses).

  D1  merging loses nothing: in combine_nodesets / combine_sidesets / combine_blocks a store `new[k] = e` in the
      loop over the second source (the dict was already filled from the first) reads the previous `new[k]` under a
      membership test, or is guarded by one; index kinds: node-indexed collections are shifted by the first mesh's
      node count, element-indexed ones by its element count, local side numbers are not shifted; coordinates and
      connectivity are concatenated first-mesh-first;
  D2  readers: every index-valued Exodus record (connect*, node_ns*, elem_ss*, side_ss*) passes through exactly one
      `- 1`; coordinate records through none; block element ranges are accumulated (loop-carried `+=` by the block's
      own element count); the 6-node permutation is a permutation whose vertex and mid-edge images equal the parent
      element's own vertex/face tables at degree 2 (constant folding of the table formulas); vertex extraction reads
      the first three Exodus columns before the permutation is applied;
  D3  order elevation: the left element receives the new edge nodes in order and the right neighbour reversed
      (sibling stores differ exactly by a flip); vertex / edge / interior node numbers come from consecutive disjoint
      ranges stacked in the same order as the coordinates; the interior-node affine map uses the same vertex
      convention as FunctionSpace.map_element_shape_grads (dx/dxi0 = v0 - v2, dx/dxi1 = v1 - v2).
Not decided: positive areas, edge uniqueness/adjacency correctness, geometric placement as numbers.
"""
from __future__ import annotations

import ast

from optilint.cfg import cfg_of
from optilint.model import dotted, walk_local
from optilint.core import Incomplete
from optilint.expr import Algebra, NotPolynomial
from .common import Unifier, src, expand, same, calls_in, actual, single_def, def_value, const_value

LEVEL = "other"
RULE_TEXT = ("obligations = (store in a merge loop x lossless form) + (offset argument x index kind) + (Exodus record x number of "
             "one-based conversions) + (permutation slot x parent-element table) + (order-elevation store x orientation / range)")
EXPLANATION = ("Static analysis of Mesh.py, ReadExodusMesh.py, ReadMesh.py, Interpolants.py: lossy-merge detection, index-kind typing of "
               "offsets, one-based/zero-based conversion counting per record, constant folding of the parent-element tables "
               "against the reader's permutation literal, and sibling comparison of the left/right edge-node stores. "
               "Geometric validity of produced meshes is not decided.")

ME = "optimism.Mesh"
RX = "optimism.ReadExodusMesh"
IP = "optimism.Interpolants"


def run(ctx):
    for m in (ME, RX, IP, "optimism.ReadMesh", "optimism.FunctionSpace"):
        ctx.need_module(m)
    ctx.guard(d1_lossless, ctx)
    ctx.guard(d1_kinds, ctx)
    ctx.guard(d2_one_based, ctx)
    ctx.guard(d2_block_ranges, ctx)
    ctx.guard(d2_permutation, ctx)
    ctx.guard(d3_elevation, ctx)
    from . import parentelem
    ctx.guard(parentelem.run, ctx, "D3/T6-parent-element-tables")
    ctx.trust("Exodus II stores node/element/side numbers one-based; TRI6 = 3 vertices then mid-side nodes 3:(0,1) 4:(1,2) 5:(2,0)")
    ctx.assume("meshes have at least one block; sets are dicts name -> index array")


# ------------------------------------------------------------------ D1

def d1_lossless(ctx):
    rule = "D1/T9-lossless-merge"
    n_loops = 0
    for fname in ("combine_nodesets", "combine_sidesets", "combine_blocks"):
        sc = ctx.need(f"{ME}:{fname}")
        rets = sc.returns()
        if len(rets) != 1 or not isinstance(rets[0], ast.Name):
            ctx.undecided(rule, sc, None, construct=f"{fname}:return", detail="does not return a single dict name")
            continue
        new = rets[0].id
        p1, p2 = sc.params()[0], sc.params()[1]
        loops = [st for st in ast.walk(sc.node) if isinstance(st, ast.For) and isinstance(st.iter, ast.Name)]
        first = [l for l in loops if l.iter.id == p1]
        second = [l for l in loops if l.iter.id == p2]
        if not second:
            ctx.undecided(rule, sc, None, construct=f"{fname}:loops", detail="loop over the second source not found")
            continue
        for lp in second:
            n_loops += 1
            key = lp.target.id if isinstance(lp.target, ast.Name) else None
            stores = [st for st in ast.walk(lp) if isinstance(st, ast.Assign) and isinstance(st.targets[0], ast.Subscript)
                      and isinstance(st.targets[0].value, ast.Name) and st.targets[0].value.id == new]
            if not stores:
                ctx.refuted(rule, sc, lp, construct=f"{fname}:second-source-stored", detail=f"entries of `{p2}` are never stored into the merged dict")
                continue
            body_src = ast.Module(body=lp.body, type_ignores=[])
            for (ok, wit, st) in _merge_paths(cfg_of(sc), lp, new, key):
                ctx.decide(rule, ok, sc, st, construct=f"{fname}:store-keeps-first-source[{wit['path']}]",
                           detail=f"on this path the stored value contains the entry of the first source, or there is none / it is empty",
                           bad_detail=f"path [{wit['path']}] stores `{wit['value']}` into `{new}[{key}]` although {wit['why']}: when both meshes have a set "
                                      f"named alike, the first mesh's members are lost")
            # the second source is offset
            off = sc.params()[2]
            used = any(isinstance(n, ast.Name) and n.id == off for n in ast.walk(body_src))
            ctx.decide(rule, used, sc, lp, construct=f"{fname}:second-source-offset", detail=f"entries of `{p2}` are shifted by `{off}`",
                       bad_detail=f"entries of `{p2}` are stored without adding `{off}`")
        for lp in first:
            body_src = ast.Module(body=lp.body, type_ignores=[])
            off = sc.params()[2]
            used = any(isinstance(n, ast.Name) and n.id == off for n in ast.walk(body_src))
            ctx.decide(rule, not used, sc, lp, construct=f"{fname}:first-source-unshifted", detail="first mesh's entries are copied unshifted",
                       bad_detail="first mesh's entries are shifted by the offset")
    if n_loops < 3:
        raise Incomplete(f"{n_loops} merge loops found (3 expected)")
    # side sets: only the element column is shifted
    sc = ctx.need(f"{ME}:combine_sidesets")
    hits = [c for c in ast.walk(sc.node) if isinstance(c, ast.Call) and isinstance(c.func, ast.Attribute) and c.func.attr == "add"
            and isinstance(c.func.value, ast.Subscript) and isinstance(c.func.value.value, ast.Attribute) and c.func.value.value.attr == "at"]
    ok = len(hits) == 1 and src(hits[0].func.value.slice) in ("(slice(None, None, None), 0)", ":, 0", "(:, 0)") or \
        (len(hits) == 1 and isinstance(hits[0].func.value.slice, ast.Tuple) and const_value(hits[0].func.value.slice.elts[1]) == 0
         and isinstance(hits[0].func.value.slice.elts[0], ast.Slice))
    ctx.decide("D1/T9-index-kinds", ok, sc, hits[0] if hits else None, construct="sidesets:shift-element-column-only",
               detail="offset added to column 0 (element id) only; local side numbers unchanged",
               bad_detail=f"side sets are shifted as `{src(hits[0]) if hits else '?'}`; only column 0 (the element id) may be shifted")


STACKERS = ("hstack", "vstack", "concatenate", "append", "row_stack")


def _prop_atoms(e, out):
    """collect propositional atoms (canonical text -> sample node) of a condition"""
    if isinstance(e, ast.BoolOp):
        for v in e.values:
            _prop_atoms(v, out)
    elif isinstance(e, ast.UnaryOp) and isinstance(e.op, ast.Not):
        _prop_atoms(e.operand, out)
    else:
        out.setdefault(_atom_key(e)[0], e)


def _atom_key(e):
    """(canonical atom, polarity): `x not in y` -> (`x in y`, False); `len(x) == 0` -> (`len(x) > 0`, False); `len(x) != 0`/`len(x) >= 1` -> True"""
    if isinstance(e, ast.Compare) and len(e.ops) == 1:
        l, r, op = e.left, e.comparators[0], e.ops[0]
        if isinstance(op, ast.NotIn):
            return (f"{src(l)} in {src(r)}", False)
        if isinstance(op, ast.In):
            return (f"{src(l)} in {src(r)}", True)
        if isinstance(l, ast.Call) and src(l.func) == "len" and const_value(r) is not None:
            c = const_value(r)
            base = f"len({src(l.args[0])}) > 0"
            if isinstance(op, ast.Gt) and c == 0 or isinstance(op, ast.GtE) and c == 1 or isinstance(op, ast.NotEq) and c == 0:
                return (base, True)
            if isinstance(op, ast.Eq) and c == 0 or isinstance(op, ast.Lt) and c == 1 or isinstance(op, ast.LtE) and c == 0:
                return (base, False)
    return (src(e), True)


def _prop_eval(e, asg):
    if isinstance(e, ast.BoolOp):
        vals = [_prop_eval(v, asg) for v in e.values]
        return all(vals) if isinstance(e.op, ast.And) else any(vals)
    if isinstance(e, ast.UnaryOp) and isinstance(e.op, ast.Not):
        return not _prop_eval(e.operand, asg)
    k, pol = _atom_key(e)
    return asg[k] if pol else not asg[k]


def _merge_paths(cfg, lp, new, key):
    """Enumerate the paths of one iteration of loop `lp`; yield (ok, witness, store stmt) per path that stores into new[key].
    Abstract values: 'K' (contains the previous new[key]) / 'N'."""
    import itertools
    header = [n for n in cfg.nodes if n.kind == "for" and n.ast is lp]
    if not header:
        return
    header = header[0]
    body_ids = set()
    for st in ast.walk(ast.Module(body=lp.body, type_ignores=[])):
        body_ids.add(id(st))
    paths = []

    def dfs(node, nodes, conds):
        if len(paths) > 200:
            return
        if node is header or (node.ast is not None and id(node.ast) not in body_ids and id(getattr(node, "stmt", None)) not in body_ids) and node.kind != "join":
            paths.append((nodes, conds))
            return
        for (m, lab) in node.succ:
            c2 = conds + [(node.ast, lab)] if node.kind == "cond" and lab is not None else conds
            dfs(m, nodes + [m], c2)
    for (m, lab) in header.succ:
        if lab is True or (lab is None and m.ast is not None and id(m.ast) in body_ids):
            dfs(m, [m], [])

    def absval(e, env):
        """list of (abstract value, extra conditions)"""
        if isinstance(e, ast.Subscript) and isinstance(e.value, ast.Name) and e.value.id == new and src(e.slice) == key:
            return [("K", [])]
        if isinstance(e, ast.Name):
            return [(env.get(e.id, "N"), [])]
        if isinstance(e, ast.IfExp):
            out = []
            for (v, cs) in absval(e.body, env):
                out.append((v, cs + [(e.test, True)]))
            for (v, cs) in absval(e.orelse, env):
                out.append((v, cs + [(e.test, False)]))
            return out
        if isinstance(e, ast.Call) and (dotted(e.func) or "").split(".")[-1] in STACKERS:
            parts = []
            for a in e.args:
                parts += list(a.elts) if isinstance(a, (ast.Tuple, ast.List)) else [a]
            alts = [[]]
            vals = ["N"]
            combos = [("N", [])]
            for prt in parts:
                nxt = []
                for (v0, c0) in combos:
                    for (v1, c1) in absval(prt, env):
                        nxt.append(("K" if "K" in (v0, v1) else "N", c0 + c1))
                combos = nxt
            return combos
        return [("N", [])]

    for (nodes, conds) in paths:
        alts = [({}, list(conds), None, None)]      # env, conditions, stored abstract value, store stmt
        for nd in nodes:
            if nd.kind != "stmt" or not isinstance(nd.ast, ast.Assign):
                continue
            st = nd.ast
            t = st.targets[0]
            nxt = []
            for (env, cs, stored, sst) in alts:
                for (v, extra) in absval(st.value, env):
                    env2 = dict(env)
                    if isinstance(t, ast.Name):
                        env2[t.id] = v
                        nxt.append((env2, cs + extra, stored, sst))
                    elif isinstance(t, ast.Subscript) and isinstance(t.value, ast.Name) and t.value.id == new and src(t.slice) == key:
                        nxt.append((env2, cs + extra, (v, src(st.value)), st))
                    else:
                        nxt.append((env2, cs + extra, stored, sst))
            alts = nxt
        for (env, cs, stored, sst) in alts:
            if stored is None:
                continue
            label = " & ".join(("" if lab else "not ") + "(" + src(c)[:40] + ")" for (c, lab) in cs) or "unconditional"
            if stored[0] == "K":
                yield (True, {"path": label, "value": stored[1], "why": ""}, sst)
                continue
            atoms = {}
            for (c, lab) in cs:
                _prop_atoms(c, atoms)
            k_in = f"{key} in {new}"
            k_len = f"len({new}[{key}]) > 0"
            names = sorted(set(atoms) | {k_in, k_len})
            witness = None
            for bits in itertools.product((True, False), repeat=len(names)):
                asg = dict(zip(names, bits))
                if not asg[k_in] or not asg[k_len]:
                    continue
                if all(_prop_eval(c, asg) == lab for (c, lab) in cs):
                    witness = asg
                    break
            if witness is None:
                yield (True, {"path": label, "value": stored[1], "why": ""}, sst)
            else:
                yield (False, {"path": label, "value": stored[1],
                               "why": f"`{key}` may already be in `{new}` with a non-empty entry (" + ", ".join(f"{a}={v}" for a, v in witness.items()) + ")"}, sst)


def _kind(ctx, cfg, node, e, mesh1):
    ex = expand(cfg, node, e, stop=(mesh1,))
    s = src(ex)
    if s == f"{mesh1}.coords.shape[0]" or s == f"num_nodes({mesh1})":
        return "node-count(first)"
    if s == f"{mesh1}.conns.shape[0]" or s == f"num_elements({mesh1})":
        return "element-count(first)"
    return "other:" + s


def d1_kinds(ctx):
    rule = "D1/T9-index-kinds"
    cm = ctx.need(f"{ME}:combine_mesh")
    cfg = cfg_of(cm)
    # names of the two meshes: `mesh1, disp1 = m1`
    unpack = [n for n in cfg.nodes if n.kind == "stmt" and isinstance(n.ast, ast.Assign) and isinstance(n.ast.targets[0], ast.Tuple)
              and isinstance(n.ast.value, ast.Name) and n.ast.value.id in cm.params()]
    if len(unpack) != 2:
        raise Incomplete("combine_mesh: mesh/disp unpacking not found")
    order = {n.ast.value.id: n.ast.targets[0].elts[0].id for n in unpack}
    mesh1, mesh2 = order[cm.params()[0]], order[cm.params()[1]]
    table = {"combine_nodesets": "node-count(first)", "combine_sidesets": "element-count(first)", "combine_blocks": "element-count(first)"}
    seen = set()
    for n in cfg.nodes:
        if n.kind != "stmt" or n.ast is None:
            continue
        for c in [c for c in ast.walk(n.ast) if isinstance(c, ast.Call) and isinstance(c.func, ast.Name) and c.func.id in table]:
            seen.add(c.func.id)
            k = _kind(ctx, cfg, n, c.args[2], mesh1) if len(c.args) >= 3 else "?"
            a0, a1 = src(c.args[0]), src(c.args[1])
            attr = {"combine_nodesets": "nodeSets", "combine_sidesets": "sideSets", "combine_blocks": "blocks"}[c.func.id]
            ok = k == table[c.func.id] and a0 == f"{mesh1}.{attr}" and a1 == f"{mesh2}.{attr}"
            ctx.decide(rule, ok, cm, c, construct=f"{c.func.id}:offset-kind",
                       detail=f"{c.func.id}({a0}, {a1}, {k})",
                       bad_detail=f"{c.func.id} is called as ({a0}, {a1}, offset of kind {k}); expected ({mesh1}.{attr}, {mesh2}.{attr}, {table[c.func.id]})")
    for f in table:
        if f not in seen:
            ctx.refuted(rule, cm, None, construct=f"{f}:called", detail=f"combine_mesh does not call {f}: that collection is dropped by the merge")
    # roles of the locals from the returned Mesh(...)
    from optilint.model import namedtuple_fields
    mesh_nt = None
    for b in ctx.need_module(ME).scope.bindings.get("Mesh", []):
        if isinstance(b.value, ast.Call):
            mesh_nt = namedtuple_fields(b.value)
    if mesh_nt is None:
        raise Incomplete("Mesh namedtuple not found")
    role = {}
    rnode = None
    for rn in cfg.returns():
        r = rn.ast.value
        if isinstance(r, ast.Tuple) and isinstance(r.elts[0], ast.Call):
            rnode = rn
            for fld, a in zip(mesh_nt.fields, r.elts[0].args):
                role[fld] = a
    if rnode is None:
        raise Incomplete("combine_mesh: returned Mesh(...) not found")
    for fld, callee in (("blocks", "combine_blocks"), ("nodeSets", "combine_nodesets"), ("sideSets", "combine_sidesets")):
        a = role.get(fld)
        ok = False
        if isinstance(a, ast.Name):
            ds = cfg.reaching(rnode, a.id)
            ok = any(isinstance(d.ast, ast.Assign) and isinstance(d.ast.value, ast.Call) and isinstance(d.ast.value.func, ast.Name)
                     and d.ast.value.func.id == callee for d in ds)
        ctx.decide(rule, ok, cm, rnode.ast, construct=f"result-field:{fld}", detail=f"Mesh.{fld} <- result of {callee}",
                   bad_detail=f"merged Mesh.{fld} is filled with `{src(a)}`, which is not the result of {callee}")
    for fld in ("coords", "conns"):
        a = role.get(fld)
        d = single_def(cfg, rnode, a.id) if isinstance(a, ast.Name) else None
        if d is None:
            ctx.undecided(rule, cm, rnode.ast, construct=f"{fld}:definition", detail=f"Mesh.{fld} <- {src(a)}: no unique definition")
            continue
        v = d.ast.value
        if fld == "coords":
            ok = same(v, f"np.concatenate(({mesh1}.coords, {mesh2}.coords), axis=0)")
            ctx.decide(rule, ok, cm, d.ast, construct="coords:first-mesh-first", detail=src(v)[:80],
                       bad_detail=f"coordinates merged as `{src(v)[:100]}`; offsets assume first mesh first")
        else:
            ok = False
            shown = src(v)
            if isinstance(v, ast.Call) and (dotted(v.func) or "").endswith("concatenate") and isinstance(v.args[0], ast.Tuple) and len(v.args[0].elts) == 2:
                a0, b0 = v.args[0].elts
                okb = isinstance(b0, ast.BinOp) and isinstance(b0.op, ast.Add) and \
                    ({_kind(ctx, cfg, d, b0.right, mesh1), src(b0.left)} == {"node-count(first)", f"{mesh2}.conns"} or
                     {_kind(ctx, cfg, d, b0.left, mesh1), src(b0.right)} == {"node-count(first)", f"{mesh2}.conns"})
                ok = src(a0) == f"{mesh1}.conns" and okb
            ctx.decide(rule, ok, cm, d.ast, construct="conns:second-mesh-shifted-by-node-count", detail=shown[:90],
                       bad_detail=f"connectivity merged as `{shown[:110]}`; the second mesh's node ids must be shifted by the first mesh's node count")


# ------------------------------------------------------------------ D2

INDEX_RECORDS = ("connect", "node_ns", "elem_ss", "side_ss")
PLAIN_RECORDS = ("coordx", "coordy", "elem_num_map")


def _key_prefix(cfg, node, e):
    """String prefix of the record key expression."""
    ex = expand(cfg, node, e)
    if isinstance(ex, ast.Constant) and isinstance(ex.value, str):
        return ex.value
    if isinstance(ex, ast.BinOp) and isinstance(ex.op, ast.Add) and isinstance(ex.left, ast.Constant) and isinstance(ex.left.value, str):
        return ex.left.value
    if isinstance(ex, ast.JoinedStr) and ex.values and isinstance(ex.values[0], ast.Constant):
        return ex.values[0].value
    return None


def _shift_of(stmt, w):
    """Constant added to the value read by node `w` inside statement `stmt` (largest enclosing
    +/- chain with constants); None if the enclosing arithmetic is not of the form w + c."""
    best = w
    parents = {}
    for par in ast.walk(stmt):
        for ch in ast.iter_child_nodes(par):
            parents[id(ch)] = par
    cur = w
    while id(cur) in parents and isinstance(parents[id(cur)], ast.BinOp) and isinstance(parents[id(cur)].op, (ast.Add, ast.Sub)):
        cur = parents[id(cur)]
        best = cur
    if best is w:
        return 0
    import copy
    A = Algebra()

    class R(ast.NodeTransformer):
        def visit_Subscript(self, n_):
            return ast.Name(id="REC__", ctx=ast.Load()) if n_ is w else self.generic_visit(n_)

        def visit_Name(self, n_):
            return ast.Name(id="REC__", ctx=ast.Load()) if n_ is w else n_
    # transform on the original (identity-based), restoring nothing: work on a shallow re-parse instead
    text = src(best)
    wtxt = src(w)
    if text.count(wtxt) != 1:
        return None
    try:
        e = ast.parse(text.replace(wtxt, "REC__"), mode="eval").body
        r = A.norm(A.lower(e) - A.atom("REC__"))
    except (NotPolynomial, SyntaxError):
        return None
    if r.n.is_const() and r.d.is_const():
        c = r.n.const_value() / r.d.const_value()
        return int(c) if c.denominator == 1 else float(c)
    return None


def d2_one_based(ctx):
    rule = "D2/T5-one-based-records"
    mod = ctx.need_module(RX)
    n_idx = 0
    # record getters: module functions that return `<param>.variables[<param>]` (possibly after side-effect-only statements)
    getters = {}
    for g in mod.scope.children:
        if not g.is_function() or g.kind != "function":
            continue
        gp = g.params()
        rets_ = g.returns()
        if len(rets_) != 1:
            continue
        rv = rets_[0]
        if isinstance(rv, ast.Name):
            defs_ = [st_.value for st_ in ast.walk(g.node) if isinstance(st_, ast.Assign) and isinstance(st_.targets[0], ast.Name) and st_.targets[0].id == rv.id]
            rv = defs_[0] if len(defs_) == 1 else rv
        if isinstance(rv, ast.Subscript) and isinstance(rv.value, ast.Attribute) and rv.value.attr == "variables" and isinstance(rv.value.value, ast.Name) \
                and rv.value.value.id in gp and isinstance(rv.slice, ast.Name) and rv.slice.id in gp:
            getters[g.name] = gp.index(rv.slice.id)
    for sc in mod.scope.children:
        if not sc.is_function() or sc.name in getters:
            continue
        cfg = cfg_of(sc)
        for n in cfg.nodes:
            if n.kind != "stmt" or not isinstance(n.ast, ast.Assign):
                continue
            v = n.ast.value
            # record = ds.variables[key]     |   x = ds.variables['coordx'][:]     |   record = getter(ds, key)
            sub = None
            key_expr = None
            for w in ast.walk(v):
                if isinstance(w, ast.Subscript) and isinstance(w.value, ast.Attribute) and w.value.attr == "variables":
                    sub, key_expr = w, w.slice
                if isinstance(w, ast.Call) and isinstance(w.func, ast.Name) and w.func.id in getters and len(w.args) > getters[w.func.id]:
                    sub, key_expr = w, w.args[getters[w.func.id]]
            if sub is None:
                continue
            if any(isinstance(w, ast.Attribute) and w.value is sub for w in ast.walk(v)):
                continue        # metadata attribute of the record (e.g. .elem_type), not its data
            pref = _key_prefix(cfg, n, key_expr)
            if pref is None:
                continue
            kind = "index" if pref.startswith(INDEX_RECORDS) else "plain" if pref.startswith(PLAIN_RECORDS) else None
            if kind is None:
                continue
            tname = n.ast.targets[0].id if isinstance(n.ast.targets[0], ast.Name) else None
            uses = 0
            use_nodes = []
            for w in ast.walk(v):
                if isinstance(w, ast.Subscript) and w.value is sub and isinstance(w.slice, ast.Slice):
                    uses += 1
                    use_nodes.append((n, w))
            if tname and not use_nodes:
                for m in cfg.nodes:
                    if m.kind != "stmt" or m.ast is None or m is n:
                        continue
                    if n not in cfg.reaching(m, tname):
                        continue
                    for w in ast.walk(m.ast):
                        if isinstance(w, ast.Subscript) and isinstance(w.value, ast.Name) and w.value.id == tname and isinstance(w.slice, ast.Slice):
                            uses += 1
                            use_nodes.append((m, w))
            for (m, w) in use_nodes:
                total = _shift_of(m.ast, w)
                # conversions applied later to the stored value
                if total is not None and isinstance(m.ast, ast.Assign) and isinstance(m.ast.targets[0], ast.Name):
                    nm2 = m.ast.targets[0].id
                    for m2 in cfg.nodes:
                        if m2.kind == "stmt" and m2.ast is not None and m2 is not m and m in cfg.reaching(m2, nm2):
                            for x in ast.walk(m2.ast):
                                if isinstance(x, ast.Name) and x.id == nm2 and isinstance(x.ctx, ast.Load):
                                    extra = _shift_of(m2.ast, x)
                                    if extra:
                                        total += extra
                if total is None:
                    ctx.undecided(rule, sc, m.ast, construct=f"{pref}*:shift", detail="cannot compute the constant shift applied to the record")
                    continue
                if kind == "index":
                    n_idx += 1
                    ctx.decide(rule, total == -1, sc, m.ast, construct=f"{pref}*:one-based-to-zero-based",
                               detail=f"record `{pref}*` shifted by {total} (`{src(m.ast)[:60]}`)",
                               bad_detail=f"record `{pref}*` (one-based indices in the file) is shifted by {total} in "
                                          f"`{src(m.ast)[:80]}`; exactly -1 is required")
                else:
                    ctx.decide(rule, total == 0, sc, m.ast, construct=f"{pref}*:not-an-index",
                               detail=f"record `{pref}*` is not shifted", bad_detail=f"record `{pref}*` is not an index but is shifted by {total}")
            if uses == 0 and kind == "index":
                ctx.undecided(rule, sc, n.ast, construct=f"{pref}*:read", detail="record fetched but its data read not found")
    if n_idx < 4:
        raise Incomplete(f"{n_idx} index-valued record reads found (4 expected: connect, node_ns, elem_ss, side_ss)")


def d2_block_ranges(ctx):
    rule = "D2/T4-block-ranges-accumulate"
    for fname in ("_read_blocks", "_read_block_maps"):
        sc = ctx.need(f"{RX}:{fname}")
        cfg = cfg_of(sc)
        loops = [n for n in cfg.nodes if n.kind == "for"]
        hit = 0
        for n in cfg.nodes:
            if n.kind != "stmt" or not isinstance(n.ast, ast.Assign) or not n.loops:
                continue
            # start : start + count   (np.arange(a, a + c)  or slice a:a+c)
            cands = []
            for w in ast.walk(n.ast.value):
                if isinstance(w, ast.Call) and (dotted(w.func) or "").endswith("arange") and len(w.args) == 2:
                    cands.append((w.args[0], w.args[1]))
                if isinstance(w, ast.Slice) and w.lower is not None and w.upper is not None:
                    cands.append((w.lower, w.upper))
            for lo, hi in cands:
                if not (isinstance(lo, ast.Name) and isinstance(hi, ast.BinOp) and isinstance(hi.op, ast.Add)):
                    continue
                parts = [hi.left, hi.right]
                if not any(isinstance(p, ast.Name) and p.id == lo.id for p in parts):
                    continue
                cnt = [p for p in parts if not (isinstance(p, ast.Name) and p.id == lo.id)][0]
                hit += 1
                defs = cfg.reaching(n, lo.id)
                inloop = [d for d in defs if d.loops]
                pre = [d for d in defs if not d.loops]
                ok = len(inloop) == 1 and isinstance(inloop[0].ast, ast.AugAssign) and isinstance(inloop[0].ast.op, ast.Add) \
                    and same(inloop[0].ast.value, cnt) and len(pre) == 1 and const_value(getattr(pre[0].ast, "value", None)) == 0
                # the count must not change between its use in the range and the accumulation
                if ok and isinstance(cnt, ast.Name):
                    ok = cfg.same_value(cnt.id, n, inloop[0])
                ctx.decide(rule, ok, sc, n.ast, construct=f"{fname}:range-start-accumulated",
                           detail=f"`{lo.id}` starts at 0 and is advanced by `+= {src(cnt)}` each block",
                           bad_detail=f"block range `{src(lo)}:{src(hi)}`: `{lo.id}` is updated by {[src(d.ast) for d in inloop]} "
                                      f"(must be `{lo.id} += {src(cnt)}` starting from 0); blocks after the second would overlap or skip elements")
        if hit == 0:
            ctx.undecided(rule, sc, None, construct=f"{fname}:range", detail="no start:start+count range found")
    # all block connectivities are stacked in block order
    sc = ctx.need(f"{RX}:_read_blocks")
    rets = sc.returns()
    ok = False
    if rets and isinstance(rets[0], ast.Tuple):
        cfg = cfg_of(sc)
        r = cfg.returns()[0]
        e = expand(cfg, r, rets[0].elts[0])
        ok = isinstance(e, ast.Call) and (dotted(e.func) or "").endswith("vstack")
    ctx.decide(rule, ok, sc, rets[0] if rets else None, construct="_read_blocks:conns-stacked-in-block-order",
               detail="conns = vstack(per-block connectivities)", bad_detail="block connectivities are not stacked with vstack in block order")


def _fold_int_lists(expr, env):
    """Constant folding of the tiny integer-array language used for the face tables."""
    if isinstance(expr, ast.Constant):
        return expr.value
    if isinstance(expr, ast.Name):
        return env[expr.id]
    if isinstance(expr, ast.BinOp):
        a, b = _fold_int_lists(expr.left, env), _fold_int_lists(expr.right, env)
        def bc(x, y, f):
            if isinstance(x, list) and isinstance(y, list):
                return [f(p, q) for p, q in zip(x, y)]
            if isinstance(x, list):
                return [f(p, y) for p in x]
            if isinstance(y, list):
                return [f(x, q) for q in y]
            return f(x, y)
        if isinstance(expr.op, ast.Add):
            return bc(a, b, lambda p, q: p + q)
        if isinstance(expr.op, ast.Sub):
            return bc(a, b, lambda p, q: p - q)
        if isinstance(expr.op, ast.Mult):
            return bc(a, b, lambda p, q: p * q)
        if isinstance(expr.op, (ast.Div, ast.FloorDiv)):
            return bc(a, b, lambda p, q: p // q if p % q == 0 else p / q)
    if isinstance(expr, ast.Call):
        d = (dotted(expr.func) or "").split(".")[-1]
        args = [_fold_int_lists(a, env) for a in expr.args]
        if d == "arange":
            return list(range(*[int(a) for a in args]))
        if d == "flip":
            return list(reversed(args[0]))
        if d == "cumsum":
            out, t = [], 0
            for x in args[0]:
                t += x
                out.append(t)
            return out
        if d == "int":
            return int(args[0])
        if d in ("array", "asarray"):
            return args[0]
    if isinstance(expr, (ast.List, ast.Tuple)):
        return [_fold_int_lists(e, env) for e in expr.elts]
    raise ValueError("cannot fold " + src(expr))


def d2_permutation(ctx):
    rule = "D2/T5-tri6-permutation"
    mod = ctx.need_module(RX)
    bs = mod.scope.bindings.get("exodusToNativeTri6NodeOrder")
    if not bs:
        raise Incomplete("exodusToNativeTri6NodeOrder not found")
    lit = bs[-1].value
    try:
        perm = _fold_int_lists(lit, {})
    except ValueError:
        ctx.undecided(rule, mod.scope, lit, construct="permutation-literal", detail="not a literal list")
        return
    ctx.decide(rule, sorted(perm) == list(range(6)), mod.scope, lit, construct="is-permutation-of-0..5", detail=f"{perm}",
               bad_detail=f"exodusToNativeTri6NodeOrder = {perm} is not a permutation of 0..5: nodes would be duplicated or lost")
    # native tables at degree 2 from make_parent_element_2d
    mk = ctx.need(f"{IP}:make_parent_element_2d")
    try:
        from . import parentelem
        rec, _I = parentelem.build(ctx.repo, "make_parent_element_2d", 2)
        vertex = parentelem._ints(rec.get("vertexNodes"))
        flat = parentelem._ints(rec.get("faceNodes"))
        faces = [flat[0:3], flat[3:6], flat[6:9]]
        if len(flat) != 9 or len(vertex) != 3:
            raise ValueError(f"unexpected table sizes {len(vertex)}, {len(flat)}")
    except Exception as ex:
        ctx.undecided(rule, mk, None, construct="parent-element-tables", detail=f"cannot evaluate the vertex/face tables at degree 2: {ex}")
        return
    ctx.extra_cov["tri6_tables"] = {"vertexNodes": vertex, "faceNodes": faces, "perm": perm}
    if sorted(perm) != list(range(6)):
        return
    # native conns[:, j] = exodus conns[:, perm[j]]
    for k in range(3):
        ok = perm[vertex[k]] == k
        ctx.decide(rule, ok, mod.scope, lit, construct=f"vertex-{k}",
                   detail=f"native vertex slot {vertex[k]} receives Exodus vertex {perm[vertex[k]]}",
                   bad_detail=f"native vertex slot {vertex[k]} (vertex {k}) receives Exodus node {perm[vertex[k]]}; must be Exodus vertex {k} "
                              f"(counter-clockwise vertex order is preserved only then)")
    exo_mid = {(0, 1): 3, (1, 2): 4, (2, 0): 5}
    for f in range(3):
        fn = faces[f]
        a, mid, b = fn[0], fn[1], fn[2]
        if a not in vertex or b not in vertex:
            ctx.undecided(rule, mk, None, construct=f"face-{f}", detail=f"face table row {fn} does not start/end at vertices")
            continue
        ea, eb = vertex.index(a), vertex.index(b)
        want = exo_mid.get((ea, eb))
        ok = want is not None and perm[mid] == want
        ctx.decide(rule, ok, mod.scope, lit, construct=f"mid-edge-of-face-{f}",
                   detail=f"native mid-edge slot {mid} of face ({ea},{eb}) receives Exodus node {perm[mid]}",
                   bad_detail=f"native mid-edge slot {mid} of the face between vertices {ea} and {eb} receives Exodus node {perm[mid]}, "
                              f"expected the Exodus mid-side node {want}")
    # vertex extraction before permuting, from the first three columns
    rd = ctx.need(f"{RX}:read_exodus_mesh")
    cfg = cfg_of(rd)
    vx = [n for n in cfg.nodes if n.kind == "stmt" and isinstance(n.ast, ast.Assign) and "_get_vertex_nodes_from_exodus_tri6_mesh" in src(n.ast)]
    pm = [n for n in cfg.nodes if n.kind == "stmt" and isinstance(n.ast, ast.Assign) and "exodusToNativeTri6NodeOrder" in src(n.ast.value)]
    ok = len(vx) == 1 and len(pm) == 1 and cfg.dominates(vx[0], pm[0]) and vx[0] is not pm[0]
    ctx.decide(rule, ok, rd, vx[0].ast if vx else None, construct="vertices-extracted-before-permutation",
               detail="vertex set taken from Exodus-ordered connectivity", bad_detail="vertex nodes are extracted after (or without) the permutation: columns 0..2 are then not the Exodus vertices")
    gv = ctx.need(f"{RX}:_get_vertex_nodes_from_exodus_tri6_mesh")
    subs = [w for w in ast.walk(gv.node) if isinstance(w, ast.Subscript) and isinstance(w.slice, ast.Tuple) and len(w.slice.elts) == 2
            and isinstance(w.slice.elts[1], ast.Slice)]
    ok = len(subs) == 1 and subs[0].slice.elts[1].lower is None and const_value(subs[0].slice.elts[1].upper) == 3
    ctx.decide(rule, ok, gv, subs[0] if subs else None, construct="vertex-columns-are-first-three", detail="conns[:, :3]",
               bad_detail=f"vertex extraction reads `{src(subs[0]) if subs else '?'}`, not the first three Exodus columns")
    # the permutation is applied to columns
    for n in pm:
        v = n.ast.value
        ok = isinstance(v, ast.Subscript) and isinstance(v.slice, ast.Tuple) and isinstance(v.slice.elts[0], ast.Slice) and \
            src(v.slice.elts[1]) == "exodusToNativeTri6NodeOrder"
        ctx.decide(rule, ok, rd, n.ast, construct="permutation-applied-to-columns", detail=src(n.ast),
                   bad_detail=f"`{src(n.ast)}` does not permute the columns of the connectivity")


# ------------------------------------------------------------------ D3

def d3_elevation(ctx):
    rule = "D3/T6-order-elevation"
    sc = ctx.need(f"{ME}:create_higher_order_mesh_from_simplex_mesh")
    cfg = cfg_of(sc)
    # stores conns.at[elem, masterNodes].set(X) in the edge loop
    sets = []
    for n in cfg.nodes:
        if n.kind == "stmt" and isinstance(n.ast, ast.Assign) and n.loops and isinstance(n.ast.value, ast.Call) \
                and isinstance(n.ast.value.func, ast.Attribute) and n.ast.value.func.attr == "set":
            sets.append(n)
    if len(sets) != 2:
        ctx.undecided(rule, sc, None, construct="edge-node-stores", detail=f"{len(sets)} stores in the edge loop (2 expected: left and right element)")
    else:
        left = [n for n in sets if not any(c.kind == "cond" for (c, l) in cfg.edge_facts(n) if c.loops)]
        right = [n for n in sets if n not in left]
        if len(left) == 1 and len(right) == 1:
            lv, rv = left[0].ast.value.args[0], right[0].ast.value.args[0]
            okl = isinstance(lv, ast.Name)
            okr = isinstance(rv, ast.Call) and (dotted(rv.func) or "").endswith("flip") and len(rv.args) == 1 and okl and same(rv.args[0], lv)
            ctx.decide(rule, okl and okr, sc, right[0].ast, construct="right-neighbour-gets-reversed-edge-nodes",
                       detail=f"left: {src(lv)}, right: {src(rv)}",
                       bad_detail=f"left element stores `{src(lv)}` and right neighbour `{src(rv)}`: the neighbour must receive the same nodes in "
                                  f"reversed order (shared edge is traversed in opposite directions)")
            # guard of the right store: only when a right element exists
            facts = [src(c.ast) for (c, l) in cfg.edge_facts(right[0]) if c.kind == "cond" and l]
            ctx.decide(rule, any(">= 0" in f or "> -1" in f for f in facts), sc, right[0].ast, construct="right-store-guarded",
                       detail=f"under {facts}", bad_detail="the right-neighbour store is not guarded by `elemRight >= 0` (boundary edges have -1)")
            # both use the interior nodes of their own side's face row
            for nm, nd, side_col in (("left", left[0], 1), ("right", right[0], 3)):
                tgt = nd.ast.value.func.value       # conns.at[elem, masterNodes]
                idx = tgt.slice.elts if isinstance(tgt.slice, ast.Tuple) else []
                ok = False
                shown = src(tgt)
                if len(idx) == 2:
                    el = expand(cfg, nd, idx[0])
                    mn = expand(cfg, nd, idx[1])
                    # the loop variable that holds the edge record (second target of `for e, edge in enumerate(edges)`)
                    ev_ = "edge"
                    for h in nd.loops:
                        if isinstance(h.ast.target, ast.Tuple) and len(h.ast.target.elts) == 2 and isinstance(h.ast.target.elts[1], ast.Name):
                            ev_ = h.ast.target.elts[1].id
                    ok = same(el, f"{ev_}[{side_col - 1}]") and f"faceNodes[{ev_}[{side_col}]]" in src(mn) and "interiorNodes" in src(mn)
                    shown = f"conns.at[{src(el)}, {src(mn)}]"
                ctx.decide(rule, ok, sc, nd.ast, construct=f"{nm}-store-uses-own-element-and-side",
                           detail=shown[:110], bad_detail=f"{nm} store addresses `{shown[:120]}`; expected element edge[{side_col - 1}] and face row edge[{side_col}]")
    # numbering ranges: edge nodes nNodes + [e*n, (e+1)*n), interior nodes after all edge nodes
    A = Algebra()
    en = [n for n in cfg.nodes if n.kind == "stmt" and isinstance(n.ast, ast.Assign) and n.loops and isinstance(n.ast.value, ast.BinOp)
          and "arange" in src(n.ast.value)]
    ok = False
    shown = "?"
    for n in en:
        v = n.ast.value
        ar = [w for w in ast.walk(v) if isinstance(w, ast.Call) and (dotted(w.func) or "").endswith("arange")]
        if len(ar) == 1 and len(ar[0].args) == 2:
            try:
                lo, hi = A.lower(ar[0].args[0]), A.lower(ar[0].args[1])
                per = A.norm(hi - lo)
                loopvar = [x for x in per.atoms()]
                shown = f"offset + arange({lo!r}, {hi!r})"
                # consecutive blocks: hi(e) == lo(e+1)
                e_name = None
                for (c, l) in cfg.edge_facts(n):
                    pass
                for h in n.loops:
                    if isinstance(h.ast.target, ast.Tuple) and isinstance(h.ast.target.elts[0], ast.Name):
                        e_name = h.ast.target.elts[0].id
                if e_name:
                    nxt = A.subst(lo, e_name, A.norm(A.atom(e_name) + A.const(1)))
                    ok = A.equal(nxt, hi) and A.is_zero(A.subst(lo, e_name, A.const(0)))
            except NotPolynomial:
                pass
            ctx.decide(rule, ok, sc, n.ast, construct="edge-node-numbers-consecutive",
                       detail=f"{shown}: block e ends where block e+1 starts, block 0 starts at the offset",
                       bad_detail=f"edge node numbers `{src(v)[:100]}` are not consecutive disjoint blocks starting at the vertex count")
    if not en:
        ctx.undecided(rule, sc, None, construct="edge-node-numbers-consecutive", detail="edge node numbering not found")
    # offset after edges: increment == (number of edges) * (nodes per edge used in the numbering above)
    aug = [n for n in cfg.nodes if n.kind == "stmt" and isinstance(n.ast, ast.AugAssign) and isinstance(n.ast.op, ast.Add) and not n.loops]
    ok = False
    shown = ""
    per_edge = None
    iter_name = None
    for n in en:
        ar = [w for w in ast.walk(n.ast.value) if isinstance(w, ast.Call) and (dotted(w.func) or "").endswith("arange")]
        if len(ar) == 1 and len(ar[0].args) == 2:
            try:
                per_edge = A.norm(A.lower(ar[0].args[1]) - A.lower(ar[0].args[0]))
            except NotPolynomial:
                per_edge = None
        for h in n.loops:
            it = h.ast.iter
            if isinstance(it, ast.Call) and (dotted(it.func) or "") == "enumerate" and isinstance(it.args[0], ast.Name):
                iter_name = it.args[0].id
    for n in aug:
        try:
            R = A.lower(n.ast.value)
        except NotPolynomial:
            continue
        shown = src(n.ast)
        if per_edge is None or iter_name is None:
            continue
        extra = sorted(R.atoms() - per_edge.atoms())
        if len(extra) == 1 and A.equal(R, A.norm(per_edge * A.atom(extra[0]))):
            d = single_def(cfg, n, extra[0])
            if d is not None and same(def_value(d, extra[0]), f"{iter_name}.shape[0]"):
                ok = True
    ctx.decide(rule, ok, sc, aug[0].ast if aug else None, construct="interior-offset-after-all-edge-nodes",
               detail=f"`{shown}`: offset advanced by (number of edges) x (nodes per edge)",
               bad_detail=f"interior node numbers start after `{shown}`, which is not (number of edges) x (new nodes per edge = {per_edge!r}): "
                          f"numbers would collide with edge nodes or leave gaps")
    # coordinates stacked in numbering order: vertices, then the nodes derived from the edge list, then the element-interior nodes.
    # Roles are decided by what each stacked block is computed from (flow-insensitive def-use closure), not by names or shapes of statements.
    mp = sc.params()[0]
    uses_ = {}
    for st_ in ast.walk(sc.node):
        tg_ = []
        val_ = None
        if isinstance(st_, ast.Assign):
            val_ = st_.value
            for t_ in st_.targets:
                tg_ += [x.id for x in ast.walk(t_) if isinstance(x, ast.Name)]
        elif isinstance(st_, ast.FunctionDef) and st_ is not sc.node:
            tg_, val_ = [st_.name], st_
        if val_ is None:
            continue
        marks = {x.id for x in ast.walk(val_) if isinstance(x, ast.Name)} | {"." + x.attr for x in ast.walk(val_) if isinstance(x, ast.Attribute)}
        for t_ in tg_:
            uses_.setdefault(t_, set()).update(marks - {t_})

    def closure_(e_):
        seen_, work_ = set(), [x.id for x in ast.walk(e_) if isinstance(x, ast.Name)] + ["." + x.attr for x in ast.walk(e_) if isinstance(x, ast.Attribute)]
        while work_:
            x_ = work_.pop()
            if x_ in seen_:
                continue
            seen_.add(x_)
            work_ += list(uses_.get(x_, ()))
        return seen_
    vst = [st for st in ast.walk(sc.node) if isinstance(st, ast.Assign) and isinstance(st.value, ast.Call) and (dotted(st.value.func) or "").endswith("vstack")
           and st.value.args and isinstance(st.value.args[0], ast.Tuple) and len(st.value.args[0].elts) == 3]
    ok = False
    if len(vst) == 1:
        e0, e1, e2 = vst[0].value.args[0].elts
        d1, d2 = closure_(e1), closure_(e2)
        ok = same(e0, f"{mp}.coords") and "create_edges" in d1 and "create_edges" not in d2 and ".interiorNodes" in d2 and ".conns" in d2
    ctx.decide(rule, ok, sc, vst[0] if vst else None, construct="coords-stacked-in-numbering-order", detail="vstack((vertices, edge nodes, interior nodes))",
               bad_detail=f"coordinates stacked as `{src(vst[0].value)[:110] if vst else '?'}`; node numbers are vertices, then edge nodes (from the edge connectivity), then interior nodes")
    u = Unifier(sc)
    # the name of the interior-coordinates block (third stacked block) for the affine-map check below
    if len(vst) == 1:
        base_ = vst[0].value.args[0].elts[2]
        while isinstance(base_, (ast.Call, ast.Attribute)):
            base_ = base_.func if isinstance(base_, ast.Call) else base_.value
        if isinstance(base_, ast.Name):
            u.bind["interiorCoords"] = base_.id
    # interior-node affine map convention == FunctionSpace.map_element_shape_grads convention
    fsmap = ctx.need("optimism.FunctionSpace:map_element_shape_grads")
    fcfg = cfg_of(fsmap)
    jdef = [n for n in fcfg.nodes if n.kind == "stmt" and isinstance(n.ast, ast.Assign) and isinstance(n.ast.value, ast.Call)
            and (dotted(n.ast.value.func) or "").endswith("column_stack")]
    conv = None
    if len(jdef) == 1 and isinstance(jdef[0].ast.value.args[0], ast.Tuple) and len(jdef[0].ast.value.args[0].elts) == 2:
        vn_ = [n_.ast.targets[0].id for n_ in fcfg.nodes if n_.kind == "stmt" and isinstance(n_.ast, ast.Assign) and "vertexNodes" in src(n_.ast.value)
               and isinstance(n_.ast.targets[0], ast.Name)]
        vn_ = vn_[0] if vn_ else "v"
        cols = [src(c).replace(f"{vn_}[", "v[") for c in jdef[0].ast.value.args[0].elts]
        conv = cols          # ['v[0] - v[2]', 'v[1] - v[2]']
    # the interpolation matrix of the element-interior nodes: the three-column column_stack that the interior block derives from
    inter = []
    interior_deps = closure_(vst[0].value.args[0].elts[2]) if len(vst) == 1 else set()
    for m in cfg.nodes:
        if m.kind == "stmt" and isinstance(m.ast, ast.Assign) and isinstance(m.ast.targets[0], ast.Name) and isinstance(m.ast.value, ast.Call) \
                and (dotted(m.ast.value.func) or "").endswith("column_stack") and m.ast.value.args and isinstance(m.ast.value.args[0], ast.Tuple) \
                and len(m.ast.value.args[0].elts) == 3 and m.ast.targets[0].id in interior_deps:
            inter.append(m)
    if conv is None or len(inter) != 1:
        ctx.undecided(rule, sc, None, construct="interior-map-convention", detail=f"affine map definitions not found (J: {conv}, interior: {len(inter)})")
    else:
        n = inter[0]
        cols = jdef and n.ast.value.args[0].elts
        B = Algebra()
        try:
            ws = []
            for c in cols:
                e = expand(cfg, n, c)
                # basis.coordinates[basis.interiorNodes, k] -> xi_k
                import copy
                class R(ast.NodeTransformer):
                    def visit_Subscript(self, s):
                        if isinstance(s.slice, ast.Tuple) and len(s.slice.elts) == 2 and "coordinates" in src(s.value) and const_value(s.slice.elts[1]) in (0, 1):
                            return ast.Name(id=f"xi{const_value(s.slice.elts[1])}", ctx=ast.Load())
                        return self.generic_visit(s)
                ws.append(B.lower(R().visit(copy.deepcopy(e))))
            # x = sum_k w_k v_k ; compare d/dxi0, d/dxi1 with the FunctionSpace Jacobian columns
            want = []
            for c in conv:
                cc = ast.parse(c.replace("v[0]", "v0").replace("v[1]", "v1").replace("v[2]", "v2"), mode="eval").body
                want.append(B.lower(cc))
            x = B.norm(ws[0] * B.atom("v0") + ws[1] * B.atom("v1") + ws[2] * B.atom("v2"))
            ok = B.equal(B.diff(x, "xi0"), want[0]) and B.equal(B.diff(x, "xi1"), want[1]) and \
                B.equal(B.norm(ws[0] + ws[1] + ws[2]), B.const(1))
            ctx.decide(rule, ok, sc, n.ast, construct="interior-map-convention",
                       detail=f"x(xi) = {x!r}: dx/dxi0 = {B.diff(x, 'xi0')!r}, dx/dxi1 = {B.diff(x, 'xi1')!r} as in map_element_shape_grads",
                       bad_detail=f"interior nodes are placed at x(xi) = {x!r}, i.e. dx/dxi0 = {B.diff(x, 'xi0')!r}, dx/dxi1 = {B.diff(x, 'xi1')!r}; "
                                  f"FunctionSpace.map_element_shape_grads uses J = [{conv[0]}, {conv[1]}]: the two affine maps disagree")
        except (NotPolynomial, IndexError) as ex:
            ctx.undecided(rule, sc, n.ast, construct="interior-map-convention", detail=str(ex))
    # edge nodes: weights (1-s, s) on (first, second) vertex of the edge
    for n in cfg.nodes:
        if n.kind == "stmt" and isinstance(n.ast, ast.Assign) and isinstance(n.ast.value, ast.Call) and (dotted(n.ast.value.func) or "").endswith("column_stack") \
                and isinstance(n.ast.value.args[0], ast.Tuple) and len(n.ast.value.args[0].elts) == 2 and "parentElement1d" in src(n.ast.value):
            a, b = n.ast.value.args[0].elts
            ok = isinstance(a, ast.BinOp) and isinstance(a.op, ast.Sub) and const_value(a.left) == 1 and same(a.right, b)
            ctx.decide(rule, ok, sc, n.ast, construct="edge-node-weights", detail="(1 - s, s) on (first, second) edge vertex",
                       bad_detail=f"edge node weights `{src(n.ast.value)[:100]}` are not (1 - s, s)")


def variants(repo):
    from optilint.selftest import Variant, sub, sub_in_func, alpha_rename, reformat
    M = "optimism/Mesh.py"
    R = "optimism/ReadExodusMesh.py"
    return [
        Variant("empty second side set replaces the first", "optimism/Mesh.py", sub("            elif key in newSet and len(val)==0:\n                val = newSet[key]\n", ""), "D1/T9-lossless-merge"),
        Variant("node sets merged only when missing", "optimism/Mesh.py", sub("            newSet[key] = np.hstack((newSet[key], val)) if key in newSet else val\n    return newSet\n\n\ndef combine_sidesets", "            newSet[key] = val if key in newSet else val\n    return newSet\n\n\ndef combine_sidesets"), "D1/T9-lossless-merge"),
        Variant("bubble face 2 listed forwards", "optimism/Interpolants.py", sub("    kk = onp.array([i for i in reversed(range(degree + 1, nNodesFromBase, 2))] + [0])", "    kk = onp.array([nNodesFromBase - 1] + [i for i in range(degree + 1, nNodesFromBase - 1, 2)] + [0])"), "D3/T6-parent-element-tables"),
        Variant("bubble face 1 copied from plain element", "optimism/Interpolants.py", sub("    jj = onp.array([i for i in range(degree, 3*degree, 2)] + [nNodesFromBase - 1])", "    jj = onp.cumsum(onp.flip(ii)) + ii"), "D3/T6-parent-element-tables"),
        Variant("plain face 2 not reversed", "optimism/Interpolants.py", sub("    kk = onp.flip(jj) - ii", "    kk = jj - onp.flip(ii)"), "D3/T6-parent-element-tables"),
        Variant("vertex list misses the last node", "optimism/Interpolants.py", sub("    vertexPoints = np.array([0, degree, nPoints - 1], dtype=np.int32)", "    vertexPoints = np.array([0, degree, nPoints - 2], dtype=np.int32)"), "D3/T6-parent-element-tables"),
        Variant("nodal x/y formulas exchanged", "optimism/Interpolants.py", sub("            points[point, 0] = (1.0 + 2.0*lobattoPoints[k] - lobattoPoints[j] - lobattoPoints[i])/3.0", "            points[point, 0] = (1.0 + 2.0*lobattoPoints[j] - lobattoPoints[k] - lobattoPoints[i])/3.0"), "D3/T6-parent-element-tables"),
        Variant("alpha-rename bubble element", "optimism/Interpolants.py", alpha_rename("make_parent_element_2d_with_bubble"), None),
        Variant("overwrite on merge (blocks)", M, sub_in_func("combine_blocks", "        newSet[key] = np.hstack((newSet[key], val)) if key in newSet else val", "        newSet[key] = val"), "D1/T9-lossless-merge"),
        Variant("overwrite on merge (nodesets)", M, sub_in_func("combine_nodesets", "            newSet[key] = np.hstack((newSet[key], val)) if key in newSet else val", "            newSet[key] = val"), "D1/T9-lossless-merge"),
        Variant("node offset on side sets", M, sub_in_func("combine_mesh", "combine_sidesets(mesh1.sideSets, mesh2.sideSets, numElems1)", "combine_sidesets(mesh1.sideSets, mesh2.sideSets, numNodes1)"), "D1/T9-index-kinds"),
        Variant("shift both side-set columns", M, sub_in_func("combine_sidesets", "val.at[:,0].add(elemOffset)", "val.at[:,:].add(elemOffset)"), "D1/T9-index-kinds"),
        Variant("conns not shifted", M, sub_in_func("combine_mesh", "mesh2.conns+numNodes1", "mesh2.conns+numElems1"), "D1/T9-index-kinds"),
        Variant("forget -1 for side_ss", R, sub("            sideSetSides = np.array(record[:] - 1)", "            sideSetSides = np.array(record[:])"), "D2/T5-one-based-records"),
        Variant("double -1 for node sets", R, sub("            nodeSetNodes.append(record[:] - 1)", "            nodeSetNodes.append(record[:] - 1 - 1)"), "D2/T5-one-based-records"),
        Variant("coords shifted", R, sub("    coordsX = exodusDataset.variables['coordx'][:]", "    coordsX = exodusDataset.variables['coordx'][:] - 1"), "D2/T5-one-based-records"),
        Variant("block offset overwritten", R, sub_in_func("_read_blocks", "        firstElemInBlock += nElemsInBlock", "        firstElemInBlock = nElemsInBlock"), "D2/T4-block-ranges-accumulate"),
        Variant("permutation edited", R, sub("np.array([0, 3, 1, 5, 4, 2])", "np.array([0, 3, 1, 4, 5, 2])"), "D2/T5-tri6-permutation"),
        Variant("permutation swaps vertices", R, sub("np.array([0, 3, 1, 5, 4, 2])", "np.array([1, 3, 0, 5, 4, 2])"), "D2/T5-tri6-permutation"),
        Variant("vertices after permutation", R, sub("            simplexNodesOrdinals = _get_vertex_nodes_from_exodus_tri6_mesh(conns)\n            conns = conns[:, exodusToNativeTri6NodeOrder]",
                                                   "            conns = conns[:, exodusToNativeTri6NodeOrder]\n            simplexNodesOrdinals = _get_vertex_nodes_from_exodus_tri6_mesh(conns)"), "D2/T5-tri6-permutation"),
        Variant("remove flip", M, sub("set(np.flip(edgeNodeOrdinals))", "set(edgeNodeOrdinals)"), "D3/T6-order-elevation"),
        Variant("interior convention", M, sub("        N0 = basis.coordinates[basis.interiorNodes,0]\n        N1 = basis.coordinates[basis.interiorNodes,1]\n        N2 = 1.0 - N0 - N1",
                                            "        N1 = basis.coordinates[basis.interiorNodes,0]\n        N2 = basis.coordinates[basis.interiorNodes,1]\n        N0 = 1.0 - N1 - N2"), "D3/T6-order-elevation"),
        Variant("interior offset", M, sub("    nodeOrdinalOffset += nEdges*nNodesPerEdge", "    nodeOrdinalOffset += nEdges"), "D3/T6-order-elevation"),
        Variant("edge numbering overlap", M, sub("np.arange(e*nNodesPerEdge,(e+1)*nNodesPerEdge)", "np.arange(e,e+nNodesPerEdge)"), "D3/T6-order-elevation"),
        Variant("reformat Mesh", M, reformat(), None),
        Variant("reformat ReadExodusMesh", R, reformat(), None),
        Variant("alpha-rename combine_mesh", M, alpha_rename("combine_mesh"), None),
    ]
