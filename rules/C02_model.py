"""Symbolic execution model for C02 (stiffness = Hessian of the energy; block splitting).

The functions of optimism/Mechanics.py and optimism/FunctionSpace.py are *interpreted* (optilint.tensoreval.Interp, extended
here with the Python/NumPy/JAX constructs these modules use) on a tiny mesh with concrete topology and symbolic data:

  5 nodes, 3 three-node elements, 2 quadrature points; nodal fields U, UPredicted, coordinates X; shape functions N[e,q,a],
  shape function gradients dN[e,q,a,j], quadrature volumes w[e,q], internal variables Q[e,q,k] -- all independent symbols.

Material models are uninterpreted functions: `compute_energy_density(gradU, Q, dt)` is the atom  SE:<material>#k  where k is
interned on the *values* of the arguments (exact rational functions, compared by polynomial identity testing and confirmed
exactly), so two code paths hand the same displacement gradient / state / time step to the material iff they produce the same
atom.  `jax.vmap` is executed (with its in_axes), `jax.hessian(f, argnums)` records a request (function, argnums, actual
arguments) and returns an array of fresh atoms, so the array returned by an element-stiffness closure tells for every element
WHICH function was differentiated w.r.t. WHICH argument at WHICH point.  The rule module then re-evaluates that function
symbolically and compares it with the energy the sibling closure computes:   E(U) - sum_e G_e(a0_e(U))  must be affine in U.

Everything here is static: the library is never imported or executed; its source is interpreted over symbols.
"""
from __future__ import annotations

import ast
from fractions import Fraction

from optilint.tensoreval import (Interp, Dual, Arr, PyFunc, Record, Closure, Ext, EvalError, Raised, Env, Unknown,
                                 _A, rat_const, sum_d, matmul, at_update, AtIndexed, AtProxy)
from optilint.expr import Rat, Poly, simplify
from optilint.model import norm_src

M = "optimism.Mechanics"
FS = "optimism.FunctionSpace"

# ------------------------------------------------------------------ the tiny mesh
NNODE, NE, NN, NQ, ND, NSTATE = 5, 3, 3, 2, 2, 2
CONNS = [[0, 1, 2], [1, 3, 2], [2, 3, 4]]
BLOCKS = {"blockA": [0, 2], "blockB": [1]}        # non-contiguous on purpose

_P = (1 << 61) - 1


class MappedSizeMismatch(EvalError):
    """jax.vmap was given mapped operands whose mapped axes have different lengths (jax raises ValueError)."""
    def __init__(self, sizes, fname=""):
        self.sizes, self.fname = sizes, fname
        super().__init__(f"vmap of {fname}: mapped axis sizes differ: {sizes}")


class InfiniteRecursion(EvalError):
    pass


class OpaqueVal:
    """Result of a call that is not modelled (function of another layer, or a kernel the interpreter cannot execute): a value
    identified by (function, argument values).  It can be passed on, indexed and handed to other opaque functions; arithmetic on it fails."""
    def __init__(self, key, label):
        self.key, self.label = key, label

    def __repr__(self):
        return f"<opaque {self.label}>"


class HessFn:
    def __init__(self, fn, argnums):
        self.fn, self.argnums = fn, argnums


class OpenRecord(Record):
    """Record whose unknown attributes are (deterministic) opaque values named by their access path."""
    pass


def _atom_int(name):
    import hashlib
    return int.from_bytes(hashlib.blake2b(name.encode(), digest_size=8).digest(), "big") % _P or 1


class Sym(Interp):
    def __init__(self, repo):
        super().__init__(repo, max_depth=80)
        self.atom_deps = {}          # opaque atom -> frozenset(base symbols it depends on)
        self.atom_info = {}          # opaque atom -> (function label, args)
        self._intern = {}            # (label, structure, fingerprints) -> [(args_flat, atom base name)]
        self._atom_val = {}
        self.counter = 0
        self.taint = []              # reasons why equalities may be missed (fallbacks that make two equal values look different)
        self.log = []                # material-model calls: (kind, material, args)
        self.hess = []               # hessian requests
        self.frames = []
        self.pit_confirmed = 0
        self.fallback = True
        self.ext_special["jax.vmap"] = self._x_vmap
        self.ext_special["jax.hessian"] = self._x_hessian
        self.ext_special["jax.jacfwd"] = self._x_jac("jacfwd")
        self.ext_special["jax.jacrev"] = self._x_jac("jacrev")
        self.ext_special["jax.jacobian"] = self._x_jac("jacobian")
        self.ext_special["jax.grad"] = self._x_grad
        self.ext_special["functools.partial"] = self._x_partial
        self.ext_special["builtins.enumerate"] = lambda it, a, k: [(i + (it.as_int(a[1]) if len(a) > 1 else 0), x) for i, x in enumerate(it.as_list(a[0]))]
        self.ext_special["builtins.zip"] = lambda it, a, k: [tuple(t) for t in zip(*[it.as_list(x) for x in a])]
        self.ext_special["builtins.sum"] = self._x_sum
        self.ext_special["builtins.any"] = lambda it, a, k: any(it.truth(x) for x in it.as_list(a[0]))
        self.ext_special["builtins.all"] = lambda it, a, k: all(it.truth(x) for x in it.as_list(a[0]))
        self.ext_special["builtins.dict"] = lambda it, a, k: dict(list(a[0].items()) if a and isinstance(a[0], dict) else (a[0] if a else []), **k)
        self.ext_special["builtins.str"] = lambda it, a, k: str(a[0]) if a and isinstance(a[0], (str, int)) else "<str>"
        self.ext_special["builtins.bool"] = lambda it, a, k: it.truth(a[0])
        self.ext_special["math.prod"] = lambda it, a, k: it.np_call("prod", [list(a[0])], {})
        self.ext_special["builtins.abs"] = lambda it, a, k: it.np_call("abs", a, k)
        self.ext_special["jax.value_and_grad"] = self._x_value_and_grad
        self.ext_special["jax.jit"] = lambda it, a, k: a[0]
        self.ext_special["builtins.len"] = self._x_len
        self.ext_special["builtins.isinstance"] = self._x_isinstance
        self.opaque_modules = ("optimism.Interpolants", "optimism.QuadratureRule")

    # ---------------------------------------------------------------- symbols and opaque applications
    def sym(self, name):
        self.atom_deps.setdefault(name, frozenset([name]))
        return Dual(_A.atom(name))

    def sym_arr(self, prefix, shape):
        import itertools
        data = [self.sym(prefix + "_" + "_".join(str(i) for i in ix)) for ix in itertools.product(*[range(s) for s in shape])]
        return Arr(data, shape)

    def deps_of_rat(self, r: Rat):
        out = set()
        for a in r.atoms():
            out |= self.atom_deps.get(a, frozenset([a]))
        return out

    def deps(self, v):
        out = set()
        for r in self._rats(v):
            out |= self.deps_of_rat(r)
        return out

    def _rats(self, v):
        if isinstance(v, Dual):
            yield v.a
        elif isinstance(v, Arr):
            for x in v.data:
                yield x.a
        elif isinstance(v, (tuple, list)):
            for x in v:
                yield from self._rats(x)
        elif isinstance(v, Record):
            for x in v.values:
                yield from self._rats(x)
        elif isinstance(v, dict):
            for x in v.values():
                yield from self._rats(x)

    def fp(self, r: Rat):
        """value of r modulo a Mersenne prime at a pseudo-random point (polynomial identity testing); None if the denominator vanishes"""
        def ev(p: Poly):
            tot = 0
            for m, c in p.t.items():
                v = (c.numerator % _P) * pow(c.denominator % _P, _P - 2, _P) % _P
                for k, e in m:
                    a = self._atom_val.get(k)
                    if a is None:
                        a = self._atom_val[k] = _atom_int(k)
                    v = v * pow(a, e, _P) % _P if e >= 0 else v * pow(pow(a, -e, _P), _P - 2, _P) % _P
                tot = (tot + v) % _P
            return tot
        d = ev(r.d)
        if d == 0:
            return None
        return ev(r.n) * pow(d, _P - 2, _P) % _P

    def flat(self, v):
        """(structure, [items]) of a value used as an argument of an opaque function; items are Rats or hashable python values"""
        if isinstance(v, Dual):
            return "s", [v.a]
        if isinstance(v, bool) or v is None or isinstance(v, str):
            return "c", [("py", v)]
        if isinstance(v, (int, Fraction, float)):
            return "s", [Dual.of(v).a]
        if isinstance(v, Arr):
            return ("a", v.shape), [x.a for x in v.data]
        if isinstance(v, OpaqueVal):
            return "o", [("py", v.key)]
        if isinstance(v, slice):
            return "c", [("py", ("slice", v.start, v.stop, v.step))]
        if isinstance(v, (tuple, list)):
            st, items = [], []
            for x in v:
                s_, i_ = self.flat(x)
                st.append(s_)
                items += i_
            return ("t", tuple(st)), items
        if isinstance(v, Record):
            s_, i_ = self.flat(list(v.values))
            return ("r", v.tname, tuple(v.fields), s_), i_
        if isinstance(v, dict):
            s_, i_ = self.flat([v[k] for k in sorted(v, key=repr)])
            return ("d", tuple(sorted(map(repr, v))), s_), i_
        if isinstance(v, PyFunc):
            return "c", [("py", ("pyfunc", v.name))]
        if isinstance(v, Ext):
            return "c", [("py", ("ext", v.name))]
        if isinstance(v, Closure):
            return "c", [("py", self.closure_key(v))]
        if isinstance(v, HessFn):
            return "c", [("py", ("hessian", self.vkey(v.fn), repr(v.argnums)))]
        if isinstance(v, tuple) and len(v) == 2 and v[0] == "module":
            return "c", [("py", ("module", v[1].name))]
        raise EvalError(f"value {v!r} cannot be an argument of an uninterpreted function")

    def vkey(self, v):
        st, items = self.flat(v)
        return (st, tuple(i if isinstance(i, tuple) else self.fp(i) for i in items))

    def closure_key(self, c: Closure, _depth=0):
        """identity of a closure as a value: its code and the values of its free variables"""
        if _depth > 6:
            return ("closure", c.scope.qualname, id(c.env))
        free = []
        node = c.scope.node
        bound = set(c.scope.params()) | set(c.scope.kwonly())
        for n in ast.walk(node):
            if isinstance(n, ast.Name) and isinstance(n.ctx, ast.Store):
                bound.add(n.id)
            elif isinstance(n, (ast.FunctionDef, ast.Lambda)) and n is not node:
                bound.update(a.arg for a in n.args.args)
                if isinstance(n, ast.FunctionDef):
                    bound.add(n.name)
        names = sorted({n.id for n in ast.walk(node) if isinstance(n, ast.Name) and isinstance(n.ctx, ast.Load)} - bound)
        for nm in names:
            if c.env is not None and c.env.has(nm) and c.env.scope.kind != "module":
                e = c.env
                in_function_env = False
                while e is not None:
                    if nm in e.vars:
                        in_function_env = e.scope.kind != "module"
                        break
                    e = e.parent
                if not in_function_env:
                    continue
                val = c.env.lookup(nm)
                try:
                    if isinstance(val, Closure):
                        k = self.closure_key(val, _depth + 1) if val is not c else ("self",)
                    else:
                        k = self.vkey(val)
                except EvalError:
                    k = ("id", id(val))
                free.append((nm, k))
        return ("closure", c.scope.qualname, tuple(free))

    def opaque(self, label, args, shape=None):
        """the value label(args) of an uninterpreted function: a scalar atom, or an array of atoms of the given shape"""
        st, items = self.flat(list(args))
        fps = tuple(i if isinstance(i, tuple) else self.fp(i) for i in items)
        key = (label, st, fps)
        base = None
        for (items0, b0) in self._intern.get(key, []):
            # equal fingerprints: confirm exactly where that is cheap (it always is on this code base)
            same = True
            for x, y in zip(items0, items):
                if isinstance(x, tuple):
                    continue
                if x is y or (x.n == y.n and x.d == y.d):
                    continue
                if len(x.n.t) * len(y.d.t) + len(y.n.t) * len(x.d.t) <= 20000:
                    if not _A.is_zero(_A.norm(x - y)):
                        same = False
                        break
                else:
                    self.pit_confirmed += 1
            if same:
                base = b0
                break
        if base is None:
            self.counter += 1
            base = f"{label}#{self.counter}"
            self._intern.setdefault(key, []).append((items, base))
            deps = set()
            for i in items:
                if not isinstance(i, tuple):
                    deps |= self.deps_of_rat(i)
            self.atom_info[base] = (label, list(args), frozenset(deps))
        deps = self.atom_info[base][2]
        if shape is None or tuple(shape) == ():
            self.atom_deps[base] = deps
            return Dual(_A.atom(base))
        n = 1
        for s in shape:
            n *= s
        out = []
        for i in range(n):
            nm = f"{base}.{i}"
            self.atom_deps[nm] = deps
            out.append(Dual(_A.atom(nm)))
        return Arr(out, tuple(shape))

    def opaque_val(self, label, args):
        try:
            k = (label, self.vkey(list(args)))
        except EvalError:
            k = (label, tuple(id(a) for a in args))
        return OpaqueVal(k, label)

    # ---------------------------------------------------------------- jax
    def _x_vmap(self, it, args, kw):
        f = args[0]
        in_axes = args[1] if len(args) > 1 else kw.get("in_axes", 0)
        if "out_axes" in kw or len(args) > 2:
            raise EvalError("vmap with out_axes")
        return PyFunc("vmap", lambda it2, a, k, f=f, in_axes=in_axes: self.vmap_call(f, in_axes, a, k))

    def fname(self, f):
        if isinstance(f, Closure):
            return f.scope.name
        if isinstance(f, PyFunc):
            return f.name
        return repr(f)

    def vmap_call(self, f, in_axes, a, k):
        n = len(a)
        if isinstance(in_axes, (tuple, list)):
            axes = list(in_axes)
            if len(axes) != n:
                raise EvalError(f"vmap of {self.fname(f)}: in_axes has {len(axes)} entries for {n} positional arguments")
        else:
            axes = [in_axes] * n
        sizes = {}
        for i, (ax, x) in enumerate(zip(axes, a)):
            if ax is None:
                continue
            if self.as_int(ax) != 0:
                raise EvalError("vmap over a non-leading axis")
            if isinstance(x, Arr):
                sizes[i] = x.shape[0]
            elif isinstance(x, OpaqueVal):
                pass
            else:
                raise EvalError(f"vmap of {self.fname(f)}: mapped argument {i} is not an array ({x!r})")
        if k:
            raise EvalError("vmap with keyword arguments")
        if len(set(sizes.values())) > 1:
            raise MappedSizeMismatch(dict(sizes), self.fname(f))
        if not sizes:
            raise EvalError("vmap without array arguments")
        cnt = next(iter(sizes.values()))
        outs = []
        for j in range(cnt):
            aj = [x if ax is None else self.getitem(x, j) for ax, x in zip(axes, a)]
            outs.append(self.call(f, aj, {}))
        return self.stack(outs)

    def stack(self, outs):
        o0 = outs[0]
        if isinstance(o0, (tuple, list)):
            return tuple(self.stack([o[i] for o in outs]) for i in range(len(o0)))
        if isinstance(o0, OpaqueVal):
            return OpaqueVal(("stack", tuple(o.key for o in outs)), "stack")
        vals = [self.num(o) for o in outs]
        if all(isinstance(v, Dual) for v in vals):
            return Arr(vals, (len(vals),))
        if all(isinstance(v, Arr) and v.shape == vals[0].shape for v in vals):
            return Arr([x for v in vals for x in v.data], (len(vals),) + tuple(vals[0].shape))
        raise EvalError("vmap outputs of different shapes")

    def _x_hessian(self, it, args, kw):
        argnums = args[1] if len(args) > 1 else kw.get("argnums", 0)
        return HessFn(args[0], argnums)

    def _x_unmodelled_transform(self, nm):
        def f(it, args, kw):
            fn = args[0]
            return PyFunc(nm, lambda it2, a, k: self.opaque_val(nm, [fn] + list(a)))
        return f

    def _x_grad(self, it, args, kw):
        fn = args[0]
        argnum = args[1] if len(args) > 1 else kw.get("argnums", 0)

        def g(it2, a, k):
            v = self.call(fn, a, k)
            x = a[self.as_int(argnum)]
            return self.opaque(f"d/d{self.as_int(argnum)}", [v, x], shape=x.shape if isinstance(x, Arr) else None)
        out = PyFunc("grad", g)
        out.grad_of = (fn, argnum)
        return out

    def _x_jac(self, nm):
        def f(it, args, kw):
            fn = args[0]
            argnum = args[1] if len(args) > 1 else kw.get("argnums", 0)
            inner = getattr(fn, "grad_of", None)
            if inner is not None:
                try:
                    if self.as_int(inner[1]) == self.as_int(argnum):
                        return HessFn(inner[0], argnum)       # jacobian of the gradient w.r.t. the same argument
                except EvalError:
                    pass
            out = PyFunc(nm, lambda it2, a, k: self.opaque_val(nm, [fn, argnum] + list(a)))
            if inner is None and not isinstance(fn, PyFunc):
                out.grad_of = (fn, argnum)          # for a scalar function the Jacobian is the gradient
            return out
        return f

    def _x_partial(self, it, args, kw):
        f, bound, bkw = args[0], list(args[1:]), dict(kw)
        return PyFunc("partial", lambda it2, a, k: it2.call(f, bound + list(a), dict(bkw, **k)))

    def _x_sum(self, it, args, kw):
        xs = self.as_list(args[0])
        tot = args[1] if len(args) > 1 else kw.get("start", 0)
        env = Env(None, None)
        for x in xs:
            env.vars["__l"], env.vars["__r"] = tot, x
            tot = self.e_BinOp(ast.BinOp(left=ast.Name(id="__l", ctx=ast.Load()), op=ast.Add(), right=ast.Name(id="__r", ctx=ast.Load())), env)
        return tot

    def _x_isinstance(self, it, args, kw):
        v, t = args
        ts = t if isinstance(t, (tuple, list)) else (t,)
        table = {"builtins.slice": slice, "builtins.int": int, "builtins.float": float, "builtins.str": str, "builtins.tuple": tuple,
                 "builtins.list": list, "builtins.dict": dict, "builtins.bool": bool}
        res = False
        for x in ts:
            if isinstance(x, Ext) and x.name in table:
                if isinstance(v, (Dual, Arr, Record, OpaqueVal, Closure, PyFunc)):
                    continue
                res = res or isinstance(v, table[x.name])
            elif isinstance(x, Ext) and x.name.split(".")[-1] in ("ndarray", "Array", "DeviceArray"):
                res = res or isinstance(v, Arr)
            elif isinstance(x, Ext) and x.name == "builtins.type":
                continue
            else:
                raise EvalError(f"isinstance with type {x!r}")
        return res

    def as_list(self, v):
        if isinstance(v, Arr):
            return [v.index(i) for i in range(v.shape[0])]
        if isinstance(v, dict):
            return list(v.keys())
        if isinstance(v, (OpaqueVal, Dual, Record)) or v is None:
            raise EvalError(f"iteration over {v!r}")
        return list(v)

    def _x_value_and_grad(self, it, args, kw):
        fn = args[0]
        argnum = args[1] if len(args) > 1 else kw.get("argnums", 0)

        def g(it2, a, k):
            v = self.call(fn, a, k)
            x = a[self.as_int(argnum)]
            return (v, self.opaque(f"d/d{self.as_int(argnum)}", [v, x], shape=x.shape if isinstance(x, Arr) else None))
        return PyFunc("value_and_grad", g)

    def _x_len(self, it, args, kw):
        a = args[0]
        if isinstance(a, Arr):
            return a.shape[0]
        if isinstance(a, Record) and a.cls is not None:
            for c in a.cls.children:
                if c.kind == "function" and c.name == "__len__":
                    return self.call_closure(Closure(c, self.module_env(c.module)), [a], {})
        if isinstance(a, (Record, OpaqueVal, Dual)):
            raise EvalError(f"len of {a!r}")
        return len(a)

    def call(self, f, args, kwargs):
        if isinstance(f, HessFn):
            return self.call_hessian(f, args, kwargs)
        if isinstance(f, OpaqueVal):
            return self.opaque_val("call", [f] + list(args))
        if isinstance(f, Record) and f.cls is not None:
            for c in f.cls.children:
                if c.kind == "function" and c.name == "__call__":
                    return self.call_closure(Closure(c, self.module_env(c.module)), [f] + list(args), kwargs)
        if isinstance(f, tuple) and f and f[0] == "pymethod":
            return self.call_pymethod(f[1], f[2], args, kwargs)
        return super().call(f, args, kwargs)

    def call_pymethod(self, base, name, args, kwargs):
        if isinstance(base, str):
            if all(isinstance(a, (str, int)) for a in args) and not kwargs and name in (
                    "lower", "upper", "strip", "replace", "startswith", "endswith", "format", "split", "join", "casefold", "title"):
                return getattr(base, name)(*args)
            raise EvalError(f"string method {name}")
        if isinstance(base, list):
            if name == "append":
                base.append(args[0])
                return None
            if name == "extend":
                base.extend(self.as_list(args[0]))
                return None
            if name == "index":
                return base.index(args[0])
        if isinstance(base, dict):
            if name == "update":
                base.update(*args, **kwargs)
                return None
            if name == "setdefault":
                return base.setdefault(*args)
            if name == "pop":
                return base.pop(*args)
            if name == "copy":
                return dict(base)
        raise EvalError(f"method {name} of {type(base).__name__}")

    def call_hessian(self, h: HessFn, args, kwargs):
        try:
            k = self.as_int(h.argnums)
        except EvalError:
            raise EvalError("hessian with several argnums")
        if k >= len(args) or not isinstance(args[k], Arr):
            raise EvalError("hessian w.r.t. a non-array argument")
        x = args[k]
        idx = len(self.hess)
        self.hess.append({"fn": h.fn, "argnum": k, "args": list(args), "kwargs": dict(kwargs)})
        n = x.size()
        data = []
        for i in range(n * n):
            nm = f"HESS{idx}_{i}"
            self.atom_deps[nm] = frozenset([nm])
            data.append(Dual(_A.atom(nm)))
        return Arr(data, tuple(x.shape) + tuple(x.shape))

    # ---------------------------------------------------------------- python constructs the base interpreter lacks
    def _seq(self, elts, env):
        out = []
        for x in elts:
            if isinstance(x, ast.Starred):
                v = self.eval(x.value, env)
                if isinstance(v, Arr):
                    v = [v.index(i) for i in range(v.shape[0])]
                out += list(v)
            else:
                out.append(self.eval(x, env))
        return out

    def e_Tuple(self, e, env):
        return tuple(self._seq(e.elts, env))

    def e_List(self, e, env):
        return self._seq(e.elts, env)

    def e_Call(self, e, env):
        f = self.eval(e.func, env)
        args = self._seq(e.args, env)
        kwargs = {}
        for k in e.keywords:
            if k.arg is None:
                kwargs.update(self.eval(k.value, env))
            else:
                kwargs[k.arg] = self.eval(k.value, env)
        return self.call(f, args, kwargs)

    def e_BinOp(self, e, env):
        a, b = self.eval(e.left, env), self.eval(e.right, env)
        op = e.op
        if isinstance(op, ast.Mult):
            if isinstance(a, (tuple, list)) and not isinstance(b, (tuple, list, Arr)):
                return type(a)(list(a) * self.as_int(b))
            if isinstance(b, (tuple, list)) and not isinstance(a, (tuple, list, Arr)):
                return type(b)(list(b) * self.as_int(a))
        if isinstance(a, Arr) and isinstance(b, Arr) and a.shape != b.shape and a.size() != 1 and b.size() != 1 \
                and isinstance(op, (ast.Add, ast.Sub, ast.Mult, ast.Div)):
            a, b = self.broadcast(a, b)
        if isinstance(op, ast.Div) and isinstance(a, (Dual, Arr)) and isinstance(b, (Dual, Arr)):
            # no value here carries an infinitesimal part: plain division of rational functions
            def div(x, y):
                if _A.is_zero(y.a):
                    raise EvalError("division by zero")
                return Dual(_A.norm(x.a / y.a))
            if isinstance(a, Arr):
                return a.zip(b, div)
            if isinstance(b, Arr):
                return b.map(lambda y: div(a, y))
            return div(a, b)
        env2 = Env(env.scope, env)
        env2.vars["__l"], env2.vars["__r"] = a, b
        return super().e_BinOp(ast.BinOp(left=ast.Name(id="__l", ctx=ast.Load()), op=op, right=ast.Name(id="__r", ctx=ast.Load())), env2)

    def broadcast(self, a: Arr, b: Arr):
        import itertools
        na, nb = a.ndim, b.ndim
        n = max(na, nb)
        sa = (1,) * (n - na) + tuple(a.shape)
        sb = (1,) * (n - nb) + tuple(b.shape)
        out = []
        for x, y in zip(sa, sb):
            if x != y and x != 1 and y != 1:
                raise EvalError(f"operands could not be broadcast together: {a.shape} vs {b.shape}")
            out.append(max(x, y))

        def expand(arr, s):
            arr = Arr(list(arr.data), s)
            data = []
            for ix in itertools.product(*[range(k) for k in out]):
                data.append(arr.get(tuple(i if d != 1 else 0 for i, d in zip(ix, s))))
            return Arr(data, tuple(out))
        return expand(a, sa), expand(b, sb)

    def assign(self, t, v, env):
        if isinstance(t, (ast.Tuple, ast.List)) and any(isinstance(x, ast.Starred) for x in t.elts):
            vs = list(v.values) if isinstance(v, Record) else list(v)
            k = [i for i, x in enumerate(t.elts) if isinstance(x, ast.Starred)][0]
            after = len(t.elts) - k - 1
            if len(vs) < len(t.elts) - 1:
                raise EvalError("unpack width")
            for a, b in zip(t.elts[:k], vs[:k]):
                self.assign(a, b, env)
            self.assign(t.elts[k].value, list(vs[k:len(vs) - after]), env)
            for a, b in zip(t.elts[k + 1:], vs[len(vs) - after:] if after else []):
                self.assign(a, b, env)
            return
        if isinstance(t, (ast.Tuple, ast.List)) and isinstance(v, Arr):
            v = [v.index(i) for i in range(v.shape[0])]
        return super().assign(t, v, env)

    def stmt(self, st, env):
        if isinstance(st, ast.AugAssign) and isinstance(st.target, ast.Name):
            cur = self.eval(ast.Name(id=st.target.id, ctx=ast.Load()), env)
            env2 = Env(env.scope, env)
            env2.vars["__l"], env2.vars["__r"] = cur, self.eval(st.value, env)
            env.vars[st.target.id] = self.e_BinOp(ast.BinOp(left=ast.Name(id="__l", ctx=ast.Load()), op=st.op,
                                                            right=ast.Name(id="__r", ctx=ast.Load())), env2)
            return
        if isinstance(st, ast.For):
            it = self.eval(st.iter, env)
            if isinstance(it, Arr):
                it = [it.index(i) for i in range(it.shape[0])]
            if isinstance(it, (OpaqueVal, Dual, Record)):
                raise EvalError(f"iteration over {it!r}")
            for x in it:
                self.assign(st.target, x, env)
                self.block(st.body, env)
            return
        if isinstance(st, ast.AnnAssign):
            if st.value is not None:
                self.assign(st.target, self.eval(st.value, env), env)
            return
        if isinstance(st, ast.Expr) and isinstance(st.value, ast.Call):
            try:
                f = self.eval(st.value.func, env)
            except EvalError:
                f = None
            if isinstance(f, Ext) and not f.name.startswith(("jax.", "numpy.", "class:")) and f.name not in self.ext_special:
                return          # logging / warnings / printing: no value is used
        return super().stmt(st, env)

    def call_closure(self, f: Closure, args, kwargs):
        sc = f.scope
        q = sc.qualname
        if q in self.special:
            return self.special[q](self, args, kwargs)
        if sc.module.name.startswith(self.opaque_modules) and sc.cls is None:
            return self.opaque_val(q, list(args) + [kwargs[k] for k in sorted(kwargs)])
        # a closure that re-enters itself with the same arguments never returns
        # (control flow here never depends on array data: only python scalars / strings / None can end a recursion)
        fk = (q, id(f.env), tuple(repr(a) for a in args if a is None or isinstance(a, (bool, int, str, float, Fraction))))
        if self.frames.count(fk) >= 8:
            raise InfiniteRecursion(f"{sc.name} re-enters itself with the same control arguments (unbounded recursion: RecursionError at run time)")
        self.frames.append(fk)
        try:
            if not (sc.has_varargs() or sc.has_kwargs()):
                return super().call_closure(f, args, kwargs)
            return self._call_varargs(f, args, kwargs)
        except (MappedSizeMismatch, InfiniteRecursion):
            raise
        except EvalError as ex:
            # a kernel the interpreter cannot execute is a pure function all the same: its result is the uninterpreted application
            # closure(arguments).  Equalities proved with it are sound (congruence); differences are not (recorded in `taint`).
            if not self.fallback or len(self.frames) <= 1:
                raise
            self.taint.append((q, str(ex)[:160]))
            try:
                return OpaqueVal((self.closure_key(f), self.vkey([list(args), [kwargs[k] for k in sorted(kwargs)]])), sc.name + "(...)")
            except EvalError:
                raise ex
        finally:
            self.frames.pop()

    def _call_varargs(self, f, args, kwargs):
        from optilint.tensoreval import ReturnSignal
        sc = f.scope
        q = sc.qualname
        self.depth += 1
        if self.depth > self.max_depth:
            self.depth -= 1
            raise EvalError("recursion too deep")
        try:
            self.visited.add(q)
            env = Env(sc, f.env)
            ps = sc.params()
            for p, a in zip(ps, args):
                env.vars[p] = a
            extra = list(args[len(ps):])
            if extra and not sc.has_varargs():
                raise EvalError(f"too many arguments for {q}")
            if sc.has_varargs():
                env.vars[sc.node.args.vararg.arg] = tuple(extra)
            kwextra = {}
            for k, v in kwargs.items():
                if k in ps or k in sc.kwonly():
                    env.vars[k] = v
                elif sc.has_kwargs():
                    kwextra[k] = v
                else:
                    raise EvalError(f"unexpected keyword argument {k} for {q}")
            if sc.has_kwargs():
                env.vars[sc.node.args.kwarg.arg] = kwextra
            for p in ps + sc.kwonly():
                if p not in env.vars:
                    d = sc.default_of(p)
                    if d is None:
                        raise EvalError(f"missing argument {p} of {q}")
                    env.vars[p] = self.eval(d, f.env)
            if sc.kind == "lambda":
                return self.eval(sc.node.body, env)
            try:
                self.block(sc.node.body, env)
            except ReturnSignal as r:
                return r.value
            return None
        finally:
            self.depth -= 1

    def e_DictComp(self, e, env):
        return dict(self._comp(e, env, lambda en: (self._hashable(self.eval(e.key, en)), self.eval(e.value, en))))

    def e_SetComp(self, e, env):
        return list(dict.fromkeys(self._comp(e, env, lambda en: self._hashable(self.eval(e.elt, en)))))

    def _hashable(self, k):
        if isinstance(k, (Dual, Fraction)):
            return self.as_int(k)
        return k

    # ---------------------------------------------------------------- indexing
    def getitem(self, base, key):
        if isinstance(base, OpaqueVal):
            try:
                kk = self.vkey(key)
            except EvalError:
                kk = repr(key)
            return OpaqueVal(("getitem", base.key, kk), base.label + "[...]")
        if isinstance(base, Arr):
            key = self._norm_key(key)
            if isinstance(key, list):
                key = Arr([Dual(self.as_int(k)) for k in key], (len(key),))
            if isinstance(key, tuple) and any(isinstance(k, (Arr, list)) for k in key):
                k0 = key[0]
                if isinstance(k0, list):
                    k0 = Arr([Dual(self.as_int(k)) for k in k0], (len(k0),))
                if not isinstance(k0, Arr) or any(isinstance(k, (Arr, list)) for k in key[1:]):
                    raise EvalError("advanced indexing beyond a leading index array")
                if k0.isbool:
                    raise EvalError("boolean mask inside a tuple index")
                rows = [base.index((self.as_int(i),) + tuple(key[1:])) for i in k0.ravel().data]
                out = self.stack(rows) if rows else Arr([], (0,))
                if k0.ndim > 1 and isinstance(out, Arr):
                    # integer-array (gather) indexing: result shape = index shape + shape of what the remaining key selects
                    out = Arr(list(out.data), tuple(k0.shape) + tuple(out.shape[1:]))
                return out
            if isinstance(key, Arr) and not key.isbool and key.ndim == 1 and key.shape[0] == 0:
                return Arr([], (0,) + tuple(base.shape[1:]))
            if isinstance(key, Arr) and not key.isbool and key.ndim > 1:
                flat = self.num(self.getitem(base, key.ravel()))
                tail = tuple(flat.shape[1:]) if isinstance(flat, Arr) else ()
                return Arr(list(flat.data), tuple(key.shape) + tail)
        if isinstance(base, (tuple, list)) and isinstance(key, (Dual, Fraction)):
            key = self.as_int(key)
        if isinstance(base, dict) and isinstance(key, (Dual, Fraction)):
            key = self.as_int(key)
        return super().getitem(base, key)

    def e_Attribute(self, e, env):
        base = self.eval(e.value, env)
        a = e.attr
        if isinstance(base, OpaqueVal):
            return OpaqueVal(("attr", base.key, a), f"{base.label}.{a}")
        if isinstance(base, Ext) and base.name.startswith("class:"):
            csc = self.repo.find(base.name[len("class:"):])
            if csc is not None:
                for st in csc.node.body:
                    if isinstance(st, ast.AnnAssign) and isinstance(st.target, ast.Name) and st.target.id == a and st.value is not None:
                        return self.eval(st.value, self.module_env(csc.module))
                    if isinstance(st, ast.Assign) and any(isinstance(t, ast.Name) and t.id == a for t in st.targets):
                        return self.eval(st.value, self.module_env(csc.module))
                for c in csc.children:
                    if c.kind == "function" and c.name == a:
                        return Closure(c, self.module_env(c.module))
                raise EvalError(f"class {csc.name} has no attribute {a}")
        if isinstance(base, Arr):
            if a == "ndim":
                return base.ndim
            if a in ("flatten", "copy", "take", "sum", "transpose", "astype"):
                return ("method", base, a)
        if isinstance(base, OpenRecord) and a not in base.fields:
            found = base.cls is not None and any(c.kind == "function" and c.name == a for c in base.cls.children)
            if not found:
                return OpaqueVal(("attr", base.tname, a), f"{base.tname}.{a}")
        if isinstance(base, dict) and a == "values":
            return ("method", base, a)
        if isinstance(base, (str, list)) or (isinstance(base, dict) and a in ("update", "setdefault", "pop", "copy")):
            return ("pymethod", base, a)
        env2 = Env(env.scope, env)
        env2.vars["__b"] = base
        return super().e_Attribute(ast.Attribute(value=ast.Name(id="__b", ctx=ast.Load()), attr=a, ctx=ast.Load()), env2)

    def call_method(self, base, name, args, kwargs):
        if isinstance(base, Arr):
            if name in ("flatten",):
                return base.ravel()
            if name in ("copy", "astype"):
                return base
            if name == "take" and len(args) >= 1 and (len(args) == 1 or self.as_int(args[1]) == 0 or kwargs.get("axis", 0) == 0):
                return self.getitem(base, args[0])
            if name == "sum" and not args and not kwargs:
                return sum_d(base.data)
            if name == "transpose" and not args:
                return base.T()
            if name == "reshape":
                shp = args[0] if len(args) == 1 and isinstance(args[0], (tuple, list)) else tuple(args)
                return base.reshape([self.as_int(s) for s in shp])
        if isinstance(base, dict) and name == "values":
            return list(base.values())
        return super().call_method(base, name, args, kwargs)

    # ---------------------------------------------------------------- numpy
    def np_call(self, fn, args, kwargs):
        n = self.num
        if fn == "tile":
            reps = args[1]
            reps = (reps,) if not isinstance(reps, (tuple, list)) else tuple(reps)
            reps = tuple(self.as_int(r) for r in reps)
            x = n(args[0])
            if isinstance(x, Dual):
                x = Arr([x], (1,))
            d = max(len(reps), x.ndim)
            reps = (1,) * (d - len(reps)) + reps
            shp = (1,) * (d - x.ndim) + tuple(x.shape)
            x = Arr(list(x.data), shp)
            import itertools
            out_shape = tuple(r * s for r, s in zip(reps, shp))
            data = [x.get(tuple(i % s for i, s in zip(ix, shp))) for ix in itertools.product(*[range(k) for k in out_shape])]
            return Arr(data, out_shape)
        if fn == "tensordot":
            A, B = n(args[0]), n(args[1])
            axes = kwargs.get("axes", args[2] if len(args) > 2 else 2)
            return self.tensordot(A, B, axes)
        if fn == "linalg.det":
            A = n(args[0])
            if isinstance(A, Arr) and A.ndim > 2:
                lead = A.shape[:-2]
                cnt = 1
                for s in lead:
                    cnt *= s
                B = A.reshape((cnt,) + tuple(A.shape[-2:]))
                vals = [super(Sym, self).np_call("linalg.det", [B.index(i)], {}) for i in range(cnt)]
                return Arr(vals, tuple(lead))
        if fn in ("linalg.solve",):
            A, b = n(args[0]), n(args[1])
            return self.opaque("solve", [A, b], shape=b.shape if isinstance(b, Arr) else None)
        if fn == "linalg.inv":
            A = n(args[0])
            if not (isinstance(A, Arr) and A.is_diagonal()):
                return self.opaque("inv", [A], shape=A.shape)
        if fn in ("sqrt", "log", "exp", "abs", "log1p", "expm1", "sin", "cos", "tanh"):
            x = n(args[0])

            def one(v):
                c = rat_const(v.a)
                if fn == "sqrt" and c is not None and c >= 0:
                    import math
                    sn, sd = math.isqrt(c.numerator), math.isqrt(c.denominator)
                    if sn * sn == c.numerator and sd * sd == c.denominator:
                        return Dual(Fraction(sn, sd))
                return self.opaque(fn, [v])
            return x.map(one) if isinstance(x, Arr) else one(x)
        if fn == "diag":
            x = n(args[0])
            if isinstance(x, Arr) and x.ndim == 2:
                k = min(x.shape)
                return Arr([x.get((i, i)) for i in range(k)], (k,))
        if fn == "sum":
            x = n(args[0])
            ax = kwargs.get("axis", args[1] if len(args) > 1 else None)
            if isinstance(x, Arr) and ax is not None:
                ax = self.as_int(ax)
                if ax < 0:
                    ax += x.ndim
                import itertools
                shp = tuple(s for i, s in enumerate(x.shape) if i != ax)
                data = []
                for ix in itertools.product(*[range(s) for s in shp]):
                    data.append(sum_d(x.get(ix[:ax] + (j,) + ix[ax:]) for j in range(x.shape[ax])))
                return Arr(data, shp) if shp else data[0]
        if fn in ("ravel",):
            return n(args[0]).ravel()
        if fn == "take" and len(args) >= 2 and self.as_int(kwargs.get("axis", args[2] if len(args) > 2 else 0)) == 0:
            return self.getitem(n(args[0]), args[1])
        if fn == "prod" and isinstance(args[0], (tuple, list)):
            out = 1
            for x in args[0]:
                out *= self.as_int(x)
            return out
        if fn in ("concatenate", "hstack") and isinstance(args[0], (list, tuple)) and self.as_int(kwargs.get("axis", args[1] if len(args) > 1 else 0)) == 0:
            parts = [n(p) for p in args[0]]
            parts = [p if isinstance(p, Arr) else Arr([p], (1,)) for p in parts]
            if any(p.shape[1:] != parts[0].shape[1:] for p in parts):
                raise EvalError("concatenate shapes")
            return Arr([x for p in parts for x in p.data], (sum(p.shape[0] for p in parts),) + tuple(parts[0].shape[1:]))
        if fn in ("float64", "float32", "double", "asarray", "array") and len(args) == 1 and isinstance(args[0], (Dual, int, float, Fraction)) and not isinstance(args[0], bool):
            return n(args[0])
        if fn in ("multiply", "add", "subtract", "divide") and len(args) == 2:
            env = Env(None, None)
            env.vars["__l"], env.vars["__r"] = args
            op = {"multiply": ast.Mult(), "add": ast.Add(), "subtract": ast.Sub(), "divide": ast.Div()}[fn]
            return self.e_BinOp(ast.BinOp(left=ast.Name(id="__l", ctx=ast.Load()), op=op, right=ast.Name(id="__r", ctx=ast.Load())), env)
        if fn == "square":
            x = n(args[0])
            return x.map(lambda v: v * v) if isinstance(x, Arr) else x * x
        if fn in ("transpose",) and len(args) == 1:
            return n(args[0]).T()
        if fn in ("inner",):
            return matmul(n(args[0]), n(args[1]))
        if fn in ("stack", "vstack") and isinstance(args[0], (list, tuple)) and not kwargs and len(args) == 1:
            return self.stack([n(p) for p in args[0]])
        if fn in ("zeros", "ones", "empty") and args:
            shp = args[0]
            shp = (self.as_int(shp),) if not isinstance(shp, (tuple, list)) else tuple(self.as_int(s) for s in shp)
            sz = 1
            for s in shp:
                sz *= s
            return Arr([Dual(1 if fn == "ones" else 0) for _ in range(sz)], shp)
        if fn in ("dot", "vdot", "matmul"):
            A, B = n(args[0]), n(args[1])
            if isinstance(A, Arr) and isinstance(B, Arr) and (A.ndim > 2 or B.ndim > 2):
                raise EvalError("dot of arrays with more than two axes")
        if fn == "einsum" and args and isinstance(args[0], str) and not kwargs:
            return self.einsum(args[0], [n(a) for a in args[1:]])
        return super().np_call(fn, args, kwargs)

    def einsum(self, spec, ops):
        import itertools
        spec = spec.replace(" ", "")
        if "." in spec:
            raise EvalError("einsum with ellipsis")
        lhs, _, rhs = spec.partition("->")
        ins = lhs.split(",")
        if len(ins) != len(ops) or not all(isinstance(o, Arr) and o.ndim == len(i) for o, i in zip(ops, ins)):
            raise EvalError("einsum operands")
        dims = {}
        for o, i in zip(ops, ins):
            for ch, sz in zip(i, o.shape):
                if dims.setdefault(ch, sz) != sz:
                    raise EvalError("einsum dimensions")
        if "->" not in spec:
            rhs = "".join(sorted(ch for ch in dims if sum(i.count(ch) for i in ins) == 1))
        summed = [ch for ch in dims if ch not in rhs]
        data = []
        for ix in itertools.product(*[range(dims[ch]) for ch in rhs]):
            fixed = dict(zip(rhs, ix))
            tot = Dual(0)
            for sx in itertools.product(*[range(dims[ch]) for ch in summed]):
                fixed.update(zip(summed, sx))
                term = Dual(1)
                for o, i in zip(ops, ins):
                    term = term * o.get(tuple(fixed[ch] for ch in i))
                tot = tot + term
            data.append(tot)
        return Arr(data, tuple(dims[ch] for ch in rhs)) if rhs else data[0]

    def tensordot(self, A, B, axes):
        import itertools
        if isinstance(axes, (int, Fraction, Dual)):
            k = self.as_int(axes)
            ax_a, ax_b = list(range(A.ndim - k, A.ndim)), list(range(k))
        else:
            ax_a, ax_b = axes
            ax_a = [self.as_int(ax_a)] if not isinstance(ax_a, (list, tuple)) else [self.as_int(x) for x in ax_a]
            ax_b = [self.as_int(ax_b)] if not isinstance(ax_b, (list, tuple)) else [self.as_int(x) for x in ax_b]
        ax_a = [x + A.ndim if x < 0 else x for x in ax_a]
        ax_b = [x + B.ndim if x < 0 else x for x in ax_b]
        if [A.shape[i] for i in ax_a] != [B.shape[i] for i in ax_b]:
            raise EvalError("tensordot shapes")
        fa = [i for i in range(A.ndim) if i not in ax_a]
        fb = [i for i in range(B.ndim) if i not in ax_b]
        csh = [A.shape[i] for i in ax_a]
        out_shape = tuple(A.shape[i] for i in fa) + tuple(B.shape[i] for i in fb)
        data = []
        for ix in itertools.product(*[range(s) for s in out_shape]):
            ia, ib = ix[:len(fa)], ix[len(fa):]
            tot = Dual(0)
            for c in itertools.product(*[range(s) for s in csh]):
                pa = [0] * A.ndim
                pb = [0] * B.ndim
                for p, v in zip(fa, ia):
                    pa[p] = v
                for p, v in zip(ax_a, c):
                    pa[p] = v
                for p, v in zip(fb, ib):
                    pb[p] = v
                for p, v in zip(ax_b, c):
                    pb[p] = v
                tot = tot + A.get(tuple(pa)) * B.get(tuple(pb))
            data.append(tot)
        return Arr(data, out_shape) if out_shape else data[0]


# ------------------------------------------------------------------ the world the factories are run in

class World:
    """One interpreter + the symbolic mesh / function space / material models."""

    def __init__(self, ctx):
        self.ctx = ctx
        self.I = I = Sym(ctx.repo)
        self.mod = ctx.need_module(M)
        self.fsmod = ctx.need_module(FS)
        S = I.sym
        self.U = I.sym_arr("U", (NNODE, ND))
        self.UP = I.sym_arr("UP", (NNODE, ND))
        self.X = I.sym_arr("X", (NNODE, ND))
        self.N = I.sym_arr("N", (NE, NQ, NN))
        self.dN = I.sym_arr("dN", (NE, NQ, NN, ND))
        self.w = I.sym_arr("w", (NE, NQ))
        self.Q = I.sym_arr("Q", (NE, NQ, NSTATE))
        self.dt = S("dt")
        self.conns = Arr([Dual(i) for row in CONNS for i in row], (NE, NN))
        self.blocks = {k: Arr([Dual(i) for i in v], (len(v),)) for k, v in BLOCKS.items()}
        cls = lambda modname, cname: ctx.repo.find(f"{modname}:{cname}")
        pe = OpenRecord("ParentElement", ["coordinates", "degree"], [I.sym_arr("xi", (NN, ND)), 1], cls=cls("optimism.Interpolants", "ParentElement"))
        self.mesh = OpenRecord("Mesh", ["coords", "conns", "blocks", "parentElement"], [self.X, self.conns, self.blocks, pe],
                               cls=cls("optimism.Mesh", "Mesh"))
        self.qr = OpenRecord("QuadratureRule", ["xigauss", "wgauss"], [I.sym_arr("xg", (NQ, ND)), I.sym_arr("wg", (NQ,))],
                             cls=cls("optimism.QuadratureRule", "QuadratureRule"))
        self.fs = OpenRecord("FunctionSpace", ["shapes", "vols", "shapeGrads", "mesh", "quadratureRule", "isAxisymmetric"],
                             [self.N, self.w, self.dN, self.mesh, self.qr, False], cls=cls(FS, "FunctionSpace"))
        self._fs = {False: self.fs}
        self.usyms = frozenset(I.num(x).a.n.atoms().pop() for x in self.U.data)
        # the pressure-projection interpolation (another layer): shape function values are symbols that depend on the degree only
        I.special["optimism.Interpolants:make_parent_element_2d"] = self._parent_element
        I.special["optimism.Interpolants:compute_shapes"] = self._compute_shapes
        self.materials = {}

    def fs_for(self, mode):
        """the function space as the user must build it for this 2D idealisation (axisymmetric volumes carry 2 pi r: still symbols here)"""
        axi = (mode == "axisymmetric")
        if axi not in self._fs:
            f = self.fs
            self._fs[axi] = OpenRecord(f.tname, list(f.fields), [axi if n == "isAxisymmetric" else v for n, v in zip(f.fields, f.values)], cls=f.cls)
        return self._fs[axi]

    # ---- other layers
    def _parent_element(self, it, args, kw):
        d = kw.get("degree", args[0] if args else None)
        d = it.as_int(d)
        nn = (d + 1) * (d + 2) // 2
        return OpenRecord("ParentElement", ["degree", "coordinates"], [d, it.sym_arr(f"xiP{d}", (nn, ND))],
                          cls=self.ctx.repo.find("optimism.Interpolants:ParentElement"))

    def _compute_shapes(self, it, args, kw):
        pe = kw.get("parentElement", args[0] if args else None)
        pts = kw.get("evaluationPoints", args[1] if len(args) > 1 else None)
        if not isinstance(pe, Record) or not isinstance(pts, Arr):
            return it.opaque_val("compute_shapes", list(args))
        nn = pe.get("coordinates").shape[0]
        npts = pts.shape[0]
        vals = it.opaque("shapeP", [pe.get("degree"), pe.get("coordinates"), pts], shape=(npts, nn))
        grads = it.opaque("dshapeP", [pe.get("degree"), pe.get("coordinates"), pts], shape=(npts, nn, ND))
        return OpenRecord("ShapeFunctions", ["values", "gradients"], [vals, grads],
                          cls=self.ctx.repo.find("optimism.Interpolants:ShapeFunctions"))

    # ---- material models: uninterpreted functions
    def material(self, name):
        if name in self.materials:
            return self.materials[name]
        I = self.I

        def energy(it, args, kw):
            a = list(args) + [kw[k] for k in sorted(kw)]
            it.log.append(("energy", name, a))
            return it.opaque(f"SE:{name}", a)

        def state_new(it, args, kw):
            a = list(args) + [kw[k] for k in sorted(kw)]
            it.log.append(("state", name, a))
            return it.opaque(f"Qnew:{name}", a, shape=(NSTATE,))

        def qoi(it, args, kw):
            a = list(args) + [kw[k] for k in sorted(kw)]
            it.log.append(("qoi", name, a))
            return it.opaque(f"QOI:{name}", a)

        def initial(it, args, kw):
            return Arr([I.sym(f"Q0{name}_{k}") for k in range(NSTATE)], (NSTATE,))
        rec = OpenRecord("MaterialModel", ["compute_energy_density", "compute_initial_state", "compute_state_new", "compute_material_qoi", "density"],
                         [PyFunc(f"{name}.compute_energy_density", energy), PyFunc(f"{name}.compute_initial_state", initial),
                          PyFunc(f"{name}.compute_state_new", state_new), PyFunc(f"{name}.compute_material_qoi", qoi), I.sym(f"rho{name}")])
        self.materials[name] = rec
        return rec

    def newmark(self):
        return OpenRecord("NewmarkParameters", ["gamma", "beta"], [self.I.sym("gamma"), self.I.sym("beta")],
                          cls=self.ctx.repo.find(f"{M}:NewmarkParameters"))

    def fn(self, modname, name):
        return self.I.module_value(self.ctx.need_module(modname), name)

    def call(self, f, *args, **kw):
        return self.I.call(f, list(args), kw)

    # ---- helpers on results
    def rat(self, v):
        v = self.I.num(v)
        if isinstance(v, Arr):
            if v.size() != 1:
                raise EvalError(f"array of shape {v.shape} where a scalar is expected")
            v = v.data[0]
        return _A.norm(v.a)

    def is_zero(self, r):
        return _A.is_zero(_A.norm(r))

    def same(self, a, b):
        """exact equality of two numeric values (scalars or arrays of the same shape); None when one of them is not numeric"""
        if isinstance(a, (tuple, list)) and isinstance(b, (tuple, list)):
            if len(a) != len(b):
                return False
            rs = [self.same(x, y) for x, y in zip(a, b)]
            return False if any(r is False for r in rs) else (None if any(r is None for r in rs) else True)
        try:
            a, b = self.I.num(a), self.I.num(b)
        except EvalError:
            return None             # not a numeric value (uninterpreted object): cannot compare
        if isinstance(a, Arr) and a.size() == 1 and isinstance(b, Dual):
            a = a.data[0]
        if isinstance(b, Arr) and b.size() == 1 and isinstance(a, Dual):
            b = b.data[0]
        if isinstance(a, Arr) != isinstance(b, Arr):
            return False
        if isinstance(a, Arr):
            return a.shape == b.shape and all(self.is_zero(x.a - y.a) for x, y in zip(a.data, b.data))
        return self.is_zero(a.a - b.a)

    def udeps(self, v):
        return self.I.deps(v) & self.usyms

    def nonaffine(self, r: Rat, syms=None):
        """monomials of the numerator of r that are not affine in the given base symbols (through explicit occurrence or through an
        uninterpreted application that depends on them); [] means r is affine.  A denominator that depends on them -> [('denominator',)]"""
        syms = self.usyms if syms is None else syms
        I = self.I
        r = simplify(_A.norm(r))
        if I.deps_of_rat(Rat(r.d)) & syms:
            return [("denominator", repr(r.d))]
        bad = []
        for m, c in r.n.t.items():
            deg = 0
            opaque = []
            for k, e in m:
                if k in syms:
                    deg += e
                elif I.atom_deps.get(k, frozenset()) & syms:
                    deg += 2 * e
                    opaque.append(k)
            if deg > 1:
                bad.append((m, opaque, c))
        return bad

    def element_of_state(self, v):
        """(e, q) of the quadrature point whose internal variables are `v` (the state symbols are the locator of a material call)"""
        out = set()
        for r in self.I._rats(v):
            for a in r.atoms():
                if a.startswith("Q_"):
                    p = a.split("_")
                    out.add((int(p[1]), int(p[2])))
        return out
