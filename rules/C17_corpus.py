"""C17_corpus -- whole-module rewrites of optimism/ScalarRootFind.py used by the thorough tier of rules/C17.py (test inputs of the checker,
not rules).  Each module below is a behaviour-preserving restructuring of the root finder in a different style; MUTATIONS lists one-line
edits of them that break the contract and the rule that must refute each."""

NAMEDTUPLE_CLASS_STYLE = r'''from collections import namedtuple
from functools import partial, reduce
from typing import NamedTuple

import jax
import jax.numpy as np
from jax.lax import custom_root, while_loop

SolutionInfo = namedtuple('SolutionInfo', ['converged', 'iterations', 'function_calls', 'residual_norm', 'correction_norm'])

Settings = namedtuple('Settings', ['max_iters', 'x_tol', 'r_tol'])


class _Carry(NamedTuple):
    i: int
    root: float
    F: float
    DF: float
    dx: float
    dxOld: float
    xl: float
    xh: float
    converged: bool


def get_settings(max_iters=50, x_tol=1e-13, r_tol=0):
    opts = dict(max_iters=max_iters, x_tol=x_tol, r_tol=r_tol)
    return Settings(**opts)


class _Solver:
    """callable handed to custom_root"""
    def __init__(self, bracket, settings):
        self.bracket = bracket
        self.settings = settings

    def __call__(self, residual, guess):
        return rtsafe_(residual, guess, self.bracket, self.settings)


def _tangent(g, y):
    slope = g(1.0)
    return np.divide(y, slope)


def find_root(f, x0, bracket, settings):
    return custom_root(f, x0, _Solver(bracket, settings), _tangent, has_aux=True)


def _start(x0, lo, hi, fl, fh):
    x0 = np.minimum(np.maximum(x0, lo), hi)
    bracketed = np.less(fl*fh, 0.0)
    x0 = jax.lax.select(bracketed, x0, np.nan)
    done = False
    for xEnd, fEnd in zip((lo, hi), (fl, fh)):
        hit = fEnd == 0.0
        x0, done = jax.tree_util.tree_map(partial(np.where, hit), (xEnd, True), (x0, done))
    return x0, done


def _choose(c: _Carry):
    reject = [((c.root - c.xh)*c.DF - c.F) * ((c.root - c.xl)*c.DF - c.F) > 0,
              np.abs(2.*c.F) > np.abs(c.dxOld*c.DF)]
    return reduce(np.logical_or, reject)


def _advance(c: _Carry, fun, tol):
    useBisection = _choose(c)
    both = [step(c.root, c.xl, c.xh, c.DF, c.F) for step in (bisection_step, newton_step)]
    root, dx, stalled = jax.tree_util.tree_map(lambda b, n: np.where(useBisection, b, n), *both)
    F, DF = fun(root)
    below = F < 0
    done = stalled | (np.abs(dx) < tol[0]) | (np.abs(F) < tol[1])
    return c._replace(i=c.i + 1, root=root, F=F, DF=DF, dx=dx, dxOld=c.dx,
                      xl=np.where(below, root, c.xl), xh=np.where(below, c.xh, root), converged=done)


def rtsafe_(f, x0, bracket, settings):
    max_iters, x_tol, r_tol = settings
    fun = jax.value_and_grad(f)
    lo, hi = bracket
    fl, fh = jax.vmap(f)(np.asarray(bracket))
    functionCalls = 2
    x0, converged = _start(x0, lo, hi, fl, fh)
    xl, xh = (lo, hi) if False else jax.lax.cond(fl < 0, lambda: (lo, hi), lambda: (hi, lo))
    width = np.abs(hi - lo)
    F, DF = fun(x0)
    functionCalls += 1
    first = _Carry(i=0, root=x0, F=F, DF=DF, dx=width, dxOld=width, xl=xl, xh=xh, converged=converged)
    last = while_loop(lambda c: np.logical_not(c.converged) & (c.i < max_iters),
                      partial(_advance, fun=fun, tol=(x_tol, r_tol)), first)
    x = np.where(last.converged, last.root, np.nan)
    return x, SolutionInfo(last.converged, last.i, functionCalls, np.abs(last.F), np.abs(last.dx))


def bisection_step(x, xl, xh, df, f):
    dx = 0.5*(xh - xl)
    x = xl + dx
    converged = (x == xl)
    return x, dx, converged


def newton_step(x, xl, xh, df, f):
    dx = -f/df
    temp = x
    x = x + dx
    converged = (x == temp)
    return x, dx, converged
'''

DICT_CARRY_EARLY_EXIT_STYLE = r'''from collections import namedtuple

import jax
import jax.numpy as np
from jax import lax

SolutionInfo = namedtuple('SolutionInfo', ['converged', 'iterations', 'function_calls', 'residual_norm', 'correction_norm'])

Settings = namedtuple('Settings', ['max_iters', 'x_tol', 'r_tol'])


def get_settings(max_iters=50, x_tol=1e-13, r_tol=0):
    return Settings._make([max_iters, x_tol, r_tol])


def find_root(f, x0, bracket, settings):
    def solve(F, X0):
        return _safeguarded_newton(F, X0, bracket, settings)
    return lax.custom_root(f, x0, solve, tangent_solve=lambda g, y: y*(1.0/g(1.0)), has_aux=True)


def _info(converged, iters, calls, F, dx):
    return SolutionInfo(converged=converged, function_calls=calls, iterations=iters, residual_norm=np.abs(F), correction_norm=np.abs(dx))


def _safeguarded_newton(f, x0, bracket, settings):
    fAndDf = jax.value_and_grad(f)
    a, b = bracket[0], bracket[1]
    fa, fb = f(a), f(b)

    start = np.clip(x0, a_min=a, a_max=b)
    start = np.where(np.sign(fa) * np.sign(fb) < 0, start, np.nan)
    aIsRoot, bIsRoot = fa == 0.0, fb == 0.0
    start = np.where(bIsRoot, b, np.where(aIsRoot, a, start))
    finished = aIsRoot | bIsRoot

    neg, pos = lax.cond(fa < 0, lambda: (a, b), lambda: (b, a))
    F0, DF0 = fAndDf(start)
    span = np.abs(b - a)

    def iterate():
        def keep_going(s):
            return ~s['done'] & (s['n'] < settings.max_iters)

        def step(s):
            x, Fx, DFx = s['x']
            lo, hi = s['ends']
            newtonLeaves = ((x - hi)*DFx - Fx) * ((x - lo)*DFx - Fx) > 0
            newtonSlow = np.abs(2.*Fx) > np.abs(s['before']*DFx)
            xNew, dxNew, stuck = lax.cond(newtonLeaves | newtonSlow, bisection_step, newton_step, x, lo, hi, DFx, Fx)
            FNew, DFNew = fAndDf(xNew)
            ends = lax.cond(FNew < 0, lambda: (xNew, hi), lambda: (lo, xNew))
            done = stuck | (np.abs(dxNew) < settings.x_tol) | (np.abs(FNew) < settings.r_tol)
            return dict(x=(xNew, FNew, DFNew), ends=ends, last=dxNew, before=s['last'], done=done, n=s['n'] + 1)

        end = lax.while_loop(keep_going, step, dict(x=(start, F0, DF0), ends=(neg, pos), last=span, before=span, done=finished, n=0))
        xEnd, FEnd, _ = end['x']
        return np.where(end['done'], xEnd, np.nan), _info(end['done'], end['n'], 3, FEnd, end['last'])

    # an end point that is a root: nothing to iterate
    return lax.cond(finished, lambda: (start, _info(True, 0, 3, F0, span)), iterate)


def bisection_step(x, xl, xh, df, f):
    mid = 0.5*(xl + xh)
    return mid, mid - xl, mid == xl


def newton_step(x, xl, xh, df, f):
    dx = -f/df
    return x + dx, dx, x + dx == x
'''

CALLABLE_CLASS_STYLE = r'''from collections import namedtuple
import functools

import jax
import jax.numpy as np
from jax import lax

SolutionInfo = namedtuple('SolutionInfo', ['converged', 'iterations', 'function_calls', 'residual_norm', 'correction_norm'])

Settings = namedtuple('Settings', ['max_iters', 'x_tol', 'r_tol'])

_implicit_root = functools.partial(lax.custom_root, has_aux=True)


def get_settings(max_iters=50, x_tol=1e-13, r_tol=0):
    settings = Settings(max_iters, x_tol=x_tol, r_tol=r_tol)
    return settings


def find_root(f, x0, bracket, settings):
    return _implicit_root(f, x0, functools.partial(rtsafe_, bracket=bracket, settings=settings), _solve_linear)


def _solve_linear(linearized, rhs):
    return rhs / linearized(np.ones_like(rhs))


class _Iteration:
    """one safeguarded Newton iteration as loop guard and loop body"""

    ROOT, STEP, PREV, RES, SLOPE, NEG, POS, DONE, COUNT = range(9)

    def __init__(self, valueAndSlope, settings):
        self.valueAndSlope = valueAndSlope
        self.maxIters = settings.max_iters
        self.xTol = settings.x_tol
        self.rTol = settings.r_tol

    def unfinished(self, state):
        return np.logical_not(state[self.DONE]) & (state[self.COUNT] < self.maxIters)

    def use_bisection(self, state):
        root, F, DF = state[self.ROOT], state[self.RES], state[self.SLOPE]
        leaves = ((root - state[self.POS])*DF - F) * ((root - state[self.NEG])*DF - F) > 0
        slow = np.abs(2.*F) > np.abs(state[self.PREV]*DF)
        return leaves | slow

    def __call__(self, state):
        root, dx, stalled = lax.cond(self.use_bisection(state), bisection_step, newton_step,
                                     state[self.ROOT], state[self.NEG], state[self.POS], state[self.SLOPE], state[self.RES])
        F, DF = self.valueAndSlope(root)
        new = list(state)
        new[self.ROOT], new[self.STEP], new[self.PREV], new[self.RES], new[self.SLOPE] = root, dx, state[self.STEP], F, DF
        new[self.NEG] = lax.select(F < 0, root, state[self.NEG])
        new[self.POS] = lax.select(F < 0, state[self.POS], root)
        new[self.DONE] = np.any(np.array([stalled, np.abs(dx) < self.xTol, np.abs(F) < self.rTol]))
        new[self.COUNT] = state[self.COUNT] + 1
        return new


def _rtsafe(f, x0, bracket, settings):
    valueAndSlope = jax.value_and_grad(f)
    fl, fh = [f(b) for b in bracket]
    calls = 2
    x0 = lax.clamp(bracket[0], x0, bracket[1])
    x0 = lax.select(fl*fh < 0.0, x0, np.full_like(x0, np.nan))
    x0, converged = lax.cond(fl == 0.0, lambda: (bracket[0], True), lambda: (x0, False))
    x0, converged = lax.cond(fh == 0.0, lambda: (bracket[1], True), lambda: (x0, converged))
    neg, pos = lax.cond(fl < 0, lambda: tuple(bracket), lambda: tuple(reversed(bracket)))
    width = np.abs(bracket[1] - bracket[0])
    F, DF = valueAndSlope(x0)
    calls += 1
    loop = _Iteration(valueAndSlope, settings)
    state = lax.while_loop(loop.unfinished, loop, [x0, width, width, F, DF, neg, pos, converged, np.int32(0)])
    stats = (state[loop.DONE], state[loop.COUNT], calls, np.abs(state[loop.RES]), np.abs(state[loop.STEP]))
    return np.where(state[loop.DONE], state[loop.ROOT], np.nan), SolutionInfo(*stats)


rtsafe_ = jax.jit(_rtsafe, static_argnums=(0, 3))


def bisection_step(x, xl, xh, df, f):
    dx = 0.5*(xh - xl)
    x = xl + dx
    converged = (x == xl)
    return x, dx, converged


def newton_step(x, xl, xh, df, f):
    dx = -f/df
    temp = x
    x = x + dx
    converged = (x == temp)
    return x, dx, converged
'''

MODULES = {"typing.NamedTuple carry, callable solver object, tree_map selects, vmap over the bracket": NAMEDTUPLE_CLASS_STYLE,
           "nested dict carry, loop skipped when an end point is a root, renamed solver": DICT_CARRY_EARLY_EXIT_STYLE,
           "list carry indexed by class constants, loop guard and body as methods, jit alias, partial custom_root": CALLABLE_CLASS_STYLE}

MUTATIONS = [
    # (module, name, old, new, rule that must refute)
    (NAMEDTUPLE_CLASS_STYLE, "namedtuple style: step before last never shifted", "dxOld=c.dx,", "dxOld=c.dxOld,", "O5/T5-loop-carry-slots"),
    (NAMEDTUPLE_CLASS_STYLE, "namedtuple style: maintenance flipped", "xl=np.where(below, root, c.xl), xh=np.where(below, c.xh, root)",
     "xl=np.where(below, c.xl, root), xh=np.where(below, root, c.xh)", "O3/T6-sign-convention"),
    (NAMEDTUPLE_CLASS_STYLE, "namedtuple style: clamp in the wrong order", "    x0 = np.minimum(np.maximum(x0, lo), hi)\n", "    x0 = np.maximum(np.minimum(x0, lo), hi)\n",
     "O1-O2/T2-guess-preparation-order"),
    (NAMEDTUPLE_CLASS_STYLE, "namedtuple style: tolerances exchanged at the call", "tol=(x_tol, r_tol)", "tol=(r_tol, x_tol)", "O4/T5-settings-wiring"),
    (NAMEDTUPLE_CLASS_STYLE, "namedtuple style: result not masked", "    x = np.where(last.converged, last.root, np.nan)\n", "    x = last.root\n", "O6/T1-result-masked"),
    (DICT_CARRY_EARLY_EXIT_STYLE, "dict style: stagnation flag dropped", "done = stuck | (np.abs(dxNew)", "done = (np.abs(dxNew)", "O6/T1-result-masked"),
    (DICT_CARRY_EARLY_EXIT_STYLE, "dict style: end points paired with the wrong end", "start = np.where(bIsRoot, b, np.where(aIsRoot, a, start))",
     "start = np.where(bIsRoot, a, np.where(aIsRoot, b, start))", "O1-O2/T5-endpoint-pairing"),
    (DICT_CARRY_EARLY_EXIT_STYLE, "dict style: early exit returns the raw guess", "lambda: (start, _info(True, 0, 3, F0, span)), iterate)",
     "lambda: (x0, _info(True, 0, 3, F0, span)), iterate)", "O1-O2/T5-endpoint-pairing"),
    (DICT_CARRY_EARLY_EXIT_STYLE, "dict style: tangent solve linearised at y", "tangent_solve=lambda g, y: y*(1.0/g(1.0))", "tangent_solve=lambda g, y: y*(1.0/g(y))",
     "O7/T5-custom-root-wiring"),
    (DICT_CARRY_EARLY_EXIT_STYLE, "dict style: max_iters ignored", "return ~s['done'] & (s['n'] < settings.max_iters)", "return ~s['done'] & (s['n'] < 50)", "O5/T5-loop-carry-slots"),
    (CALLABLE_CLASS_STYLE, "class style: orientation flipped", "lambda: tuple(bracket), lambda: tuple(reversed(bracket))", "lambda: tuple(reversed(bracket)), lambda: tuple(bracket)",
     "O3/T6-sign-convention"),
    (CALLABLE_CLASS_STYLE, "class style: second end-point check resets the flag", "lambda: (bracket[1], True), lambda: (x0, converged))", "lambda: (bracket[1], True), lambda: (x0, False))",
     "O1-O2/T5-endpoint-pairing"),
    (CALLABLE_CLASS_STYLE, "class style: tolerances stored under the wrong attribute", "self.xTol = settings.x_tol\n        self.rTol = settings.r_tol",
     "self.xTol = settings.r_tol\n        self.rTol = settings.x_tol", "O4/T5-settings-wiring"),
    (CALLABLE_CLASS_STYLE, "class style: tangent solve divides by g(rhs)", "return rhs / linearized(np.ones_like(rhs))", "return rhs / linearized(rhs)", "O7/T5-custom-root-wiring"),
]
