"""Dimensional homogeneity of the material models by symbolic scaling (rule T8-dimensional-homogeneity).

Every material constant enters through a *named* property key whose physical dimension is part of the library's
documented interface (a modulus is a stress, a relaxation time is a time, ...).  The model is interpreted twice on the
same symbolic inputs (optilint.tensoreval, exact rational normal forms, transcendental functions of symbolic arguments
kept as opaque atoms keyed by their normalised argument):

    run 1:  properties[key] = prop<key>,                         dt = dt
    run 2:  properties[key] = prop<key> * U_P^p * U_T^t * ...,   dt = dt * U_T      ((p, t) = dimension of the key)

A dimensionally consistent model must return  energy_2 == U_P * energy_1  (an energy density is a stress), a state update
that does not depend on the units at all (internal variables are strains), and a dissipation that scales like an energy.
A dropped or doubled factor of dt, a modulus where a viscosity is needed, a strain-rate normalised by a strain, ...
change the result when the unit of time or stress is changed, and are reported with the offending scaling.
Both outcomes of every undecidable comparison are explored (path splitting), so every branch is covered.
"""
from __future__ import annotations

from fractions import Fraction

from optilint import tensoreval as te
from optilint.tensoreval import Dual, Arr, EvalError, Raised, _A, rat_is_zero
from optilint.expr import simplify
from . import materials as mt

# dimension = (stress exponent, time exponent)
P, T, ONE = (1, 0), (0, 1), (0, 0)
UNITS = {
    "elastic modulus": P, "poisson ratio": ONE, "shear modulus": P, "bulk modulus": P, "Jm parameter": ONE,
    "yield strength": P, "hardening modulus": P, "saturation strength": P, "reference plastic strain": ONE,
    "hardening exponent": ONE, "rate sensitivity stress": P, "rate sensitivity exponent": ONE,
    "reference plastic strain rate": (0, -1),
    "equilibrium bulk modulus": P, "equilibrium shear modulus": P,
    "non equilibrium shear modulus": P, "relaxation time": T,
    "non equilibrium shear modulus 1": P, "non equilibrium shear modulus 2": P, "non equilibrium shear modulus 3": P,
    "relaxation time 1": T, "relaxation time 2": T, "relaxation time 3": T,
}
UP, UT = "U_P", "U_T"


def _scale(d, dim):
    p, t = dim
    out = d
    for sym, k in ((UP, p), (UT, t)):
        if k:
            f = Dual(_A.atom(sym))
            out = out * te.d_pow(f, k) if k > 0 else out / te.d_pow(f, -k)
    return out


class UnitProps(mt.PropDict):
    """Property dictionary whose symbolic values carry unit-scaling factors (run 2) or not (run 1)."""

    def __init__(self, interp, options, option_keys, scaled):
        super().__init__(interp, options, option_keys)
        self._scaled = scaled
        self.read = set()

    def _symbol(self, key):
        if key not in UNITS:
            raise EvalError(f"no physical dimension is recorded for property key '{key}'")
        nm = "prop<" + key + ">"
        self._interp.positive.add(nm)
        v = Dual(_A.atom(nm))
        if self._scaled:
            v = _scale(v, UNITS[key])
        self.read.add(key)
        return v

    def __missing__(self, key):
        if key in self._option_keys or not isinstance(key, str):
            raise KeyError(key)
        v = self._symbol(key)
        self[key] = v
        return v


def _diag(prefix):
    return Arr([Dual(_A.atom(f"{prefix}{i}")) if i == j else Dual(0) for i in range(3) for j in range(3)], (3, 3))


def _flat(v):
    if isinstance(v, Arr):
        return list(v.ravel().data)
    if isinstance(v, (tuple, list)):
        out = []
        for x in v:
            out += _flat(x)
        return out
    return [v]


def _state_like(state, prefix):
    """symbolic state with the shape of the initial state; tensor segments are kept diagonal so that spectral functions apply"""
    if not isinstance(state, Arr):
        return state
    n = state.shape[0]
    data = []
    for k in range(n):
        c = te.rat_const(state.data[k].a)
        # entries of a 3x3 block that are off-diagonal stay 0; diagonal / scalar entries become symbols near their initial value
        data.append(None if c is None else c)
    # identify 3x3 blocks: runs of 9 after scalar slots (layout: scalars first, then row-major tensors) -- generic heuristic on length
    out = []
    scalars = n % 9
    for k in range(n):
        if k < scalars:
            out.append(Dual(_A.atom(f"{prefix}{k}")))
        else:
            r = (k - scalars) % 9
            i, j = divmod(r, 3)
            out.append(Dual(_A.atom(f"{prefix}{k}")) if i == j else Dual(0))
    return Arr(out, state.shape)


def evaluate(ctx, mname, fac, sc, option_keys, scaled, policy, what):
    """Interpret one model scenario; returns dict name -> list of Dual (flattened outputs)."""
    mod = ctx.need_module(mname)
    I = mt.make_interp(ctx.repo)
    I.policy = policy
    I.positive.update({UP, UT, "dt", "eqpsRoot"})

    def find_root(interp, args, kw):
        return (Dual(_A.atom("eqpsRoot")), None)
    I.special["optimism.ScalarRootFind:find_root"] = find_root
    I.special["optimism.ScalarRootFind:get_settings"] = lambda interp, args, kw: None
    props = UnitProps(I, sc, option_keys, scaled)
    te.OPAQUE[0] = True
    try:
        model = I.call(I.module_value(mod, fac), [props], {})
        state0 = I.call(model.get("compute_initial_state"), [], {})
        if isinstance(state0, Arr):
            state0 = state0.ravel()
        state = _state_like(state0, "q")
        H = _diag("h")
        dt = Dual(_A.atom("dt"))
        if scaled:
            dt = _scale(dt, T)
        out = {}
        for name in what:
            f = model.get(name) if hasattr(model, "get") else None
            if f is None:
                continue
            out[name] = [I.num(x) for x in _flat(I.call(f, [H, state, dt], {}))]
        return out, props.read, I.visited
    finally:
        te.OPAQUE[0] = False


def run(ctx, rule, model_filter, min_scenarios=1):
    """model_filter: iterable of module names from materials.MODELS to check."""
    n_ok = 0
    what = {"compute_energy_density": P, "compute_state_new": ONE, "compute_material_qoi": P}
    for (mname, fac, kind) in mt.MODELS:
        if mname not in model_filter or kind != "solid":
            continue
        fsc = ctx.need(f"{mname}:{fac}")
        extra = ["optimism.material.Hardening"] if mname.endswith("J2Plastic") else []
        values, optional, presence = mt.option_space(ctx, [mname] + extra)
        for sc in mt.scenarios(values, optional, presence):
            label = ", ".join(f"{k}={v}" for k, v in sorted(sc.items())) or "defaults"
            for pol in (True, False):
                cons = f"{mname.split('.')[-1]}[{label}][comparisons={pol}]"
                try:
                    r1, read, vis = evaluate(ctx, mname, fac, sc, set(values) | presence, False, pol, what)
                    r2, _, _ = evaluate(ctx, mname, fac, sc, set(values) | presence, True, pol, what)
                except Raised:
                    continue        # the factory rejects this option combination
                except (EvalError, KeyError, AttributeError, IndexError, TypeError, ValueError, ZeroDivisionError) as ex:
                    ctx.notes.append(f"units: {cons} not interpretable on symbolic diagonal data ({str(ex)[:120]})")
                    continue
                for name, dim in what.items():
                    if name not in r1:
                        continue
                    a, b = r1[name], r2.get(name, [])
                    bad = None
                    if len(a) != len(b):
                        bad = "result shape depends on the units"
                    else:
                        for k, (x, y) in enumerate(zip(a, b)):
                            want = _scale(x, dim)
                            if not _A.equal(_A.norm(simplify(y.a)), _A.norm(simplify(want.a))):
                                bad = f"component {k}: after scaling stresses by U_P and times by U_T the value is {_short(y.a)} but " \
                                      f"{'U_P * ' if dim == P else ''}(unscaled value) = {_short(want.a)}"
                                break
                    n_ok += 1
                    ctx.decide(rule, bad is None, fsc, None, construct=f"{cons}:{name}",
                               detail=f"{name} is homogeneous of degree {dim} in (stress, time) units; keys read: {sorted(read)}",
                               bad_detail=f"{name} of {mname.split('.')[-1]} [{label}] is not dimensionally homogeneous: {bad} "
                                          f"(the result depends on the unit of stress or time; a factor of dt or of a modulus is missing or doubled)")
                ctx.extra_cov.setdefault("functions_interpreted", set())
    if n_ok < min_scenarios:
        from optilint.core import Incomplete
        raise Incomplete(f"only {n_ok} unit-scaling comparisons could be evaluated ({min_scenarios} expected)")
    return n_ok


def _short(r, n=160):
    s = repr(r)
    return s if len(s) <= n else s[:n] + "..."
