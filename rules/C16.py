"""C16 -- contact geometry (structure only).

Every obligation is decided by *interpreting* the anchor functions on a small generic instance (symbolic node coordinates, displacements,
quadrature points and weights, opaque obstacle / integrand functions; `rules/C16_sym.py`) and comparing the symbolic result with what the
property needs.  Comparisons inside the code are decided at rational sample points of the region under study, the values stay symbolic.

  O1  edge normals agree across the four sibling implementations (Mesh.compute_edge_vectors, Surface.compute_edge_vectors,
      Surface.compute_normal, MortarContact.compute_normal): unit, orthogonal to the tangent second - first point, orientation (t_y, -t_x);
  O2  closest point: cpp_line returns a + tt (b - a), tt = (b-a).(p-a)/|b-a|^2; cpp clamps to the end points; cpp_distance is
      n.(p - line point) between the ends and sign * |p - end point| beyond them (t < 0 with the first, t > 1 with the second end point),
      sign(0) = +1; among candidate edges the winner (closest distance, closest edge, two closest edges) has the smallest ABSOLUTE distance;
  O3  level-set constraints and the penalty energy evaluate the obstacle function at the *deformed* sample points
      (coordinates + displacements of the two nodes of the same edge, interpolated at the quadrature points); the penalty energy is
      stiffness * (reference edge length) * sum_q w_q * min(0, phi_q)^2; the totals map the kernels over the edges;
  O4  mortar integral of the active pair: sum over the points of a Gauss rule exact for quadratics of
      1/2 (lengthA (S(xiA_1) - S(xiA_0)) + lengthB |S(xiB_1) - S(xiB_0)|) w_q f(xiA(q), xiB(q), g(q)) with the linear interpolations of the
      end values and S the C1 ramp (shared with C18); assembly: the (1 - xi)-weighted integral goes to the first, the xi-weighted one
      to the second node of the segment;
  O4' the pieces in front of the active integral: every common-normal rule the mortar module offers for the `f_common_normal` argument (functions
      of the two segments discovered by interface, called the way compute_intersection calls its argument) is a unit vector, equals the outward
      normal of A for parallel facing segments, points out of A and into B, follows a common rigid motion; compute_intersection with an opaque
      normal n returns matching points xa(xiA) - xb(xiB) + g n = 0 that bound the overlap on A in ascending order (6 overlap configurations);
      integrate_with_mortar hands the intersection of (A, B), |A|, |B|, the caller's integrand and smoothing size to the active integral.
Not decided: distances as numbers, rigid-motion invariance, overlap lengths up to smoothing (numerical).
"""
from __future__ import annotations

import ast
from fractions import Fraction as F

from optilint.core import Incomplete
from optilint.tensoreval import Dual, Arr, EvalError, PyFunc, Record, Closure, _A, rat_is_zero, d_fun, sum_d
from . import C16_sym as S
from .C16_sym import SymInterp, Sample, INTERP_ERRORS, atom, sym_array, int_array, key_of, same, same_arr, coeff, show, judge, number

LEVEL = "other"
RULE_TEXT = ("obligations = (normal implementation x component identity) + (closest-point kernel x region of the query point) + (candidate ranking x sign pattern) + "
             "(contact kernel x edge: value on a generic symbolic mesh) + (mortar integral x overlap region: quadrature form) + (assembly: nodal shape function x target node) + "
             "(common-normal rule offered by the mortar module x {unit, parallel facing pair, orientation, rigid motion}) + (segment intersection x overlap configuration) + "
             "(mortar glue: argument of the active integral)")
EXPLANATION = ("The anchor functions are interpreted from their source on a small generic instance (symbolic coordinates, displacements, quadrature rule; opaque "
               "obstacle and integrand functions) by an abstract interpreter over exact symbolic arrays; comparisons are decided at one rational sample per region. "
               "The symbolic results are compared with the specification: normals, closest-point formulas per region, ranking of candidate edges by absolute "
               "distance, obstacle function evaluated at the deformed quadrature points, penalty energy = stiffness * reference length * sum w min(0, phi)^2, "
               "mortar integral = Gauss quadrature of the integrand at linearly interpolated parameters times the averaged smoothed overlap measure, "
               "nodal assembly of the shape-function weighted integrals; every common-normal rule offered for the mortar integrals is a unit vector that equals the "
               "outward normal of the first segment for parallel facing segments; the segment intersection returns matching points xa - xb + g n = 0 bounding the "
               "overlap; integrate_with_mortar passes them with the two segment lengths to the active integral. Distances and integrals as numbers are not decided.")

EC = "optimism.contact.EdgeCpp"
MC = "optimism.contact.MortarContact"
PC = "optimism.contact.PenaltyContact"
LC = "optimism.contact.LevelsetConstraint"
CT = "optimism.contact.Contact"
SF = "optimism.Surface"


def run(ctx):
    for m in (EC, MC, PC, LC, SF, "optimism.Mesh"):
        ctx.need_module(m)
    ctx.guard(o1_normals, ctx)
    ctx.guard(o2_cpp, ctx)
    ctx.guard(o3_levelset, ctx)
    ctx.guard(o4_mortar, ctx)
    ctx.guard(o4_assembly, ctx)
    ctx.guard(o4_common_normal, ctx)
    ctx.guard(o4_intersection, ctx)
    ctx.guard(o4_glue, ctx)
    ctx.guard(o2_closest_by_abs, ctx)
    # the overlap measure relies on the smoothed end parameter being the specified C1 ramp (shared with C18)
    from . import C18
    ctx.guard(C18.smooth_linear, ctx)
    ctx.trust("outward normal of a counter-clockwise boundary edge with tangent t is (t_y, -t_x)")
    ctx.trust("scipy.special.roots_sh_legendre(n) is the n-point Gauss-Legendre rule on [0, 1] (exact up to degree 2n - 1, positive weights)")


def _touch(ctx, I):
    """every repository function the interpreter went through counts as analysed (and is alpha-renamed by the self-test)"""
    for q in sorted(I.visited):
        s = ctx.repo.find(q)
        if s is not None:
            ctx.touch(s)


def _short(mname):
    return mname.split(".")[-1]


# ====================================================================================================================== O1

def o1_normals(ctx):
    rule = "O1/T6-normal-siblings"
    sites = [(SF, "compute_normal", None, 0), (SF, "compute_edge_vectors", None, 1),
             (MC, "compute_normal", None, 0), ("optimism.Mesh", "compute_edge_vectors", "mesh", 1)]
    a = Arr([atom(n) for n in ("ax", "ay", "bx", "by")], (2, 2))
    tx, ty = atom("bx") - atom("ax"), atom("by") - atom("ay")
    nt = d_fun("sqrt", tx * tx + ty * ty)
    want = Arr([ty / nt, -tx / nt], (2,))
    smp = Sample({"ax": F(1, 3), "ay": F(-1, 2), "bx": F(2), "by": F(1, 4)})
    for (mname, fname, extra, idx) in sites:
        mod = ctx.need_module(mname)
        sc = ctx.need(f"{mname}:{fname}")
        cons = f"{_short(mname)}.{fname}"
        I = SymInterp(ctx.repo)
        args = [a]
        if extra == "mesh":
            pe1 = Record("ParentElement", ["vertexNodes"], [int_array([0, 1])])
            args = [Record("Mesh", ["parentElement1d"], [pe1]), a]
        try:
            out = I.call(I.module_value(mod, fname), args, {})
            nrm = out[idx] if isinstance(out, (tuple, list)) else out.values[idx] if isinstance(out, Record) else out
            nrm = I.num(nrm)
            if not isinstance(nrm, Arr) or nrm.size() != 2:
                raise EvalError(f"the normal is not a 2-vector: {show(nrm, 60)}")
            # identical to (t_y, -t_x)/|t| as a normal form -> proved; numerically different on a generic edge -> refuted
            ok = judge(nrm, want, smp)
        except INTERP_ERRORS as ex:
            ctx.undecided(rule, sc, None, construct=cons, detail=f"cannot interpret: {ex}")
            continue
        finally:
            _touch(ctx, I)
        ctx.decide(rule, ok, sc, None, construct=cons,
                   detail="unit vector, orthogonal to the tangent, equal to (t_y, -t_x)/|t|",
                   bad_detail=f"{cons} returns the normal ({nrm.data[0].a!r}, {nrm.data[1].a!r}) for the tangent t = second - first point; expected (t_y, -t_x)/|t|: "
                              f"the sibling implementations of the edge normal disagree" if ok is False else
                              f"{cons}: the normal ({nrm.data[0].a!r}, {nrm.data[1].a!r}) equals (t_y, -t_x)/|t| on a sample edge but not as a normal form")


# ====================================================================================================================== O2 closest point

def o2_cpp(ctx):
    """Closest-point kernels of EdgeCpp, interpreted on a symbolic edge (a, b) and point p; comparisons and np.sign are decided at one
    rational sample point per region (before a / between / beyond b) x (left / on / right of the line), so every branch combination is
    explored and the symbolic result of each region is compared with the geometric specification:
        tt = (b-a).(p-a)/|b-a|^2;   line point = a + tt (b-a);   clamped parameter in [0, 1];
        signed distance = n.(p - line point) between the ends, sgn * |p - end point| outside, sgn = sign of n.(p - line point), sign(0) = +1."""
    rule = "O2/T5-closest-point"
    mod = ctx.need_module(EC)
    names = ("ax", "ay", "bx", "by", "px", "py")
    a = [atom("ax"), atom("ay")]
    b = [atom("bx"), atom("by")]
    p = [atom("px"), atom("py")]
    v = [b[0] - a[0], b[1] - a[1]]
    vv = v[0] * v[0] + v[1] * v[1]
    tt = (v[0] * (p[0] - a[0]) + v[1] * (p[1] - a[1])) / vv
    line = [a[0] + tt * v[0], a[1] + tt * v[1]]
    edge = Arr([a[0], a[1], b[0], b[1]], (2, 2))
    pa = Arr(list(p), (2,))
    # regions: (label, t, d) with p = A + t (B - A) + d * (1, -2) for A = (0,0), B = (2,1)
    regions = [("before-a,right", -1, 1), ("before-a,left", -1, -1), ("before-a,on-line", -1, 0), ("between,right", F(1, 2), 1), ("between,left", F(1, 2), -1),
               ("beyond-b,right", 2, 1), ("beyond-b,left", 2, -1)]

    def sample(t, d):
        return Sample(dict(zip(names, (F(0), F(0), F(2), F(1), F(2) * t + d, F(1) * t - 2 * d))))

    regions += [("just-before-a,right", F(-1, 64), 1), ("just-inside-a,left", F(1, 64), -1), ("just-inside-b,right", F(63, 64), 1), ("just-beyond-b,left", F(65, 64), -1)]

    def thresholds(decisions):
        """values of the line parameter t (other than the end points 0 and 1) at which a quantity whose sign the code looks at changes sign:
        the branch structure of the interpreted code has a boundary there, so points on both sides of it are examined as well"""
        out = []
        seen = set()
        for r in decisions:
            k = repr(r)
            if k in seen:
                continue
            seen.add(k)
            for d in (1, -1):
                vs = [sample(F(t), F(d))(r) for t in (-3, 5, 11)]
                if any(v is None for v in vs):
                    continue
                s1, s2 = (vs[1] - vs[0]) / 8, (vs[2] - vs[1]) / 6
                if abs(float(s1)) < 1e-12 or abs(float(s1 - s2)) > 1e-9 * (1 + abs(float(s1))):
                    continue
                t0 = F(-3) - F(vs[0]) / F(s1) if isinstance(vs[0], F) and isinstance(s1, F) else F(-3 - float(vs[0]) / float(s1)).limit_denominator(4096)
                if abs(t0) < 50 and min(abs(float(t0)), abs(float(t0) - 1)) > 1e-9 and t0 not in out:
                    out.append(t0)
        return sorted(out)

    for fname in ("cpp_line", "cpp", "cpp_distance"):
        sc = ctx.need(f"{EC}:{fname}")
        decisions = []
        todo = list(regions)
        done_thresholds = False
        while todo or not done_thresholds:
            if not todo:
                done_thresholds = True
                for t0 in thresholds(decisions)[:6]:
                    for (dt, d) in ((F(-1, 128), 1), (F(1, 128), -1)):
                        side = "right" if d > 0 else "left"
                        todo.append((f"t={t0 + dt} (next to the branch boundary t={t0}),{side}", t0 + dt, d))
                continue
            (lab, t, d) = todo.pop(0)
            smp = sample(F(t), F(d))
            I = SymInterp(ctx.repo, smp)
            cons = f"{fname}[{lab}]"
            try:
                out = I.call(I.module_value(mod, fname), [edge, pa], {})
                if fname == "cpp_distance":
                    nrm = I.call(I.module_value(ctx.need_module(SF), "compute_normal"), [edge], {})
                    dline = nrm.data[0] * (p[0] - line[0]) + nrm.data[1] * (p[1] - line[1])
                    sg = 1 if d >= 0 else -1
                    if t < 0 or t > 1:
                        end = a if t < 0 else b
                        want = Dual(sg) * d_fun("sqrt", (p[0] - end[0]) * (p[0] - end[0]) + (p[1] - end[1]) * (p[1] - end[1]))
                    else:
                        want = dline
                    got = I.num(out)
                    if isinstance(got, Arr):
                        if got.size() != 1:
                            raise EvalError("cpp_distance returned an array")
                        got = got.data[0]
                    ok = judge(got, want, smp)
                    shown = f"{got.a!r}"[:120]
                    spec = ("sign(n.(p - line point)) * |p - " + ("a" if t < 0 else "b") + "|") if (t < 0 or t > 1) else "n.(p - line point)"
                else:
                    if isinstance(out, Record):
                        out = tuple(out.values)
                    pt, tpar = I.num(out[0]), I.num(out[1])
                    if fname == "cpp_line" or 0 <= t <= 1:
                        wp, wt = line, tt
                    elif t < 0:
                        wp, wt = a, Dual(0)
                    else:
                        wp, wt = b, Dual(1)
                    if not (isinstance(pt, Arr) and pt.size() == 2 and isinstance(tpar, Dual)):
                        raise EvalError(f"{fname} does not return (point, parameter)")
                    ok = judge(Arr([pt.data[0], pt.data[1], tpar], (3,)), Arr([wp[0], wp[1], wt], (3,)), smp)
                    shown = f"point {pt!r}, parameter {tpar.a!r}"[:160]
                    spec = "a + tt (b - a), tt = (b-a).(p-a)/|b-a|^2" if (fname == "cpp_line" or 0 <= t <= 1) else ("end point " + ("a, parameter 0" if t < 0 else "b, parameter 1"))
            except INTERP_ERRORS as ex:
                ctx.undecided(rule, sc, None, construct=cons, detail=f"cannot interpret: {ex}")
                continue
            finally:
                _touch(ctx, I)
                decisions += I.decisions
            ctx.decide(rule, ok, sc, None, construct=cons, detail=f"symbolic result equals {spec}",
                       bad_detail=f"{fname} for a point {lab.replace(',', ', ')} of the segment (line parameter t = {t}) returns {shown}; expected {spec}" +
                                  ("" if ok is False else " (equal at the sample point, not identical as a normal form)"))


# ====================================================================================================================== generic instance

class _Instance:
    """Five nodes with symbolic reference coordinates X<n>_<d> and displacements U<n>_<d>, three triangles, a symbolic two-point edge rule
    (points q0, q1, weights w0, w1).  `edge` = (element, local side); its nodes are conns[element][side], conns[element][(side + 1) % 3]."""
    CONNS = ((0, 1, 2), (1, 3, 2), (2, 3, 4))
    XV = ((0, 0), (2, F(1, 3)), (1, 2), (3, F(7, 3)), (2, 4))
    UV = ((F(1, 7), F(-1, 5)), (F(1, 11), F(2, 9)), (F(-1, 6), F(1, 8)), (F(1, 5), F(1, 10)), (F(-1, 9), F(-1, 7)))

    def __init__(self, ctx):
        self.ctx = ctx
        self.X = sym_array("X", (5, 2))
        self.U = sym_array("U", (5, 2))
        self.conns = int_array([list(r) for r in self.CONNS])
        self.xi = [atom("q0"), atom("q1")]
        self.w = [atom("w0"), atom("w1")]
        self.nq = 2

    def env(self):
        e = {"q0": F(1, 5), "q1": F(4, 5), "w0": F(1, 2), "w1": F(1, 2), "kpen": F(3)}
        for n in range(5):
            for d in range(2):
                e[f"X{n}_{d}"] = F(self.XV[n][d])
                e[f"U{n}_{d}"] = F(self.UV[n][d])
        return e

    def interp(self, sample=None):
        I = SymInterp(self.ctx.repo, sample)
        M = self.ctx.need_module("optimism.Mesh")
        Q = self.ctx.need_module("optimism.QuadratureRule")
        try:
            mesh = I.call(I.module_value(M, "Mesh"), [], {"coords": self.X, "conns": self.conns})
        except INTERP_ERRORS:
            mesh = None
        if not isinstance(mesh, Record) or "coords" not in mesh.fields or "conns" not in mesh.fields:
            mesh = Record("Mesh", ["coords", "conns"], [self.X, self.conns])
        xig, wg = Arr(list(self.xi), (2,)), Arr(list(self.w), (2,))
        try:
            quad = I.call(I.module_value(Q, "QuadratureRule"), [xig, wg], {})
        except INTERP_ERRORS:
            quad = None
        if not isinstance(quad, Record) or len(quad.values) != 2:
            quad = Record("QuadratureRule", ["xigauss", "wgauss"], [xig, wg])
        return I, mesh, quad

    # ---- specification side
    def nodes(self, edge):
        e, s = edge
        return self.CONNS[e][s], self.CONNS[e][(s + 1) % 3]

    def ref(self, n):
        return [self.X.data[2 * n], self.X.data[2 * n + 1]]

    def cur(self, n):
        return [self.X.data[2 * n] + self.U.data[2 * n], self.X.data[2 * n + 1] + self.U.data[2 * n + 1]]

    def cur_edge(self, edge):
        n1, n2 = self.nodes(edge)
        return Arr(self.cur(n1) + self.cur(n2), (2, 2))

    def qpoints(self, edge):
        """deformed quadrature points of the edge, (nq, 2)"""
        n1, n2 = self.nodes(edge)
        c1, c2 = self.cur(n1), self.cur(n2)
        return Arr([c1[d] + (c2[d] - c1[d]) * xi for xi in self.xi for d in range(2)], (self.nq, 2))

    def ref_length(self, edge):
        n1, n2 = self.nodes(edge)
        r1, r2 = self.ref(n1), self.ref(n2)
        return d_fun("sqrt", (r1[0] - r2[0]) * (r1[0] - r2[0]) + (r1[1] - r2[1]) * (r1[1] - r2[1]))


_PHI_POINTS = {}     # name of the atom phi[x | y] -> (x, y)


def _phi(x, y):
    name = f"phi[{key_of(x)} | {key_of(y)}]"
    _PHI_POINTS.setdefault(name, (x, y))
    return atom(name)


def _phi_at(points: Arr):
    return Arr([_phi(points.data[2 * i], points.data[2 * i + 1]) for i in range(points.shape[0])], (points.shape[0],))


def _phi_sample(env, override=None):
    """sample point in which the opaque obstacle function has the value of one fixed generic function of the (numeric) point, so that two
    evaluation points that are equal as numbers give equal obstacle values however they were computed; `override` pins chosen applications"""
    smp = Sample(env)
    override = dict(override or {})

    def value(name):
        if name in override:
            return override[name]
        if name in _PHI_POINTS:
            x, y = _PHI_POINTS[name]
            xv, yv = smp(x.a), smp(y.a)
            if xv is None or yv is None:
                return None
            xv, yv = F(xv).limit_denominator(10 ** 9) if isinstance(xv, float) else xv, F(yv).limit_denominator(10 ** 9) if isinstance(yv, float) else yv
            return F(-1, 3) + F(2, 7) * xv - F(3, 11) * yv + F(1, 13) * xv * yv
        return None
    smp.resolvers.append(value)
    return smp


def _levelset(rec):
    """opaque obstacle function: phi applied to a point is the atom phi[x | y]; every evaluation is recorded"""
    def fn(it, args, kw):
        if len(args) != 1 or kw:
            raise EvalError("the level-set function is called with other arguments than the points")
        pts = it.num(args[0])
        if isinstance(pts, Arr) and pts.ndim == 2 and pts.shape[1] == 2:
            out = _phi_at(pts)
        elif isinstance(pts, Arr) and pts.shape == (2,):
            out = _phi(pts.data[0], pts.data[1])
        else:
            raise EvalError(f"the level-set function is called with {show(pts, 60)}")
        rec.append((pts, out))
        return out
    return PyFunc("levelset", fn)


_ROLE_PATTERNS = (("levelset", ("levelset", "lset", "obstacle")), ("mesh", ("mesh",)), ("disp", ("disp",)), ("quad", ("quad",)),
                  ("edge", ("edge", "side")), ("stiffness", ("stiff", "penalty", "kappa")))


# reference parameter order of the public kernels (used for a parameter whose name says nothing)
_REF_ORDER = {
    "evaluate_levelset_on_edge": ("levelset", "mesh", "disp", "quad", "edge"), "compute_edge_penalty_contact_energy": ("levelset", "mesh", "disp", "quad", "edge", "stiffness"),
    "get_current_coordinates_at_quadrature_points": ("mesh", "disp", "quad", "edge"), "compute_edge_levelset_constraints": ("levelset", "mesh", "disp", "quad", "edge"),
    "compute_contact_point_coords_on_edge": ("mesh", "disp", "quad", "edge"), "compute_total_penalty_contact_energy": ("levelset", "disp", "mesh", "quad", "edge", "stiffness"),
    "evaluate_contact_constraints": ("levelset", "disp", "mesh", "quad", "edge"), "compute_levelset_constraints": ("levelset", "disp", "mesh", "quad", "edge"),
}


def _roles(sc):
    """public parameters of a contact kernel -> role (the parameters are the public keyword interface of the kernels); a parameter whose
    name does not tell gets the role of its position in the reference signature when that role is still free"""
    out = {}
    ps = sc.params() + sc.kwonly()
    for p in ps:
        low = p.lower()
        for role, pats in _ROLE_PATTERNS:
            if any(x in low for x in pats):
                out[p] = role
                break
    ref = _REF_ORDER.get(sc.name)
    if ref and len(ref) == len(ps):
        for p, role in zip(ps, ref):
            if p not in out and role not in out.values():
                out[p] = role
    return out


def _call_by_role(I, mod, sc, values):
    roles = _roles(sc)
    kwargs = {}
    for p in sc.params() + sc.kwonly():
        r = roles.get(p)
        if r in values:
            kwargs[p] = values[r]
        elif sc.default_of(p) is None:
            raise EvalError(f"parameter `{p}` of {sc.shortname} has no recognised role")
    if sorted(roles.get(p) for p in kwargs) != sorted(set(roles.get(p) for p in kwargs)):
        raise EvalError(f"two parameters of {sc.shortname} have the same role")
    return I.call(I.module_value(mod, sc.name), [], kwargs)


def _points_text(recs):
    return "; ".join(show(pts, 150) for (pts, _) in recs[:2]) or "no point at all"


class _Tally:
    """verdict of one obligation that is examined in several situations: refuted by the first counterexample, undecided when a situation
    could not be interpreted / compared, proved when every situation was"""
    def __init__(self):
        self.bad = self.unsure = None
        self.n = 0

    def add(self, verdict, text):
        self.n += 1
        if verdict is False:
            self.bad = self.bad or text
        elif verdict is None:
            self.unsure = self.unsure or text

    def cannot(self, ex):
        self.n += 1
        self.unsure = self.unsure or f"cannot interpret: {ex}"

    def verdict(self):
        return False if self.bad else (None if (self.unsure or not self.n) else True)

    def text(self):
        return self.bad or self.unsure or "no situation could be examined"


_NOT_NF = " (equal at the sample point, but not identical as a normal form)"


def o3_levelset(ctx):
    rule = "O3/T13-deformed-sample-points"
    inst = _Instance(ctx)
    edges = [(0, 0), (1, 2), (2, 1)]
    kpen = atom("kpen")
    targets = [(PC, "evaluate_levelset_on_edge", "values"), (PC, "compute_edge_penalty_contact_energy", "energy"),
               (PC, "get_current_coordinates_at_quadrature_points", "points"), (LC, "compute_edge_levelset_constraints", "values"),
               (LC, "compute_contact_point_coords_on_edge", "points")]

    def negpart(x, smp):
        v = smp(x.a)
        if v is None:
            raise EvalError("no sample value for a value of the obstacle function")
        return x if v < 0 else Dual(0)

    # ---- kernels: what is evaluated where, on three edges (local sides 0, 2, 1: the wrap-around of the second node is exercised)
    for (mname, fname, kind) in targets:
        mod = ctx.need_module(mname)
        sc = ctx.need(f"{mname}:{fname}")
        cons = f"{_short(mname)}.{fname}:points=coords+disp"
        T = _Tally()
        for edge in edges:
            smp = _phi_sample(inst.env())
            I, mesh, quad = inst.interp(smp)
            rec = []
            vals = {"levelset": _levelset(rec), "mesh": mesh, "disp": inst.U, "quad": quad, "edge": int_array(list(edge)), "stiffness": kpen}
            want_pts = inst.qpoints(edge)
            where = f"the edge (element {edge[0]}, side {edge[1]})"
            try:
                out = _call_by_role(I, mod, sc, vals)
                if kind == "points":
                    out = I.num(out)
                    v = judge(out, want_pts, smp)
                    T.add(v, f"{fname} returns `{show(out, 200)}` for {where}; expected the quadrature points of (coordinates + displacements) of its two nodes "
                             f"{inst.nodes(edge)}" + ("" if v is False else _NOT_NF))
                elif kind == "values":
                    out = I.num(out)
                    v = judge(out, _phi_at(want_pts), smp)
                    T.add(v, f"{fname} returns `{show(out, 160)}` for {where}: the obstacle function is evaluated at {_points_text(rec)}; expected its values at the "
                             f"quadrature points of (coordinates + displacements) of the nodes {inst.nodes(edge)}" + ("" if v is False else _NOT_NF))
                else:
                    if not rec:
                        raise EvalError("the obstacle function is never evaluated")
                    for (pts, _) in rec:
                        v = judge(pts, want_pts, smp)
                        T.add(v, f"{fname} evaluates the obstacle function at `{show(pts, 200)}` for {where}; expected the quadrature points of (coordinates + "
                                 f"displacements) of the nodes {inst.nodes(edge)}" + ("" if v is False else _NOT_NF))
            except INTERP_ERRORS as ex:
                T.cannot(ex)
            finally:
                _touch(ctx, I)
        ctx.decide(rule, T.verdict(), sc, None, construct=cons,
                   detail="obstacle function evaluated at quadrature points of (edge coordinates + edge displacements), 3 edges", bad_detail=T.text())

    # ---- penalty integrand: every sign pattern of the obstacle function at the two quadrature points
    sc = ctx.need(f"{PC}:compute_edge_penalty_contact_energy")
    mod = ctx.need_module(PC)
    edge = (1, 2)
    T = _Tally()
    for signs in ((-1, -1), (-1, 1), (1, -1), (1, 1)):
        want_pts = inst.qpoints(edge)
        phis = _phi_at(want_pts)
        pins = {list(phis.data[q].a.atoms())[0]: F(2 + q) * sg for q, sg in enumerate(signs)}
        smp = _phi_sample(inst.env(), pins)
        I, mesh, quad = inst.interp(smp)
        rec = []
        vals = {"levelset": _levelset(rec), "mesh": mesh, "disp": inst.U, "quad": quad, "edge": int_array(list(edge)), "stiffness": kpen}
        try:
            out = I.num(_call_by_role(I, mod, sc, vals))
            if isinstance(out, Arr):
                if out.size() != 1:
                    raise EvalError("the edge energy is an array")
                out = out.data[0]
            # the integrand is judged on the values the code obtained from the obstacle function (where they are taken is O3/T13's business)
            got = rec[0][1] if len(rec) == 1 and isinstance(rec[0][1], Arr) and rec[0][1].shape == (inst.nq,) else phis
            neg = [negpart(got.data[q], smp) for q in range(inst.nq)]
            want = kpen * inst.ref_length(edge) * sum_d(inst.w[q] * neg[q] * neg[q] for q in range(inst.nq))
            v = judge(out, want, smp)
            pat = ", ".join("phi_%d %s 0" % (q, "<" if (smp(got.data[q].a) or 0) < 0 else ">") for q in range(inst.nq))
            T.add(v, f"for {pat} the penalty energy of an edge is `{show(out.a, 220)}`; expected stiffness * |reference edge| * sum_q w_q * min(0, phi_q)^2 "
                     f"= `{show(want.a, 160)}`" + ("" if v is False else _NOT_NF))
        except INTERP_ERRORS as ex:
            T.cannot(ex)
        finally:
            _touch(ctx, I)
    ctx.decide("O3/T8-penalty-integrand", T.verdict(), sc, None, construct="penalty=stiffness*int(min(0,phi)^2)",
               detail="square of the negative part, reference edge weights, times stiffness (4 sign patterns)", bad_detail=T.text())

    # ---- Surface.integrate_values = |c0 - c1| * sum_q w_q f_q
    iv = ctx.need(f"{SF}:integrate_values")
    smp = Sample(inst.env())
    I, mesh, quad = inst.interp(smp)
    c = sym_array("c", (2, 2))
    f = sym_array("f", (2,))
    try:
        out = I.num(I.call(I.module_value(ctx.need_module(SF), "integrate_values"), [quad, c, f], {}))
        length = d_fun("sqrt", (c.data[0] - c.data[2]) * (c.data[0] - c.data[2]) + (c.data[1] - c.data[3]) * (c.data[1] - c.data[3]))
        want = length * (inst.w[0] * f.data[0] + inst.w[1] * f.data[1])
        v = judge(out, want, smp)
        ctx.decide("O3/T8-penalty-integrand", v, iv, None, construct="integrate_values:nonneg-weights", detail="weights = edge length * Gauss weights",
                   bad_detail=f"Surface.integrate_values(rule, c, f) is `{show(out, 200)}`, not |c0 - c1| * sum_q w_q f_q" + ("" if v is False else _NOT_NF))
    except INTERP_ERRORS as ex:
        ctx.undecided("O3/T8-penalty-integrand", iv, None, construct="integrate_values:nonneg-weights", detail=f"cannot interpret: {ex}")
    finally:
        _touch(ctx, I)

    # ---- totals: the kernels mapped over the edges
    E = int_array([list(e) for e in edges])
    for (mname, total, kind) in ((PC, "compute_total_penalty_contact_energy", "energy"), (PC, "evaluate_contact_constraints", "values"),
                                 (LC, "compute_levelset_constraints", "values")):
        mod = ctx.need_module(mname)
        sc = ctx.need(f"{mname}:{total}")
        smp = _phi_sample(inst.env())
        I, mesh, quad = inst.interp(smp)
        rec = []
        vals = {"levelset": _levelset(rec), "mesh": mesh, "disp": inst.U, "quad": quad, "edge": E, "stiffness": kpen}
        try:
            out = I.num(_call_by_role(I, mod, sc, vals))
            if kind == "values":
                want = Arr([x for e in edges for x in _phi_at(inst.qpoints(e)).data], (len(edges), inst.nq))
                exp = "the obstacle function at the deformed quadrature points of every edge, edge by edge"
            else:
                want = Dual(0)
                for e in edges:
                    ph = [negpart(x, smp) for x in _phi_at(inst.qpoints(e)).data]
                    want = want + kpen * inst.ref_length(e) * sum_d(inst.w[q] * ph[q] * ph[q] for q in range(inst.nq))
                exp = "the sum over the edges of stiffness * |reference edge| * sum_q w_q min(0, phi)^2"
            v = judge(out, want, smp)
            ctx.decide(rule, v, sc, None, construct=f"{total}:roles", detail=f"{total} = {exp}",
                       bad_detail=f"{total} on three edges is `{show(out, 220)}`; expected {exp}" + ("" if v is False else _NOT_NF))
        except INTERP_ERRORS as ex:
            ctx.undecided(rule, sc, None, construct=f"{total}:roles", detail=f"cannot interpret: {ex}")
        finally:
            _touch(ctx, I)


# ====================================================================================================================== O2 ranking of candidate edges

class _Ranking:
    """The node-to-segment pipelines of Contact.py, interpreted with opaque signed distances: every call of EdgeCpp.cpp_distance(edge, point)
    is recorded and returns a fresh symbol whose sample value follows a pattern in which the most negative candidate is NOT the nearest."""
    PATTERNS = ((-3, 1, 2), (-1, -3, 2), (2, -1, 3), (4, 3, -2))

    def __init__(self, ctx):
        self.ctx = ctx
        self.inst = _Instance(ctx)
        self.surfaceI = [(0, 0), (1, 2)]
        self.inter = [[(2, 1), (2, 2), (1, 0)], [(2, 0), (2, 1), (0, 1)]]
        self.groups = {}       # key of the query point -> list of call records
        self.calls = {}        # atom name -> record
        self.smooth = []
        self.values = {}

    def value(self, name):
        return self.values.get(name)

    def interp(self):
        I, mesh, quad = self.inst.interp(Sample(self.inst.env(), [self.value]))
        R = self

        def dist(it, args, kw):
            ps = R.ctx.repo.find(f"{EC}:cpp_distance").params()
            bound = dict(zip(ps, args))
            bound.update(kw)
            if len(ps) != 2 or set(bound) != set(ps) or len(args) > 2:
                raise EvalError("cpp_distance called with other arguments than (edge, point)")
            edge, pt = it.num(bound[ps[0]]), it.num(bound[ps[1]])
            if not (isinstance(edge, Arr) and edge.shape == (2, 2) and isinstance(pt, Arr) and pt.shape == (2,)):
                raise EvalError(f"cpp_distance called with {show(edge, 40)}, {show(pt, 40)}")
            k = (key_of(pt.data[0]), key_of(pt.data[1]))
            grp = R.groups.setdefault(k, [])
            ek = tuple(key_of(x) for x in edge.data)
            for r in grp:
                if r["ekey"] == ek:
                    return r["atom"]
            g, c = list(R.groups).index(k), len(grp)
            name = f"D[{g},{c}]"
            pat = R.PATTERNS[g % len(R.PATTERNS)]
            R.values[name] = F(pat[c % 3]) + (F(10 * (c // 3)) if pat[c % 3] > 0 else F(-10 * (c // 3)))
            r = {"atom": atom(name), "name": name, "edge": edge, "ekey": ek, "point": pt, "g": g, "c": c}
            grp.append(r)
            R.calls[name] = r
            return r["atom"]

        def smooth(it, args, kw):
            sc_ = R.ctx.repo.find(f"{EC}:smooth_distance")
            ps = sc_.params()
            b = dict(zip(ps, args))
            b.update(kw)
            two, pt = it.num(b[ps[0]]), it.num(b[ps[1]])
            out = atom(f"SD[{len(R.smooth)}]")
            R.smooth.append({"two": two, "point": pt, "atom": out})
            R.values[f"SD[{len(R.smooth) - 1}]"] = F(1)
            return out
        I.special[f"{EC}:cpp_distance"] = dist
        I.special[f"{EC}:smooth_distance"] = smooth
        return I, mesh, quad

    def inputs(self, mesh, quad):
        return {"mesh": mesh, "disp": self.inst.U, "quad": quad, "interaction": int_array([[list(e) for e in row] for row in self.inter]),
                "surfaceI": int_array([list(e) for e in self.surfaceI])}

    def group_of(self, point):
        return self.groups.get((key_of(point.data[0]), key_of(point.data[1])))

    def by_abs(self, grp):
        return sorted(grp, key=lambda r: abs(self.values[r["name"]]))


class _Geometric:
    """The same pipelines without any opaque distance: a mesh whose (deformed) candidate edges lie at chosen signed distances from the quadrature
    points of two integration edges -- first integration edge: candidates at -3, +1, +2; second: -1, -3, +2 -- so that ranking signed instead of
    absolute distances picks another candidate.  Coordinates and displacements stay symbolic; the layout only fixes the sample point.  The
    expected winner is computed with the library's own EdgeCpp.cpp_distance (whose formula is O2/T5's business), interpreted per candidate."""
    LAYOUT = (  # deformed end points (first, second) of: the integration edge, then its three candidates
        (((4, 0), (6, 0)), (((0, -3), (10, -3)), ((10, -1), (0, -1)), ((10, -2), (0, -2)))),
        (((4, 10), (6, 10)), (((0, 9), (10, 9)), ((0, 7), (10, 7)), ((10, 8), (0, 8)))),
    )
    SIDES = (0, 1, 2)        # local side of the k-th candidate: all three, so the wrap-around of the second node is exercised

    def __init__(self, ctx):
        self.ctx = ctx
        self.nq = 2
        self.xi = [atom("q0"), atom("q1")]
        conns, pos = [], {}
        self.surfaceI, self.inter = [], []

        def element(side, ends):
            e = len(conns)
            nodes = [3 * e, 3 * e + 1, 3 * e + 2]
            conns.append(nodes)
            pos[nodes[side]], pos[nodes[(side + 1) % 3]] = ends
            pos[nodes[(side + 2) % 3]] = (5, 20 + e)
            return (e, side)
        for (integ, cands) in self.LAYOUT:
            self.surfaceI.append(element(0, integ))
            self.inter.append([element(self.SIDES[k], c) for k, c in enumerate(cands)])
        self.conns_list = conns
        n = 3 * len(conns)
        self.X, self.U = sym_array("X", (n, 2)), sym_array("U", (n, 2))
        self.conns = int_array(conns)
        self.envd = {"q0": F(1, 5), "q1": F(4, 5), "w0": F(1, 2), "w1": F(1, 2), "stol": F(1, 100)}
        for k in range(n):
            for d in range(2):
                u = F((7 * k + 3 * d) % 11 - 5, 40)
                self.envd[f"U{k}_{d}"] = u
                self.envd[f"X{k}_{d}"] = F(pos[k][d]) - u
        self.smooth = []

    def sample(self):
        return Sample(self.envd, [lambda nme: F(1) if nme.startswith("SD[") else None])

    def cur_edge(self, edge):
        e, s = edge
        n1, n2 = self.conns_list[e][s], self.conns_list[e][(s + 1) % 3]
        return Arr([self.X.data[2 * n1] + self.U.data[2 * n1], self.X.data[2 * n1 + 1] + self.U.data[2 * n1 + 1],
                    self.X.data[2 * n2] + self.U.data[2 * n2], self.X.data[2 * n2 + 1] + self.U.data[2 * n2 + 1]], (2, 2))

    def qpoint(self, i, q):
        c = self.cur_edge(self.surfaceI[i])
        return Arr([c.data[d] + (c.data[2 + d] - c.data[d]) * self.xi[q] for d in range(2)], (2,))

    def interp(self):
        I = SymInterp(self.ctx.repo, self.sample())
        M = self.ctx.need_module("optimism.Mesh")
        Q = self.ctx.need_module("optimism.QuadratureRule")
        try:
            mesh = I.call(I.module_value(M, "Mesh"), [], {"coords": self.X, "conns": self.conns})
        except INTERP_ERRORS:
            mesh = None
        if not isinstance(mesh, Record) or "coords" not in mesh.fields or "conns" not in mesh.fields:
            mesh = Record("Mesh", ["coords", "conns"], [self.X, self.conns])
        xig, wg = Arr(list(self.xi), (2,)), Arr([atom("w0"), atom("w1")], (2,))
        try:
            quad = I.call(I.module_value(Q, "QuadratureRule"), [xig, wg], {})
        except INTERP_ERRORS:
            quad = None
        if not isinstance(quad, Record) or len(quad.values) != 2:
            quad = Record("QuadratureRule", ["xigauss", "wgauss"], [xig, wg])
        G = self

        def smooth(it, args, kw):
            sc_ = G.ctx.repo.find(f"{EC}:smooth_distance")
            ps = sc_.params()
            b = dict(zip(ps, args))
            b.update(kw)
            out = atom(f"SD[{len(G.smooth)}]")
            G.smooth.append({"two": it.num(b[ps[0]]), "point": it.num(b[ps[1]]), "atom": out})
            return out
        I.special[f"{EC}:smooth_distance"] = smooth
        return I, mesh, quad

    def inputs(self, mesh, quad):
        return {"mesh": mesh, "disp": self.U, "quad": quad, "interaction": int_array([[list(e) for e in row] for row in self.inter]),
                "surfaceI": int_array([list(e) for e in self.surfaceI])}

    def ranking(self):
        """per (integration edge, quadrature point): the candidates' signed distances (symbolic, by the library's cpp_distance) and their order by
        absolute value at the sample"""
        EM = self.ctx.need_module(EC)
        out = {}
        for i in range(len(self.surfaceI)):
            for q in range(self.nq):
                ds = []
                for c in self.inter[i]:
                    I = SymInterp(self.ctx.repo, self.sample())
                    d = I.num(I.call(I.module_value(EM, "cpp_distance"), [self.cur_edge(c), self.qpoint(i, q)], {}))
                    if isinstance(d, Arr):
                        d = d.data[0]
                    v = self.sample()(d.a)
                    if v is None:
                        raise EvalError("no sample value for a candidate distance")
                    ds.append((d, v))
                order = sorted(range(len(ds)), key=lambda k: abs(ds[k][1]))
                if abs(abs(ds[order[0]][1]) - abs(ds[order[1]][1])) < 1e-9:
                    raise EvalError("tie between candidate distances")
                out[(i, q)] = (ds, order)
        return out


_CT_ROLES = (("mesh", ("mesh",)), ("disp", ("disp",)), ("quad", ("quad",)), ("interaction", ("interaction", "neighbor", "candidates")),
             ("surfaceI", ("surfacei", "surfi", "integration", "subordinate")), ("tol", ("tol", "smooth")))


_CT_REF = ("mesh", "disp", "quad", "interaction", "surfaceI", "tol")


def _ct_call(I, mod, sc, values):
    kwargs = {}
    named = {p: next((r for r, pats in _CT_ROLES if any(x in p.lower() for x in pats)), None) for p in sc.params()}
    for k, p in enumerate(sc.params()):
        role = named[p]
        if role is None and k < len(_CT_REF) and _CT_REF[k] not in named.values():
            role = _CT_REF[k]
        if role in values:
            kwargs[p] = values[role]
        elif sc.default_of(p) is None:
            raise EvalError(f"parameter `{p}` of {sc.shortname} has no recognised role" if role is None else f"no value for the parameter `{p}` of {sc.shortname}")
    return I.call(I.module_value(mod, sc.name), [], kwargs)


def o2_closest_by_abs(ctx):
    """Closest edge / closest distance / two closest edges: the winner among the candidate edges is the one of smallest ABSOLUTE signed distance
    (EdgeCpp.cpp_distance is signed: negative when penetrating)."""
    rule = "O2/T6-closest-by-absolute-distance"
    mod = ctx.need_module(CT)
    visited = set()

    def run(fname, check, smooth=False):
        sc = ctx.need(f"{CT}:{fname}")
        R = _Ranking(ctx)
        cons = f"{fname}:ranked-by-absolute-distance"
        I = None
        try:
            I, mesh, quad = R.interp()
            vals = R.inputs(mesh, quad)
            if smooth:
                vals["tol"] = atom("stol")      # otherwise a smoothing parameter keeps its default
            out = _ct_call(I, mod, sc, vals)
            if not R.calls:
                raise EvalError("EdgeCpp.cpp_distance is never called")
            verdict, detail = check(R, I, out)
        except INTERP_ERRORS as ex:
            verdict, detail = None, f"cannot interpret: {ex}"
        finally:
            if I is not None:
                _touch(ctx, I)
                visited.update(I.visited)
        if verdict is None:
            if geometric(fname, check, smooth, sc, cons, detail):
                return
        ctx.decide(rule, verdict, sc, None, construct=cons, detail=detail, bad_detail=detail)

    def geometric(fname, check, smooth, sc, cons, why):
        """second reading, for code that does not go through EdgeCpp.cpp_distance edge by edge: the pipeline on a laid-out mesh, no opaque distances"""
        I = None
        try:
            G = _Geometric(ctx)
            I, mesh, quad = G.interp()
            vals = G.inputs(mesh, quad)
            if smooth:
                vals["tol"] = atom("stol")
            out = _ct_call(I, mod, sc, vals)
            rk = G.ranking()
            verdict, detail = {check_dist: geo_dist, check_edges: geo_edges, check_two: geo_two}[check](G, I, out, rk)
        except INTERP_ERRORS as ex:
            ctx.undecided(rule, sc, None, construct=cons, detail=f"{why}; on a laid-out mesh: cannot interpret: {ex}")
            return True
        finally:
            if I is not None:
                _touch(ctx, I)
                visited.update(I.visited)
        ctx.decide(rule, verdict, sc, None, construct=cons, detail=detail, bad_detail=detail if verdict is False else f"{why}; on a laid-out mesh: {detail}")
        return True

    def dists_text(ds):
        return ", ".join(f"{float(v):+.3g}" for (_, v) in ds)

    def geo_dist(G, I, out, rk):
        out = I.num(out)
        nI = len(G.surfaceI)
        if not (isinstance(out, Arr) and out.size() == nI * G.nq):
            return None, f"the closest distances have the shape {getattr(out, 'shape', None)}"
        res = True
        for i in range(nI):
            for q in range(G.nq):
                ds, order = rk[(i, q)]
                x = out.data[i * G.nq + q]
                v = judge(x, ds[order[0]][0], I.policy)
                if v is False:
                    xv = I.policy(x.a)
                    return False, (f"a quadrature point with the candidate signed distances ({dists_text(ds)}): the function returns {float(xv):+.3g}; the nearest edge is the one of "
                                   f"smallest absolute distance, {float(ds[order[0]][1]):+.3g} (signed distances are negative when the point penetrates)")
                if v is None:
                    res = None
        return res, (f"{nI * G.nq} query points x 3 candidates on a laid-out mesh: the returned signed distance is the one of smallest absolute value" if res else
                     "the returned distances equal those of the nearest candidates at the sample point only" + _NOT_NF)

    def geo_edges(G, I, out, rk):
        if isinstance(out, Record):
            out = tuple(out.values)
        edges = I.num(out[0]) if isinstance(out, (tuple, list)) else I.num(out)
        nI = len(G.surfaceI)
        if not (isinstance(edges, Arr) and edges.size() == nI * G.nq * 2):
            return None, f"closest edges have the shape {getattr(edges, 'shape', None)}"
        for i in range(nI):
            for q in range(G.nq):
                ds, order = rk[(i, q)]
                got = tuple(I.as_int(x) for x in edges.data[2 * (i * G.nq + q):2 * (i * G.nq + q) + 2])
                if got != G.inter[i][order[0]]:
                    k = G.inter[i].index(got) if got in G.inter[i] else None
                    return False, (f"a quadrature point with the candidate signed distances ({dists_text(ds)}): the closest edge is taken to be "
                                   f"{'the candidate at %+.3g' % float(ds[k][1]) if k is not None else got}; the nearest edge is the one of smallest absolute distance, "
                                   f"{float(ds[order[0]][1]):+.3g}")
        return True, f"{nI * G.nq} query points x 3 candidates on a laid-out mesh: the closest edge is the candidate of smallest absolute distance"

    def geo_two(G, I, out, rk):
        if not G.smooth:
            return None, "EdgeCpp.smooth_distance is never called"
        res = True
        for s in G.smooth:
            where = [(i, q) for i in range(len(G.surfaceI)) for q in range(G.nq) if isinstance(s["point"], Arr) and s["point"].shape == (2,)
                     and judge(s["point"], G.qpoint(i, q), I.policy) is True]
            if len(where) != 1 or not (isinstance(s["two"], Arr) and s["two"].shape == (2, 2, 2)):
                return None, "the arguments of smooth_distance are not (two edges, a deformed quadrature point of an integration edge)"
            i, q = where[0]
            ds, order = rk[(i, q)]
            want = Arr(list(G.cur_edge(G.inter[i][order[0]]).data) + list(G.cur_edge(G.inter[i][order[1]]).data), (2, 2, 2))
            v = judge(s["two"], want, I.policy)
            if v is False:
                return False, (f"a quadrature point with the candidate signed distances ({dists_text(ds)}): the two edges handed to smooth_distance are not the two of smallest "
                               f"absolute distance ({float(ds[order[0]][1]):+.3g} first, then {float(ds[order[1]][1]):+.3g})")
            if v is None:
                res = None
        return res, (f"{len(G.smooth)} query points x 3 candidates on a laid-out mesh: the two edges of smallest absolute distance go to smooth_distance, nearest first" if res else
                     "the edges handed to smooth_distance equal the two nearest candidates at the sample point only" + _NOT_NF)

    def describe(R, r):
        grp = [x for x in R.calls.values() if x["g"] == r["g"]]
        return ", ".join(f"{x['name']}={R.values[x['name']]}" for x in sorted(grp, key=lambda x: x["c"]))

    def check_dist(R, I, out):
        out = I.num(out)
        n = 0
        for x in (out.data if isinstance(out, Arr) else [out]):
            ats = [a for a in x.a.atoms() if a in R.calls]
            gs = {R.calls[a]["g"] for a in ats}
            if len(gs) != 1:
                return None, f"a returned closest distance is `{show(x.a, 100)}`, which does not belong to the candidates of one query point"
            r = R.calls[ats[0]]
            best = R.by_abs([y for y in R.calls.values() if y["g"] == r["g"]])[0]
            if len(ats) != 1 or not same(x, r["atom"]):
                # not literally one candidate's distance: compare with the nearest candidate's signed distance at the sample values
                v = judge(x, best["atom"], I.policy)
                if v is True:
                    n += 1
                    continue
                return (False if v is False else None), (f"with the candidate distances {describe(R, r)} of one query point the function returns `{show(x.a, 100)}`; the signed "
                                                         f"distance of the nearest edge is {best['name']}" + ("" if v is False else _NOT_NF))
            if best is not r:
                return False, (f"with the candidate distances {describe(R, r)} of one query point the function returns {r['name']}; the nearest edge is the one of "
                               f"smallest absolute distance, {best['name']} (signed distances are negative when the point penetrates)")
            n += 1
        if n != len(R.groups):
            return None, f"{n} distances returned for {len(R.groups)} query points"
        return True, f"{n} query points x 3 candidates: the returned signed distance is the one of smallest absolute value"

    def check_edges(R, I, out):
        if isinstance(out, Record):
            out = tuple(out.values)
        edges = I.num(out[0]) if isinstance(out, (tuple, list)) else I.num(out)
        nI, nq = len(R.surfaceI), R.inst.nq
        if not (isinstance(edges, Arr) and edges.size() == nI * nq * 2):
            return None, f"closest edges have the shape {getattr(edges, 'shape', None)}"
        for i in range(nI):
            pts = R.inst.qpoints(R.surfaceI[i])
            for q in range(nq):
                grp = R.group_of(Arr(pts.data[2 * q:2 * q + 2], (2,)))
                if not grp:
                    return None, "no distance evaluation found for a deformed quadrature point of the integration edge"
                got = tuple(I.as_int(x) for x in edges.data[2 * (i * nq + q):2 * (i * nq + q) + 2])
                cand = {}
                for r in grp:
                    hit = [e for e in R.inter[i] if same_arr(r["edge"], R.inst.cur_edge(e))]
                    if len(hit) != 1:
                        return None, "a candidate edge passed to cpp_distance is not the deformed edge of a candidate of the interaction list"
                    cand[r["name"]] = hit[0]
                best = R.by_abs(grp)[0]
                if got != cand[best["name"]]:
                    who = [nme for nme, e in cand.items() if e == got]
                    return False, (f"with the candidate distances {describe(R, best)} the closest edge of a quadrature point is taken to be the candidate with "
                                   f"{who[0] if who else got}; the nearest edge is the one of smallest absolute distance, {best['name']}")
        return True, f"{nI * nq} query points x 3 candidates: the closest edge is the candidate of smallest absolute distance"

    def check_two(R, I, out):
        if not R.smooth:
            return None, "EdgeCpp.smooth_distance is never called"
        for s in R.smooth:
            grp = R.group_of(s["point"]) if isinstance(s["point"], Arr) and s["point"].shape == (2,) else None
            if not grp or len(grp) < 2 or not (isinstance(s["two"], Arr) and s["two"].shape == (2, 2, 2)):
                return None, "the arguments of smooth_distance are not (two edges, a query point whose candidate distances were evaluated)"
            order = R.by_abs(grp)
            want = Arr(list(order[0]["edge"].data) + list(order[1]["edge"].data), (2, 2, 2))
            if not same_arr(s["two"], want):
                sel = []
                for k in range(2):
                    e = Arr(s["two"].data[4 * k:4 * k + 4], (2, 2))
                    sel += [r["name"] for r in grp if same_arr(r["edge"], e)] or ["?"]
                return False, (f"with the candidate distances {describe(R, order[0])} the two edges handed to smooth_distance are those of {sel}; the two nearest "
                               f"edges are those of smallest absolute distance, {[order[0]['name'], order[1]['name']]}")
        return True, f"{len(R.smooth)} query points x 3 candidates: the two edges of smallest absolute distance go to smooth_distance, nearest first"

    run("compute_closest_distance_to_each_side", check_dist)
    run("compute_closest_edges_and_field_weights", check_edges)
    run("compute_closest_distance_to_each_side_smooth", check_two, smooth=True)
    # every function of Contact.py that ranks signed distances must have been on one of the interpreted paths
    for sc in ctx.repo.functions():
        if sc.module.name != CT:
            continue
        own = [n for n in ast.walk(sc.node) if isinstance(n, (ast.Attribute, ast.Name)) and (n.attr if isinstance(n, ast.Attribute) else n.id) == "cpp_distance"
               and ctx.repo.scope_of(n) in (None, sc)]
        direct = [n for n in own if not any(n in ast.walk(ch.node) for ch in sc.children)]
        if direct and sc.qualname not in visited:
            ctx.undecided(rule, sc, None, construct=f"{sc.shortname}:unanalysed-user-of-signed-distances",
                          detail="this function uses EdgeCpp.cpp_distance but is not reached from the interpreted node-to-segment pipelines")


# ====================================================================================================================== O4 mortar assembly

def o4_assembly(ctx):
    """Nodal mortar integrals: assembly_mortar_integral is interpreted on two A and two B segments with two neighbours each.  integrate_with_mortar
    is an opaque LINEAR functional of its integrand (O4/T5-mortar-weights shows that the integral is a weighted sum of integrand values): the
    integrand of each call is applied to symbolic (xi1, xi2, gap) with an opaque f, and the call returns  sum_m c_m M[segments | m]  over the
    monomials m of that polynomial.  The nodal field must then be, node by node, the sum over the (B segment, neighbour) pairs of the integral of
    f(gap) N_node(xi) with the nodal shape functions 1 - xi (first node) and xi (second node) of the B segment -- however the code splits it."""
    rule = "O4/T5-mortar-assembly-pairing"
    asm = ctx.need(f"{MC}:assembly_mortar_integral")
    iwm = ctx.need(f"{MC}:integrate_with_mortar")
    mod = ctx.need_module(MC)
    X, U = sym_array("X", (6, 2)), sym_array("U", (6, 2))
    connsA, connsB = [(0, 1), (1, 2)], [(3, 4), (4, 5)]
    neigh = [(0, 1), (1, 0)]
    I = SymInterp(ctx.repo, Sample({}))
    calls = []
    fnormal = PyFunc("f_average_normal", lambda it, a, k: (_ for _ in ()).throw(EvalError("the common normal is not needed for the assembly")))
    fint = PyFunc("f_integrand", lambda it, a, k: atom(f"fint[{key_of(it.num(a[0]))}]"))
    x1, x2, gp = atom("xi1"), atom("xi2"), atom("gap")
    fg = atom(f"fint[{key_of(gp)}]")
    cons3 = ("scatter:first-node<-(1-xi)", "scatter:second-node<-xi", "both-nodes-assembled")
    state = {"bad_coords": None}

    def node_of(ex, ey):
        hit = [n for n in range(6) if same(ex, X.data[2 * n] + U.data[2 * n]) and same(ey, X.data[2 * n + 1] + U.data[2 * n + 1])]
        if not hit:
            # the node is recognised by its reference coordinates; what is added to them is not its displacement
            noX = lambda v: not any(a.startswith("X") for a in v.a.atoms())
            hit = [n for n in range(6) if noX(ex - X.data[2 * n]) and noX(ey - X.data[2 * n + 1])]
            if len(hit) == 1:
                state["bad_coords"] = state["bad_coords"] or (f"a segment handed to integrate_with_mortar has the end point `({show(ex, 40)}, {show(ey, 40)})`, which is not the "
                                                              f"deformed position X{hit[0]} + U{hit[0]} of the node {hit[0]}")
        if len(hit) != 1:
            raise EvalError("a segment handed to integrate_with_mortar is not made of the (deformed) coordinates of two nodes")
        return hit[0]

    def functional(segs, smoothing, w):
        """linear extension: the integral over the pair `segs` of the polynomial w(xi1, xi2, gap)"""
        if not isinstance(w, Dual):
            raise EvalError(f"the integrand of a mortar integral is not scalar: {show(w, 80)}")
        r = _A.norm(w.a)
        den = "" if r.d.is_const() else f" / ({r.d!r})"
        scale = r.d.const_value() if r.d.is_const() else 1
        tot = Dual(0)
        for m, c in r.n.t.items():
            mono = "*".join(k if e == 1 else f"{k}^{e}" for k, e in m) or "1"
            tot = tot + Dual(F(c) / F(scale)) * atom(f"M[{segs[0]}{segs[1]} s={smoothing} | {mono}{den}]")
        return tot

    def mortar(it, args, kw):
        ps = iwm.params()
        b = dict(zip(ps, args))
        b.update(kw)
        for p in ps:
            if p not in b and iwm.default_of(p) is not None:
                b[p] = it.eval(iwm.default_of(p), it.module_env(iwm.module))
        edges = [(p, it.num(v)) for p, v in b.items() if isinstance(v, Arr) and v.shape == (2, 2)]
        funcs = [v for v in b.values() if isinstance(v, (Closure, PyFunc, S.Partial, S.VMap)) and v is not fnormal]
        rest = [v for p, v in b.items() if not isinstance(v, (Arr, Closure, PyFunc, S.Partial, S.VMap))]
        if len(edges) != 2 or len(funcs) != 1 or len(rest) > 1:
            raise EvalError("integrate_with_mortar is not called with two segments, a normal, one integrand and a smoothing size")
        edges.sort(key=lambda pe: ps.index(pe[0]))
        segs = tuple(tuple(node_of(e.data[2 * row], e.data[2 * row + 1]) for row in range(2)) for (_, e) in edges)
        smoothing = key_of(it.num(rest[0])) if rest else "default"
        w = it.num(it.call(funcs[0], [x1, x2, gp], {}))
        calls.append({"segs": segs, "smoothing": smoothing, "w": w})
        return functional(segs, smoothing, w)
    I.special[iwm.qualname] = mortar

    # The same integral may be assembled from the two halves of integrate_with_mortar (one projection shared by several integrands):
    #   compute_intersection(E1, E2, the caller's normal rule) -> opaque end values (xiA, xiB, g) of that pair, and
    #   integrate_with_active_mortar(those end values in their order, |E1|, |E2|, integrand, smoothing) -> the same linear functional M[E1 E2 | .],
    # which is what O4/T5-mortar-glue shows integrate_with_mortar(E1, E2, normal, integrand, smoothing) to be.  Whatever stands between the two calls
    # (the overlap switch, helper functions) is interpreted; end values that are not the untouched results of ONE projection, or other lengths than
    # those of its two segments, are not understood (ANALYSIS-INCOMPLETE).
    ci = ctx.repo.find(f"{MC}:compute_intersection")
    am = ctx.repo.find(f"{MC}:integrate_with_active_mortar")
    projections = []

    def bind(scope, args, kw):
        ps = scope.params()
        if len(args) > len(ps) or any(k not in ps for k in kw):
            raise EvalError(f"{scope.shortname} is called with arguments that do not fit its parameters")
        b = dict(zip(ps, args))
        b.update(kw)
        if any(p not in b for p in ps):
            raise EvalError(f"an argument of {scope.shortname} is left to its default")
        return [b[p] for p in ps]

    def intersection(it, args, kw):
        eA, eB, nrm = bind(ci, args, kw)
        if nrm is not fnormal or not all(isinstance(e, Arr) and e.shape == (2, 2) for e in (eA, eB)):
            raise EvalError("compute_intersection is not called with two segments and the caller's common-normal rule")
        segs = tuple(tuple(node_of(e.data[2 * row], e.data[2 * row + 1]) for row in range(2)) for e in (eA, eB))
        k = len(projections)
        tok = tuple(sym_array(f"proj{k}.{nm}", (2,)) for nm in ("xiA", "xiB", "g"))
        projections.append({"segs": segs, "edges": (eA, eB), "tok": tok})
        return tok

    def active(it, args, kw):
        aXA, aXB, aG, aLA, aLB, aF, aS = bind(am, args, kw)
        ends = [it.num(v) if isinstance(v, (Arr, Dual, int, float, F)) else None for v in (aXA, aXB, aG)]
        hit = [p for p in projections if all(isinstance(e, Arr) and e.shape == (2,) and same_arr(e, t) for e, t in zip(ends, p["tok"]))]
        if len(hit) != 1:
            raise EvalError("integrate_with_active_mortar is reached with end values (xiA, xiB, g) that are not the three results, in their order, of one "
                            "compute_intersection call of the assembly")
        eA, eB = hit[0]["edges"]
        length = lambda E: d_fun("sqrt", (E.data[0] - E.data[2]) * (E.data[0] - E.data[2]) + (E.data[1] - E.data[3]) * (E.data[1] - E.data[3]))
        if not all(isinstance(v, (Arr, Dual)) for v in (aLA, aLB)) or judge(it.num(aLA), length(eA)) is not True or judge(it.num(aLB), length(eB)) is not True:
            raise EvalError("the lengths handed to integrate_with_active_mortar are not those of the two intersected segments, in their order")
        if not isinstance(aF, (Closure, PyFunc, S.Partial, S.VMap)) or aF is fnormal:
            raise EvalError("the integrand handed to integrate_with_active_mortar is not a function")
        smoothing = key_of(it.num(aS))
        w = it.num(it.call(aF, [x1, x2, gp], {}))
        calls.append({"segs": hit[0]["segs"], "smoothing": smoothing, "w": w})
        return functional(hit[0]["segs"], smoothing, w)
    if ci is not None and am is not None and len(ci.params()) == 3 and len(am.params()) == 7:
        I.special[ci.qualname] = intersection
        I.special[am.qualname] = active
    roles = {"coords": X, "disp": U, "a": int_array([list(s) for s in connsA]), "b": int_array([list(s) for s in connsB]),
             "neigh": int_array([list(s) for s in neigh]), "normal": fnormal, "integrand": fint}
    pats = (("coords", ("coord",)), ("disp", ("disp",)), ("a", ("connsa", "segmentsa", "segsa")), ("b", ("connsb", "segmentsb", "segsb")),
            ("neigh", ("neighbor", "neighbour")), ("normal", ("normal",)), ("integrand", ("integrand",)))
    ref = ("coords", "disp", "a", "b", "neigh", "normal", "integrand")
    try:
        kwargs = {}
        named = {p: next((r for r, ps_ in pats if any(x in p.lower() for x in ps_)), None) for p in asm.params()}
        for k, p in enumerate(asm.params()):
            role = named[p]
            if role is None and len(asm.params()) == len(ref) and ref[k] not in named.values():
                role = ref[k]
            if role is None and asm.default_of(p) is None:
                raise EvalError(f"parameter `{p}` of assembly_mortar_integral has no recognised role")
            if role is not None:
                kwargs[p] = roles[role]
        out = I.num(I.call(I.module_value(mod, "assembly_mortar_integral"), [], kwargs))
        if not (isinstance(out, Arr) and out.shape == (6,)):
            raise EvalError(f"the nodal field is {show(out, 80)}")
        if not calls:
            raise EvalError("integrate_with_mortar is never called")
        if len({c["smoothing"] for c in calls}) != 1:
            raise EvalError("the mortar integrals of the assembly use different smoothing sizes")
        # ---- specification: per (B segment, neighbour) pair, in the orientation the code integrates it
        want = [Dual(0)] * 6
        parts = {"first": [Dual(0)] * 6, "second": [Dual(0)] * 6}
        smoothing = calls[0]["smoothing"]
        for sB, seg in enumerate(connsB):
            for j in neigh[sB]:
                orient = {c["segs"] for c in calls if set(c["segs"]) == {seg, connsA[j]}}
                if len(orient) != 1:
                    raise EvalError(f"the pair of segments {seg}, {connsA[j]} is integrated {'in both orientations' if orient else 'nowhere'}")
                segs = orient.pop()
                xi = x1 if segs[0] == seg else x2
                for loc, (kind, N) in enumerate((("first", Dual(1) - xi), ("second", xi))):
                    term = functional(segs, smoothing, fg * N)
                    want[seg[loc]] = want[seg[loc]] + term
                    parts[kind][seg[loc]] = parts[kind][seg[loc]] + term
    except INTERP_ERRORS as ex:
        for cons in cons3:
            ctx.undecided(rule, asm, None, construct=cons, detail=f"cannot interpret: {ex}")
        _touch(ctx, I)
        return
    _touch(ctx, I)
    ctx.decide(rule, state["bad_coords"] is None, asm, None, construct="segments=coords+disp", detail="the segments of every mortar integral are the deformed node coordinates",
               bad_detail=state["bad_coords"])
    # node 3 is only the first node of a B segment, node 5 only the second node of one, node 4 is both
    for cons, kind, node, seg in ((cons3[0], "first", 3, connsB[0]), (cons3[1], "second", 5, connsB[1])):
        v = judge(out.data[node], want[node])
        N = "1 - xi" if kind == "first" else "xi"
        ctx.decide(rule, v, asm, None, construct=cons, detail=f"node {node}, the {kind} node of the segment {seg}, receives the integrals of f(gap) ({N}) over its segment pairs",
                   bad_detail=f"node {node} is the {kind} node of the segment {seg}: it receives `{show(out.data[node], 200)}`; expected the integrals of f(gap) * ({N}) over the pairs "
                              f"with its neighbours, `{show(want[node], 200)}` (M[segments | m] = mortar integral of the monomial m; nodal areas and gaps are swapped on "
                              f"partially covered segments)" + ("" if v is False else _NOT_NF))
    v = judge(out, Arr(want, (6,)))
    ctx.decide(rule, v, asm, None, construct=cons3[2], detail="every node receives, for every neighbour pair of its segments, the integral weighted with its own shape function",
               bad_detail=f"the nodal field `{show(out, 260)}` is not the sum over the segment pairs of the shape-function weighted integrals `{show(Arr(want, (6,)), 260)}`" +
                          ("" if v is False else _NOT_NF))


# ====================================================================================================================== O4 mortar weights

def _ramp(x, l, env):
    """the C1 ramp S(x; l) of the specification on the arm that contains the sample value of x"""
    xv, lv = env(x.a), env(l.a)
    if xv is None or lv is None:
        raise EvalError("no sample value for the argument of the smoothing ramp")
    if xv < lv:
        return x * x / (Dual(2) * l)
    if xv > 1 - lv:
        return Dual(1) - l - (Dual(1) - x) * (Dual(1) - x) / (Dual(2) * l)
    return x - l / Dual(2)


def o4_mortar(ctx):
    """integrate_with_active_mortar on symbolic end parameters (xiA, xiB, g), lengths and smoothing size, with an opaque integrand f: the result must be
    sum_q W w_q f(xiA(q), xiB(q), g(q)) over the points q of a Gauss rule that is exact for quadratic integrands, with the linear interpolations of the
    end values and W = 1/2 (lengthA (S(xiA_1) - S(xiA_0)) + lengthB |S(xiB_1) - S(xiB_0)|)."""
    rule = "O4/T5-mortar-weights"
    sc = ctx.need(f"{MC}:integrate_with_active_mortar")
    mod = ctx.need_module(MC)
    if len(sc.params()) != 7:
        raise Incomplete("integrate_with_active_mortar no longer has the signature (xiA, xiB, g, lengthA, lengthB, f, smoothing)")
    a, b, g = [atom("a0"), atom("a1")], [atom("b0"), atom("b1")], [atom("g0"), atom("g1")]
    LA, LB, l = atom("LA"), atom("LB"), atom("l")
    regions = [("interior, B reversed", (F(1, 5), F(3, 5)), (F(7, 10), F(3, 10))),
               ("both smoothing arms", (F(1, 20), F(19, 20)), (F(24, 25), F(1, 50))),
               ("interior, B increasing", (F(3, 10), F(1, 2)), (F(1, 5), F(4, 5))),
               ("A reversed", (F(3, 5), F(1, 5)), (F(2, 5), F(9, 10)))]
    fails = {}
    notes = {}
    undec = {}
    names = ["average-of-both-sides", "weight-A", "weight-B", "gauss-rule-degree", "integrand-argument-xiA:linear-interpolation",
             "integrand-argument-xiB:linear-interpolation", "integrand-argument-g:linear-interpolation"]

    def fail(cons, msg):
        fails.setdefault(cons, msg)

    def unsure(cons, msg):
        undec.setdefault(cons, msg)

    for (lab, av, bv) in regions:
        env = {"a0": av[0], "a1": av[1], "b0": bv[0], "b1": bv[1], "g0": F(1, 3), "g1": F(-1, 4), "LA": F(2), "LB": F(3), "l": F(1, 10)}
        rules_made = []
        frec = []

        def resolver(name, env=env, rules_made=rules_made):
            for (xi, w) in rules_made:
                for k, (x, ww) in enumerate(zip(xi, w)):
                    if name == x:
                        return F(k + 1, len(xi) + 1)
                    if name == ww:
                        return F(1, len(xi))
            if name.startswith("F["):
                return F(1)
            return None
        smp = Sample(env, [resolver])
        I = SymInterp(ctx.repo, smp)

        def chk(cons, got, want, msg, smp=smp):
            v = judge(got, want, smp)
            if v is False:
                fail(cons, msg)
            elif v is None:
                unsure(cons, msg + _NOT_NF)

        def roots(it, args, kw, rules_made=rules_made):
            n = it.as_int(args[0])
            if len(args) != 1 or kw:
                raise EvalError("roots_sh_legendre with more than the number of points")
            # a pure function of the number of points: a second rule of the same size (a rule rebuilt by a property, by each helper object, ...) is the same rule
            for (xi, w) in rules_made:
                if len(xi) == n:
                    return (Arr([atom(x) for x in xi], (n,)), Arr([atom(x) for x in w], (n,)))
            k = len(rules_made)
            xi = [f"gq{k}_{i}" for i in range(n)]
            w = [f"gw{k}_{i}" for i in range(n)]
            rules_made.append((xi, w))
            return (Arr([atom(x) for x in xi], (n,)), Arr([atom(x) for x in w], (n,)))
        I.ext_special["scipy.special.roots_sh_legendre"] = roots
        sl = ctx.repo.find(f"{MC}:smooth_linear")
        if sl is not None and len(sl.params()) == 2:
            # assume / guarantee: T7-smooth_linear (C18) proves that smooth_linear is the C1 ramp S of the specification; here its calls are S
            def ramp(it, args, kw, sl=sl, smp=smp):
                bd = dict(zip(sl.params(), args))
                bd.update(kw)
                x, ll = it.num(bd[sl.params()[0]]), it.num(bd[sl.params()[1]])
                if not isinstance(ll, Dual):
                    raise EvalError("smooth_linear with an array smoothing size")
                return x.map(lambda v: _ramp(v, ll, smp)) if isinstance(x, Arr) else _ramp(x, ll, smp)
            I.special[sl.qualname] = ramp

        def integrand(it, args, kw, frec=frec):
            if len(args) != 3 or kw:
                raise EvalError("the integrand is not called with (xiA, xiB, g)")
            vals = [it.num(x) for x in args]
            if not all(isinstance(x, Dual) for x in vals):
                raise EvalError("the integrand is called with arrays")
            name = f"F[{len(frec)}]"
            frec.append((name, vals))
            return atom(name)
        try:
            out = I.num(I.call(I.module_value(mod, "integrate_with_active_mortar"),
                               [Arr(list(a), (2,)), Arr(list(b), (2,)), Arr(list(g), (2,)), LA, LB, PyFunc("f", integrand), l], {}))
            if isinstance(out, Arr) and out.size() == 1:
                out = out.data[0]
            if not isinstance(out, Dual):
                raise EvalError("the mortar integral is an array")
            if not frec:
                raise EvalError("the integrand is never evaluated")
            pts = [(x, w) for (xi, w) in rules_made for x, w in zip(xi, w)]
            if not pts:
                raise EvalError("no Gauss rule from QuadratureRule.create_quadrature_rule_1D was used")
        except INTERP_ERRORS as ex:
            for cons in names:
                undec.setdefault(cons, f"[{lab}] cannot interpret: {ex}")
            _touch(ctx, I)
            continue
        _touch(ctx, I)
        dSA = _ramp(a[1], l, smp) - _ramp(a[0], l, smp)
        dSB = _ramp(b[1], l, smp) - _ramp(b[0], l, smp)
        if smp(dSB.a) < 0:
            dSB = -dSB
        used = []
        rest = out
        for (name, (xa, xb, gg)) in frec:
            c = coeff(out, name)
            if c is None:
                fail("average-of-both-sides", f"[{lab}] the mortar integral `{show(out.a, 160)}` is not linear in the values of the integrand")
                continue
            rest = rest - c * atom(name)
            if rat_is_zero(c.a):
                continue
            lin = lambda f, x: f[0] * (Dual(1) - atom(x)) + f[1] * atom(x)
            verd = [(judge(xa, lin(a, x), smp), x, w) for (x, w) in pts]
            hit = [(x, w) for (v, x, w) in verd if v is True]
            if len(hit) != 1:
                if any(v is None for (v, x, w) in verd):
                    unsure("integrand-argument-xiA:linear-interpolation", f"[{lab}] xiA = `{show(xa.a, 120)}` equals a Gauss-point interpolation at the sample only")
                else:
                    fail("integrand-argument-xiA:linear-interpolation", f"[{lab}] the integrand is evaluated at xiA = `{show(xa.a, 120)}`, which is not xiA_0 (1 - q) + xiA_1 q at a point q of the Gauss rule")
                continue
            x, w = hit[0]
            used.append(x)
            chk("integrand-argument-xiB:linear-interpolation", xb, lin(b, x), f"[{lab}] at the Gauss point {x} the integrand is evaluated at xiB = `{show(xb.a, 120)}`, not xiB_0 (1 - q) + xiB_1 q")
            chk("integrand-argument-g:linear-interpolation", gg, lin(g, x), f"[{lab}] at the Gauss point {x} the integrand is evaluated at g = `{show(gg.a, 120)}`, not g_0 (1 - q) + g_1 q")
            cA, cB = coeff(c, "LA"), coeff(c, "LB")
            if cA is None or cB is None:
                fail("average-of-both-sides", f"[{lab}] the weight of the integrand at the Gauss point {x} is `{show(c.a, 160)}`, which is not linear in the two segment lengths")
                continue
            chk("average-of-both-sides", c, cA * LA + cB * LB, f"[{lab}] the weight of the integrand at the Gauss point {x} is `{show(c.a, 160)}`, not 1/2 (lengthA * dA + lengthB * dB) * w")
            chk("weight-A", cA, atom(w) * dSA / Dual(2), f"[{lab}] side-A share of the weight at the Gauss point {x} is lengthA * `{show(cA.a, 140)}`; expected 1/2 w (S(xiA_1) - S(xiA_0)) = "
                                                          f"`{show((atom(w) * dSA / Dual(2)).a, 120)}` (signed)")
            chk("weight-B", cB, atom(w) * dSB / Dual(2), f"[{lab}] side-B share of the weight at the Gauss point {x} is lengthB * `{show(cB.a, 140)}`; expected 1/2 w |S(xiB_1) - S(xiB_0)| = "
                                                          f"`{show((atom(w) * dSB / Dual(2)).a, 120)}`")
        if not rat_is_zero(rest.a):
            fail("average-of-both-sides", f"[{lab}] the mortar integral contains the extra term `{show(rest.a, 140)}` besides the weighted values of the integrand")
        one_rule = [r for r in rules_made if set(r[0]) & set(used)]
        if len(one_rule) == 1 and sorted(used) == sorted(one_rule[0][0]):
            n = len(one_rule[0][0])
            if n < 2:
                fail("gauss-rule-degree", f"[{lab}] the integral uses a {n}-point Gauss rule (exact up to degree {2 * n - 1}); the nodal integrands N(xi) * g(xi) are quadratic")
            notes["gauss-rule-degree"] = f"{n}-point Gauss rule, every point used once with its own weight"
        elif not any(k.startswith("integrand-argument-xiA") for k in fails):
            fail("gauss-rule-degree", f"[{lab}] the integrand is evaluated at the Gauss points {sorted(used)}; a complete rule {[r[0] for r in rules_made]} is required")
    details = {"average-of-both-sides": "sum_q 1/2 (lengthA dA + lengthB dB) w_q f(...)", "weight-A": "dA = S(xiA_1) - S(xiA_0) (signed)",
               "weight-B": "dB = |S(xiB_1) - S(xiB_0)|", "gauss-rule-degree": notes.get("gauss-rule-degree", "Gauss rule exact for quadratics")}
    for cons in names:
        v = False if cons in fails else (None if cons in undec else True)
        ctx.decide(rule, v, sc, None, construct=cons, detail=details.get(cons, "linear interpolation of the end values at the Gauss points") + f" ({len(regions)} overlap regions)",
                   bad_detail=fails.get(cons) or undec.get(cons))
    # the public interpolation helper, when there is one
    el = ctx.repo.find(f"{MC}:eval_linear_field_on_edge")
    if el is not None and len(el.params()) == 2:
        ctx.touch(el)
        I = SymInterp(ctx.repo, Sample({}))
        f0, f1, x = atom("f0"), atom("f1"), atom("xi")
        try:
            for label, fld in (("array", Arr([f0, f1], (2,))),):
                out = I.num(I.call(I.module_value(mod, "eval_linear_field_on_edge"), [fld, x], {}))
            ok = judge(out, f0 * (Dual(1) - x) + f1 * x) if isinstance(out, Dual) else False
            ctx.decide(rule, ok, el, None, construct="eval_linear_field_on_edge", detail="f0 (1-xi) + f1 xi",
                       bad_detail=f"eval_linear_field_on_edge(field, xi) returns `{show(out, 120)}`, not field[0] (1 - xi) + field[1] xi")
        except INTERP_ERRORS as ex:
            ctx.undecided(rule, el, None, construct="eval_linear_field_on_edge", detail=f"cannot interpret: {ex}")
        finally:
            _touch(ctx, I)


# ====================================================================================================================== O4 common normal, intersection, glue

def _edge_normal(E):
    """outward normal (t_y, -t_x)/|t| of the symbolic edge E (specification side)"""
    tx, ty = E.data[2] - E.data[0], E.data[3] - E.data[1]
    nt = d_fun("sqrt", tx * tx + ty * ty)
    return [ty / nt, -tx / nt]


def _normal_call_convention(ctx, A, B):
    """how the consumer (compute_intersection) calls the common-normal function it is given: positional / keyword arguments -> 'A' | 'B'
    (first / second segment of the pair); None when that cannot be read off"""
    ci = ctx.repo.find(f"{MC}:compute_intersection")
    if ci is None or len(ci.params()) != 3:
        return None
    seen = []

    class _Stop(Exception):
        pass

    def fn(it, args, kw):
        seen.append((list(args), dict(kw)))
        raise _Stop()
    env = {}
    for k, (x, y) in enumerate(((0, 0), (2, F(1, 10)))):
        env[f"A{k}_0"], env[f"A{k}_1"] = F(x), F(y)
    for k, (x, y) in enumerate(((3, F(-1, 2)), (1, F(-2, 5)))):
        env[f"B{k}_0"], env[f"B{k}_1"] = F(x), F(y)
    I = SymInterp(ctx.repo, Sample(env))
    try:
        I.call(I.module_value(ctx.need_module(MC), "compute_intersection"), [A, B, PyFunc("f_common_normal", fn)], {})
    except _Stop:
        pass
    except INTERP_ERRORS:
        return None
    if not seen:
        return None

    def role(v):
        try:
            v = I.num(v)
        except INTERP_ERRORS:
            return None
        if isinstance(v, Arr) and v.shape == (2, 2):
            return "A" if same_arr(v, A) else "B" if same_arr(v, B) else None
        return None
    args, kw = seen[0]
    conv = ([role(v) for v in args], {k: role(v) for k, v in kw.items()})
    if None in conv[0] or None in conv[1].values() or sorted(conv[0] + list(conv[1].values())) != ["A", "B"]:
        return None
    return conv


def _common_normal_candidates(ctx, conv):
    """The common-normal rule of a mortar integral is an argument (integrate_with_mortar / compute_intersection / the assemblies take it from the caller):
    every function the module of the consumer offers for that argument is a sibling implementation of the same interface.  A candidate is a top-level
    function of that module that can be called the way the consumer calls its normal argument (two segments) and returns a plane vector for two generic
    segments; a function with that signature that refers to an edge-normal implementation but cannot be interpreted is reported as undecided."""
    A, B = sym_array("A", (2, 2)), sym_array("B", (2, 2))
    env = {"A0_0": F(0), "A0_1": F(0), "A1_0": F(2), "A1_1": F(1, 3), "B0_0": F(5, 2), "B0_1": F(-1), "B1_0": F(1, 4), "B1_1": F(-1, 2)}
    mod = ctx.need_module(MC)
    normal_sites = {f"{SF}:compute_normal", f"{SF}:compute_edge_vectors", f"{MC}:compute_normal", "optimism.Mesh:compute_edge_vectors"}
    out, unread = [], []
    for sc in ctx.repo.functions():
        if sc.module.name != MC or sc.kind != "function" or sc.parent is None or sc.parent.kind != "module":
            continue
        ps = sc.params()
        if len(conv[0]) > len(ps) or any(k not in ps + sc.kwonly() for k in conv[1]) or sc.n_required() > len(conv[0]) + len(conv[1]):
            continue
        if any(sc.default_of(p) is None for p in sc.kwonly() if p not in conv[1]):
            continue
        if ctx.repo.find(sc.qualname) is not sc:
            continue        # shadowed by a later definition of the same name
        I = SymInterp(ctx.repo, Sample(env))
        try:
            v = I.num(_call_normal(I, I.module_value(mod, sc.name), conv, A, B))
            if isinstance(v, Arr) and v.shape == (2,):
                # a helper that happens to map two segments to a plane vector is not a normal rule: it must go through an edge-normal implementation
                # or return a unit vector
                n2 = number(v.data[0] * v.data[0] + v.data[1] * v.data[1], Sample(env))
                if (set(I.visited) & normal_sites) or (n2 is not None and abs(float(n2) - 1) < 1e-9):
                    out.append(sc)
        except INTERP_ERRORS as ex:
            refs = set()
            for n in ast.walk(sc.node):
                if isinstance(n, (ast.Name, ast.Attribute)):
                    try:
                        refs |= {fv.scope.qualname for fv in ctx.repo.resolve(n, sc) if hasattr(fv, "scope") and getattr(fv.scope, "is_function", lambda: False)()}
                    except Exception:
                        pass
            if (refs | set(I.visited)) & normal_sites:
                unread.append((sc, ex))
        except (AttributeError, IndexError, KeyError, TypeError, ValueError):
            pass
    return out, unread


def _call_normal(I, f, conv, A, B):
    pick = {"A": A, "B": B}
    return I.call(f, [pick[r] for r in conv[0]], {k: pick[r] for k, r in conv[1].items()})


def o4_common_normal(ctx):
    """Every common-normal rule the mortar module offers, f(A, B) for the pair of segments (A integrated, B opposite): the gap g of a mortar integral
    solves xa - xb + g n = 0 with n = f(A, B), so (1) n is a unit vector, (2) for parallel facing segments (B runs against A) n is the outward normal of A
    -- otherwise the gap of a separated pair is not its distance and the gap area is not gap * overlap --, (3) on facing pairs in general position n
    points out of A and into B, (4) n follows a common rigid motion of the two segments."""
    rule = "O4/T6-common-normal-siblings"
    mod = ctx.need_module(MC)
    A, B = sym_array("A", (2, 2)), sym_array("B", (2, 2))
    conv = _normal_call_convention(ctx, A, B) or (["A", "B"], {})
    cands, unread = _common_normal_candidates(ctx, conv)
    for (sc, ex) in unread:
        ctx.undecided(rule, sc, None, construct=f"{_short(MC)}.{sc.name}", detail=f"has the interface of a common-normal rule and uses an edge normal; cannot interpret: {ex}")
    if not cands and not unread:
        raise Incomplete("the mortar module offers no common-normal rule (a function of two segments that returns a plane vector)")
    nA, nB = _edge_normal(A), _edge_normal(B)
    dx, dy = atom("dx"), atom("dy")
    tA = [A.data[2] - A.data[0], A.data[3] - A.data[1]]
    # B runs against A: translated copy of A reversed (same length); twice as long; half as long
    def opposite(scale):
        b0 = [A.data[2] + dx, A.data[3] + dy]
        return Arr([b0[0], b0[1], b0[0] - Dual(scale) * tA[0], b0[1] - Dual(scale) * tA[1]], (2, 2))
    envA = {"A0_0": F(1, 3), "A0_1": F(-1, 2), "A1_0": F(2), "A1_1": F(1, 4)}
    facing = [dict(envA, B0_0=F(5, 2), B0_1=F(-1), B1_0=F(1, 4), B1_1=F(-3, 2)), dict(envA, B0_0=F(3), B0_1=F(-2), B1_0=F(1), B1_1=F(-5, 2)),
              {"A0_0": F(0), "A0_1": F(0), "A1_0": F(-1), "A1_1": F(2), "B0_0": F(1, 2), "B0_1": F(3), "B1_0": F(2), "B1_1": F(-1, 3)}]
    cr, sr = F(3, 5), F(4, 5)

    def moved(E):
        return Arr([v for k in range(2) for v in (cr * E.data[2 * k] - sr * E.data[2 * k + 1] + dx, sr * E.data[2 * k] + cr * E.data[2 * k + 1] + dy)], (2, 2))

    for sc in cands:
        name = f"{_short(MC)}.{sc.name}"
        f = None

        def value(I, a, b):
            v = I.num(_call_normal(I, I.module_value(mod, sc.name), conv, a, b))
            if not (isinstance(v, Arr) and v.shape == (2,)):
                raise EvalError(f"the common normal is not a plane vector: {show(v, 60)}")
            return v
        # ---- (2) parallel facing segments
        T = _Tally()
        for (lab, scale) in (("of the same length", 1), ("twice as long", 2), ("half as long", F(1, 2))):
            smp = Sample(dict(envA, dx=F(1, 5), dy=F(-2, 3)))
            I = SymInterp(ctx.repo, smp)
            try:
                got = value(I, A, opposite(scale))
                v = judge(got, Arr(nA, (2,)), smp)
                T.add(v, f"{name}(A, B) for parallel facing segments (B runs against A, {lab}) is `{show(got, 200)}`; expected the outward normal of A, (t_y, -t_x)/|t| "
                         f"with t = second - first point of A: the gap g of xa - xb + g n = 0 is not the distance of the segments (gap area != gap * overlap)" +
                         ("" if v is False else _NOT_NF))
            except INTERP_ERRORS as ex:
                T.cannot(ex)
            finally:
                _touch(ctx, I)
        ctx.decide(rule, T.verdict(), sc, None, construct=f"{name}:parallel-facing=normal-of-A", detail="outward normal of the first segment when the second runs against it (3 length ratios)",
                   bad_detail=T.text())
        # ---- (1) unit, (3) orientation, (4) rigid motion: generic pairs
        TU, TO, TR = _Tally(), _Tally(), _Tally()
        for env in facing:
            smp = Sample(dict(env, dx=F(1, 5), dy=F(-2, 3)))
            I = SymInterp(ctx.repo, smp)
            try:
                got = value(I, A, B)
                v = judge(got.data[0] * got.data[0] + got.data[1] * got.data[1], Dual(1), smp)
                TU.add(v, f"{name}(A, B) = `{show(got, 200)}` is not a unit vector" + ("" if v is False else _NOT_NF))
                da = number(got.data[0] * nA[0] + got.data[1] * nA[1], smp)
                db = number(got.data[0] * nB[0] + got.data[1] * nB[1], smp)
                if da is None or db is None:
                    TO.add(None, f"no sample value for {name}(A, B) . normal")
                else:
                    okv = float(da) > 1e-9 and float(db) < -1e-9
                    TO.add(True if okv else False, f"for the facing segments A = {[(str(env['A0_0']), str(env['A0_1'])), (str(env['A1_0']), str(env['A1_1']))]}, "
                           f"B = {[(str(env['B0_0']), str(env['B0_1'])), (str(env['B1_0']), str(env['B1_1']))]} the common normal {name}(A, B) has n.nA = {float(da):+.4g}, "
                           f"n.nB = {float(db):+.4g}; it must point out of A (n.nA > 0) and into B (n.nB < 0): the sign of every gap is reversed")
                got2 = value(I, moved(A), moved(B))
                want2 = Arr([cr * got.data[0] - sr * got.data[1], sr * got.data[0] + cr * got.data[1]], (2,))
                v = judge(got2, want2, smp)
                TR.add(v, f"{name} of the two segments after a common rigid motion (rotation (3/5, 4/5), translation) is `{show(got2, 160)}`, not the rotated normal "
                          f"`{show(want2, 160)}`: the mortar integrals are not invariant under rigid motions" + ("" if v is False else _NOT_NF))
            except INTERP_ERRORS as ex:
                for t in (TU, TO, TR):
                    t.cannot(ex)
            finally:
                _touch(ctx, I)
        ctx.decide(rule, TU.verdict(), sc, None, construct=f"{name}:unit", detail="|n| = 1 (3 generic facing pairs)", bad_detail=TU.text())
        ctx.decide(rule, TO.verdict(), sc, None, construct=f"{name}:out-of-A-into-B", detail="n.nA > 0 > n.nB (3 generic facing pairs)", bad_detail=TO.text())
        ctx.decide(rule, TR.verdict(), sc, None, construct=f"{name}:rigid-motion", detail="f(RA + c, RB + c) = R f(A, B)", bad_detail=TR.text())


_INTERSECTION_CONFIGS = (  # A = ((0, 0), (2, 1/10)), outward side y < 0; end points of B
    ("partial overlap at the second end of A", ((3, F(-1, 2)), (1, F(-2, 5)))), ("B nested in A", ((F(3, 2), F(-1, 2)), (F(1, 2), F(-3, 10)))),
    ("A nested in B", ((3, F(-1, 2)), (-1, F(-2, 5)))), ("partial overlap at the first end of A", ((1, F(-1, 2)), (-1, F(-3, 10)))),
    ("penetrating, partial overlap", ((3, F(1, 5)), (1, F(1, 10)))), ("B running with A", ((F(1, 2), F(-1, 2)), (3, F(-2, 5)))))


def o4_intersection(ctx):
    """compute_intersection on symbolic segments A, B with an opaque unit common normal n: the two returned triples (xiA, xiB, g) are matching points,
    xa(xiA) - xb(xiB) + g n = 0, and they bound the overlap: xiA runs from max(0, lower projection of the ends of B) to min(1, upper projection),
    projections along n.  Overlap configurations are decided at rational samples; the values stay symbolic."""
    rule = "O4/T6-mortar-intersection"
    sc = ctx.need(f"{MC}:compute_intersection")
    mod = ctx.need_module(MC)
    if len(sc.params()) != 3:
        raise Incomplete("compute_intersection no longer has the signature (edgeA, edgeB, f_common_normal)")
    A, B = sym_array("A", (2, 2)), sym_array("B", (2, 2))
    nx, ny = atom("nx"), atom("ny")
    n = [nx, ny]
    TM, TE, TN = _Tally(), _Tally(), _Tally()
    cross = lambda u, v: u[0] * v[1] - u[1] * v[0]
    for (lab, bv) in _INTERSECTION_CONFIGS:
        env = {"A0_0": F(0), "A0_1": F(0), "A1_0": F(2), "A1_1": F(1, 10), "nx": F(5, 13), "ny": F(-12, 13)}
        for k in range(2):
            for d in range(2):
                env[f"B{k}_{d}"] = F(bv[k][d])
        smp = Sample(env)
        I = SymInterp(ctx.repo, smp)
        rec = []

        def fn(it, args, kw, rec=rec):
            rec.append((args, kw))
            return Arr([nx, ny], (2,))
        try:
            out = I.call(I.module_value(mod, "compute_intersection"), [A, B, PyFunc("f_common_normal", fn)], {})
            if isinstance(out, Record):
                out = tuple(out.values)
            if not isinstance(out, (tuple, list)) and isinstance(I.num(out), Arr) and I.num(out).shape == (3, 2):
                o = I.num(out)
                out = tuple(Arr(o.data[2 * r:2 * r + 2], (2,)) for r in range(3))
            if not (isinstance(out, (tuple, list)) and len(out) == 3):
                raise EvalError("compute_intersection does not return (xiA, xiB, g)")
            xiA, xiB, g = [I.num(x) for x in out]
            if not all(isinstance(x, Arr) and x.shape == (2,) for x in (xiA, xiB, g)):
                raise EvalError("compute_intersection does not return three pairs")
            if not rec:
                raise EvalError("the common-normal function is never called")
            TN.add(True if len(rec) == 1 else None, f"[{lab}] the common normal is computed {len(rec)} times")
            for k in range(2):
                res = [A.data[d] * (Dual(1) - xiA.data[k]) + A.data[2 + d] * xiA.data[k] - B.data[d] * (Dual(1) - xiB.data[k]) - B.data[2 + d] * xiB.data[k] + g.data[k] * n[d]
                       for d in range(2)]
                v = judge(Arr(res, (2,)), Arr([Dual(0), Dual(0)], (2,)), smp)
                TM.add(v, f"[{lab}] the {('first', 'second')[k]} returned triple (xiA, xiB, g) = (`{show(xiA.data[k].a, 90)}`, `{show(xiB.data[k].a, 90)}`, `{show(g.data[k].a, 90)}`) "
                          f"does not satisfy xa(xiA) - xb(xiB) + g n = 0 for the common normal n (residual {[float(number(r, smp) or 0) for r in res]} at the sample)" +
                          ("" if v is False else _NOT_NF))
            tA = [A.data[2] - A.data[0], A.data[3] - A.data[1]]
            p = [cross([B.data[2 * k] - A.data[0], B.data[2 * k + 1] - A.data[1]], n) / cross(tA, n) for k in range(2)]
            pv = [number(x, smp) for x in p]
            lo, hi = (p[0], p[1]) if pv[0] < pv[1] else (p[1], p[0])
            lo = Dual(0) if min(pv) < 0 else lo
            hi = Dual(1) if max(pv) > 1 else hi
            v = judge(xiA, Arr([lo, hi], (2,)), smp)
            TE.add(v, f"[{lab}] the overlap on A is returned as xiA = `{show(xiA, 200)}`; expected [max(0, lower), min(1, upper)] of the projections of the ends of B along n "
                      f"= `{show(Arr([lo, hi], (2,)), 200)}`" + ("" if v is False else _NOT_NF))
        except INTERP_ERRORS as ex:
            for t in (TM, TE):
                t.cannot(f"[{lab}] {ex}")
        finally:
            _touch(ctx, I)
    ctx.decide(rule, TM.verdict(), sc, None, construct="matching-points:xa-xb+g*n=0", detail=f"both returned triples solve xa - xb + g n = 0 ({len(_INTERSECTION_CONFIGS)} overlap configurations)",
               bad_detail=TM.text())
    ctx.decide(rule, TE.verdict(), sc, None, construct="overlap-extent-on-A", detail=f"xiA = clipped projections of the ends of B along n, ascending ({len(_INTERSECTION_CONFIGS)} configurations)",
               bad_detail=TE.text())


def o4_glue(ctx):
    """integrate_with_mortar hands (xiA, xiB, g) of compute_intersection(edgeA, edgeB, the caller's normal rule), the lengths of the two segments (A first),
    the caller's integrand and smoothing size to integrate_with_active_mortar, and returns that integral for an overlapping pair."""
    rule = "O4/T5-mortar-glue"
    sc = ctx.need(f"{MC}:integrate_with_mortar")
    ci = ctx.need(f"{MC}:compute_intersection")
    am = ctx.need(f"{MC}:integrate_with_active_mortar")
    mod = ctx.need_module(MC)
    ps = sc.params()
    if len(ps) != 5 or len(ci.params()) != 3 or len(am.params()) != 7:
        raise Incomplete("integrate_with_mortar / compute_intersection / integrate_with_active_mortar no longer have the reference signatures")
    A, B = sym_array("A", (2, 2)), sym_array("B", (2, 2))
    env = {"A0_0": F(0), "A0_1": F(0), "A1_0": F(2), "A1_1": F(1, 10), "B0_0": F(3), "B0_1": F(-1, 2), "B1_0": F(1, 2), "B1_1": F(-2, 5),
           "xiA0": F(2, 5), "xiA1": F(1), "xiB0": F(1), "xiB1": F(3, 8), "gap0": F(1, 2), "gap1": F(3, 5), "sm": F(1, 100)}
    smp = Sample(env, [lambda nme: F(1) if nme.startswith(("IAM", "FI[")) else None])
    I = SymInterp(ctx.repo, smp)
    rec = {"ci": [], "am": []}
    XA, XB, G = sym_array("xiA", (2,)), sym_array("xiB", (2,)), sym_array("gap", (2,))

    def bind(scope, args, kw):
        b = dict(zip(scope.params(), args))
        b.update(kw)
        return [b.get(p) for p in scope.params()]

    def f_ci(it, args, kw):
        rec["ci"].append(bind(ci, args, kw))
        return (XA, XB, G)

    def f_am(it, args, kw):
        rec["am"].append(bind(am, args, kw))
        return atom("IAM")
    I.special[ci.qualname] = f_ci
    I.special[am.qualname] = f_am
    fN = PyFunc("f_common_normal", lambda it, a, k: (_ for _ in ()).throw(EvalError("the common normal is evaluated outside compute_intersection")))
    fI = PyFunc("func_of_xiA_xiB_g", lambda it, a, k: atom("FI[" + " | ".join(key_of(it.num(x)) for x in a) + "]"))
    cons = ("intersection-of-(A,B)-with-the-caller's-normal", "active-integral<-intersection", "segment-lengths:A,B", "integrand-and-smoothing-passed-on", "returns-the-active-integral")
    try:
        out = I.call(I.module_value(mod, "integrate_with_mortar"), [A, B, fN, fI, atom("sm")], {})
        if len(rec["ci"]) != 1 or len(rec["am"]) != 1:
            raise EvalError(f"compute_intersection is called {len(rec['ci'])} times, integrate_with_active_mortar {len(rec['am'])} times")
        cA, cB, cN = rec["ci"][0]
        aXA, aXB, aG, aLA, aLB, aF, aS = rec["am"][0]
        if any(v is None for v in rec["ci"][0] + rec["am"][0]):
            raise EvalError("an argument of compute_intersection / integrate_with_active_mortar is left to its default")
        num = I.num
        length = lambda E: d_fun("sqrt", (E.data[0] - E.data[2]) * (E.data[0] - E.data[2]) + (E.data[1] - E.data[3]) * (E.data[1] - E.data[3]))
        v1 = (judge(num(cA), A, smp) and judge(num(cB), B, smp)) if cN is fN else False
        d1 = (f"compute_intersection is called with the segments `{show(num(cA), 80)}`, `{show(num(cB), 80)}`" + ("" if cN is fN else " and another normal rule than the caller's") +
              "; expected (edgeA, edgeB, the caller's common-normal rule)")
        parts = [judge(num(aXA), XA, smp), judge(num(aXB), XB, smp), judge(num(aG), G, smp)]
        v2 = False if False in parts else (None if None in parts else True)
        d2 = (f"integrate_with_active_mortar receives (xiA, xiB, g) = (`{show(num(aXA), 60)}`, `{show(num(aXB), 60)}`, `{show(num(aG), 60)}`); expected the three results of "
              f"compute_intersection in their order")
        parts = [judge(num(aLA), length(A), smp), judge(num(aLB), length(B), smp)]
        v3 = False if False in parts else (None if None in parts else True)
        d3 = f"the segment lengths handed to the active integral are `{show(num(aLA), 120)}`, `{show(num(aLB), 120)}`; expected |A|, |B| in this order"
        if aF is fI:
            v4 = True
        else:
            t = [atom("t0"), atom("t1"), atom("t2")]
            v4 = judge(num(I.call(aF, t, {})), num(I.call(fI, t, {})), smp)
        v4s = judge(num(aS), atom("sm"), smp)
        v4 = False if (v4 is False or v4s is False) else (None if (v4 is None or v4s is None) else True)
        d4 = f"the active integral receives the smoothing size `{show(num(aS), 60)}` and the integrand {aF!r}; expected the caller's"
        o = num(out) if not isinstance(out, (tuple, list)) else out
        v5 = judge(o, atom("IAM"), smp) if isinstance(o, (Dual, Arr)) else False
        d5 = f"for an overlapping pair integrate_with_mortar returns `{show(o, 120)}`, not the active mortar integral"
    except INTERP_ERRORS as ex:
        for c in cons:
            ctx.undecided(rule, sc, None, construct=c, detail=f"cannot interpret: {ex}")
        _touch(ctx, I)
        return
    _touch(ctx, I)
    for c, v, d in zip(cons, (v1, v2, v3, v4, v5), (d1, d2, d3, d4, d5)):
        ctx.decide(rule, v, sc, None, construct=c, detail="as specified", bad_detail=d + ("" if v is False else _NOT_NF))


# ====================================================================================================================== self-test variants

def variants(repo):
    from optilint.selftest import Variant, sub, sub_in_func, alpha_rename, reformat
    E = "optimism/contact/EdgeCpp.py"
    M = "optimism/contact/MortarContact.py"
    P = "optimism/contact/PenaltyContact.py"
    L = "optimism/contact/LevelsetConstraint.py"
    S_ = "optimism/Surface.py"
    C = "optimism/contact/Contact.py"
    return [
        Variant("flip one sibling's normal", S_, sub_in_func("compute_normal", "    normal = np.array([tangent[1], -tangent[0]])", "    normal = np.array([-tangent[1], tangent[0]])"), "O1/T6-normal-siblings"),
        Variant("mortar normal not normalised by itself", M, sub_in_func("compute_normal", "    return normal / jnp.linalg.norm(normal)", "    return normal / jnp.linalg.norm(edgeCoords[1])"), "O1/T6-normal-siblings"),
        Variant("mesh normal swapped components", "optimism/Mesh.py", sub_in_func("compute_edge_vectors", "    normal = np.array([tangent[1], -tangent[0]])", "    normal = np.array([tangent[0], -tangent[1]])"), "O1/T6-normal-siblings"),
        Variant("t>1 paired with first end point", E, sub("np.sqrt(norm_squared(edge[1]-p)) * sgn", "np.sqrt(norm_squared(edge[0]-p)) * sgn"), "O2/T5-closest-point"),
        Variant("clamp missing upper", E, sub_in_func("cpp", "    t = np.where(t > 1., 1.0, t)\n", ""), "O2/T5-closest-point"),
        Variant("line parameter sign", E, sub_in_func("cpp", "    t = -dot(v,a-p) / norm_squared(v)", "    t = dot(v,a-p) / norm_squared(v)"), "O2/T5-closest-point"),
        Variant("zero sign not mapped", E, sub("    sgn = np.where(sgn==0, 1.0, sgn)\n    dist = np.where(t < 0.", "    dist = np.where(t < 0."), "O2/T5-closest-point"),
        Variant("constraint at undeformed points", L, sub_in_func("compute_edge_levelset_constraints", "eval_at_iso_points(quadRule.xigauss, edgeCoords+edgeDisps)", "eval_at_iso_points(quadRule.xigauss, edgeCoords)"), "O3/T13-deformed-sample-points"),
        Variant("penalty at undeformed points", P, sub_in_func("compute_edge_penalty_contact_energy", "eval_at_iso_points(quadRule.xigauss, edgeCoords+edgeDisps)", "eval_at_iso_points(quadRule.xigauss, edgeCoords)"), "O3/T13-deformed-sample-points"),
        Variant("penalty of positive part", P, sub("    negativeLsetField = np.minimum(0.0, lsetField)", "    negativeLsetField = np.maximum(0.0, lsetField)"), "O3/T8-penalty-integrand"),
        Variant("penalty not squared", P, sub("np.square(negativeLsetField))", "negativeLsetField)"), "O3/T8-penalty-integrand"),
        Variant("mortar pair results unpacked in the wrong order", M, sub("        gapAreaLeft, gapAreaRight = jax.vmap(compute_quantities_for_segment_pair", "        gapAreaRight, gapAreaLeft = jax.vmap(compute_quantities_for_segment_pair"), "O4/T5-mortar-assembly-pairing"),
        Variant("mortar weights swapped", M, sub("lambda xiA, xiB, gap: f_integrand(gap) * (1.0-xiA), 1e-9)", "lambda xiA, xiB, gap: f_integrand(gap) * xiA, 1e-9)"), "O4/T5-mortar-assembly-pairing"),
        Variant("mortar scatter to the wrong node", M, sub("    nodalGapField = nodalGapField.at[nodesRight].add(gapsRight)", "    nodalGapField = nodalGapField.at[nodesLeft].add(gapsRight)"), "O4/T5-mortar-assembly-pairing"),
        Variant("closest edge by signed distance", C, sub("        i = np.argmin( np.abs(cppDists) )\n        return edgesM[i]", "        i = np.argmin(cppDists)\n        return edgesM[i]"), "O2/T6-closest-by-absolute-distance"),
        Variant("alpha-rename assembly", M, alpha_rename("assembly_mortar_integral"), None),
        Variant("mortar weight B from xiA", M, sub("    xiBsmooth = smooth_linear(xiB, relativeSmoothingSize)", "    xiBsmooth = smooth_linear(xiA, relativeSmoothingSize)"), "O4/T5-mortar-weights"),
        Variant("mortar weight A with abs dropped on B", M, sub("    dxiB = jnp.abs(xiBsmooth[1] - xiBsmooth[0])", "    dxiB = xiBsmooth[1] - xiBsmooth[0]"), "O4/T5-mortar-weights"),
        Variant("reformat EdgeCpp", E, reformat(), None),
        Variant("reformat PenaltyContact", P, reformat(), None),
    ] + _more_variants(Variant, sub, sub_in_func, E, M, P, L, S_, C)


_P_CPP_CLIP = """
def _line_parameter(edge, p):
    start, end = edge
    direction = end - start
    return dot(direction, p - start) / dot(direction, direction)


def cpp(edge, p):
    s = np.clip(_line_parameter(edge, p), 0.0, 1.0)
    return edge[0] + s*(edge[1] - edge[0]), s
"""

_P_CPP_DISTANCE_SELECT = """
def cpp_distance(edge, p):
    normal = Surface.compute_normal(edge)
    point, s = cpp_line(edge, p)
    signedNormalDistance = dot(normal, p - point)
    side = np.where(signedNormalDistance < 0, -1.0, 1.0)
    distanceToEnds = vmap(lambda end: np.linalg.norm(end - p))(edge)
    return np.select([s < 0., s > 1.], [side*distanceToEnds[0], side*distanceToEnds[1]], signedNormalDistance)
"""

_B_CPP_DISTANCE_SELECT = _P_CPP_DISTANCE_SELECT.replace("[side*distanceToEnds[0], side*distanceToEnds[1]]", "[side*distanceToEnds[1], side*distanceToEnds[0]]")

_P_CPP_DISTANCE_GUARDS = """
def _end_point_distance(end, p, side):
    return side * np.sqrt(norm_squared(p - end))


def cpp_distance(edge, p):
    first, second = edge[0], edge[1]
    n = Surface.compute_normal(edge)
    foot, s = cpp_line(edge=edge, p=p)
    d = dot(p - foot, n)
    side = np.sign(d)
    side = np.where(side == 0, 1.0, side)
    beyond = _end_point_distance(second, p, side)
    before = _end_point_distance(first, p, side)
    return np.where(s <= 1., np.where(s >= 0., d, before), beyond)
"""

_P_PENALTY_VECTORISED = """
def compute_edge_penalty_contact_energy(levelset, mesh, dispField, quadRule, edge, stiffness):
    nodes = mesh.conns[edge[0]][np.array([edge[1], (edge[1]+1)%3])]
    refCoords = mesh.coords[nodes]
    curCoords = refCoords + dispField[nodes]
    xi = quadRule.xigauss
    points = (1.0 - xi)[:,None]*curCoords[0] + xi[:,None]*curCoords[1]
    phi = levelset(points)
    penetration = np.where(phi < 0.0, -phi, 0.0)
    return stiffness*np.linalg.norm(refCoords[1] - refCoords[0])*np.dot(quadRule.wgauss, penetration**2)
"""

_B_PENALTY_CURRENT_LENGTH = _P_PENALTY_VECTORISED.replace("np.linalg.norm(refCoords[1] - refCoords[0])", "np.linalg.norm(curCoords[1] - curCoords[0])")
_B_PENALTY_WRAP = _P_PENALTY_VECTORISED.replace("(edge[1]+1)%3", "(edge[1]+2)%3")

_P_PENALTY_TOTAL_CLOSURE = """
def compute_total_penalty_contact_energy(levelset, dispField, mesh, quadRule, edges, stiffness):
    def energy_of(edge):
        return compute_edge_penalty_contact_energy(levelset, mesh, dispField, quadRule, edge, stiffness=stiffness)
    return vmap(energy_of)(edges).sum()
"""

_P_LEVELSET_DICT = """
def _edge_state(mesh, dispField, quadRule, edge):
    index = Surface.get_field_index(edge, mesh.conns)
    fields = {'reference': mesh.coords, 'displacement': dispField}
    onEdge = {name: Surface.eval_field(field, index) for name, field in fields.items()}
    current = sum(onEdge.values())
    return dict(onEdge, current=current, points=QuadratureRule.eval_at_iso_points(quadRule.xigauss, current))


def compute_edge_levelset_constraints(levelset, mesh, dispField, quadRule, edge):
    state = _edge_state(mesh, dispField, quadRule, edge)
    return levelset(state['points'])
"""

_P_MORTAR_ACTIVE = """
def _overlap_measure(xi, length, smoothing, signed):
    s = smooth_linear(xi, smoothing)
    d = s[1] - s[0]
    return length * (d if signed else jnp.abs(d))


def integrate_with_active_mortar(xiA, xiB, g, lengthA, lengthB, func_of_xiA_xiB_g, relativeSmoothingSize):
    rule = QuadratureRule.create_quadrature_rule_1D(2)
    measure = 0.5*(_overlap_measure(xiA, lengthA, relativeSmoothingSize, True) + _overlap_measure(xiB, lengthB, relativeSmoothingSize, False))
    fields = jnp.stack([xiA, xiB, g])
    atPoints = jnp.outer(1.0 - rule.xigauss, fields[:, 0]) + jnp.outer(rule.xigauss, fields[:, 1])
    values = jax.vmap(lambda row: func_of_xiA_xiB_g(row[0], row[1], row[2]))(atPoints)
    return measure * jnp.dot(rule.wgauss, values)
"""

_B_MORTAR_ACTIVE_ABS_A = _P_MORTAR_ACTIVE.replace("_overlap_measure(xiA, lengthA, relativeSmoothingSize, True)", "_overlap_measure(xiA, lengthA, relativeSmoothingSize, False)")
_B_MORTAR_ACTIVE_DEGREE = _P_MORTAR_ACTIVE.replace("create_quadrature_rule_1D(2)", "create_quadrature_rule_1D(1)")
_B_MORTAR_ACTIVE_G = _P_MORTAR_ACTIVE.replace("jnp.stack([xiA, xiB, g])", "jnp.stack([xiA, xiB, xiB])")

_P_ASSEMBLY_FLAT = """
def _pair_integrals(coords, disp, segA, segB, f_average_normal, f_integrand):
    xB = coords[segB] + disp[segB]
    xA = coords[segA] + disp[segA]
    shape = {0: lambda xi: 1.0 - xi, 1: lambda xi: xi}
    return jnp.array([integrate_with_mortar(xB, xA, f_average_normal,
                                            partial(lambda N, xiA, xiB, gap: N(xiA) * f_integrand(gap), shape[k]),
                                            relativeSmoothingSize=1e-9) for k in (0, 1)])


def assembly_mortar_integral(coords, disp, segmentConnsA, segmentConnsB, neighborList,
                             f_average_normal : Callable,
                             f_integrand : Callable):
    def for_segment(segB, neighbors):
        perPair = jax.vmap(lambda iA: _pair_integrals(coords, disp, segmentConnsA[iA], segB, f_average_normal, f_integrand))(neighbors)
        return perPair.sum(axis=0)

    nodal = jax.vmap(for_segment)(segmentConnsB, neighborList)
    return jnp.zeros(disp.shape[0]).at[segmentConnsB.ravel()].add(nodal.ravel())
"""

_B_ASSEMBLY_FLAT_SWAPPED = _P_ASSEMBLY_FLAT.replace("shape = {0: lambda xi: 1.0 - xi, 1: lambda xi: xi}", "shape = {1: lambda xi: 1.0 - xi, 0: lambda xi: xi}")
_B_ASSEMBLY_FLAT_UNDEFORMED = _P_ASSEMBLY_FLAT.replace("xB = coords[segB] + disp[segB]", "xB = coords[segB]")

_P_CLOSEST_SQUARED = """
def get_closest_distance(coordsM, point):
    signedDists = vmap(lambda edge: EdgeCpp.cpp_distance(edge, point))(coordsM)
    return signedDists[np.argmin(signedDists**2)]
"""

_P_TWO_CLOSEST = """
def get_closest_two_edges(coordsM, point):
    magnitudes = np.abs(vmap(partial(EdgeCpp.cpp_distance, p=point))(coordsM))
    nearest = np.argmin(magnitudes)
    masked = np.where(np.arange(magnitudes.shape[0]) == nearest, np.inf, magnitudes)
    return np.stack([coordsM[nearest], coordsM[np.argmin(masked)]])
"""


_P_CPP_DISTANCE_NORM = """
def cpp_distance(edge, p):
    normal = Surface.compute_normal(edge)
    onLine, _ = cpp_line(edge, p)
    side = np.where(dot(normal, p - onLine) < 0, -1.0, 1.0)
    closest, _ = cpp(edge, p)
    return side * np.linalg.norm(p - closest)
"""

_B_CPP_DISTANCE_NORM_SIGN0 = _P_CPP_DISTANCE_NORM.replace("np.where(dot(normal, p - onLine) < 0, -1.0, 1.0)", "np.sign(dot(normal, p - onLine))")

_P_PENALTY_LOOP = """
def compute_edge_penalty_contact_energy(levelset, mesh, dispField, quadRule, edge, stiffness):
    index = Surface.get_field_index(edge, mesh.conns)
    X = Surface.eval_field(mesh.coords, index)
    x = X + Surface.eval_field(dispField, index)
    phi = levelset(QuadratureRule.eval_at_iso_points(quadRule.xigauss, x))
    length = np.sqrt(np.sum((X[1] - X[0])**2))
    energy = 0.0
    for q in range(quadRule.wgauss.shape[0]):
        energy += quadRule.wgauss[q] * np.minimum(phi[q], 0.0)**2
    return stiffness * length * energy
"""

_P_LEVELSET_CLASS = """
class _DeformedEdge(NamedTuple):
    reference: object
    current: object

    @property
    def tangent(self):
        return self.current[1] - self.current[0]

    def points(self, xi):
        return self.current[0] + np.outer(xi, self.tangent)


def _deformed_edge(mesh, dispField, edge):
    index = Surface.get_field_index(edge, mesh.conns)
    reference = Surface.eval_field(mesh.coords, index)
    return _DeformedEdge(reference=reference, current=reference + Surface.eval_field(dispField, index))


def compute_edge_levelset_constraints(levelset, mesh, dispField, quadRule, edge):
    return levelset(_deformed_edge(mesh, dispField, edge).points(quadRule.xigauss))
"""

_P_MORTAR_FORI = """
def integrate_with_active_mortar(xiA, xiB, g, lengthA, lengthB, func_of_xiA_xiB_g, relativeSmoothingSize):
    rule = QuadratureRule.create_quadrature_rule_1D(degree=2)
    sA = smooth_linear(xiA, relativeSmoothingSize)
    sB = smooth_linear(l=relativeSmoothingSize, xi=xiB)
    scale = 0.5*(lengthA*(sA[1] - sA[0]) + lengthB*jnp.abs(sB[1] - sB[0]))

    def add_point(q, total):
        xi = rule.xigauss[q]
        value = func_of_xiA_xiB_g(eval_linear_field_on_edge(xiA, xi), eval_linear_field_on_edge(xiB, xi), eval_linear_field_on_edge(g, xi))
        return total + rule.wgauss[q]*value

    return scale*jax.lax.fori_loop(0, rule.wgauss.shape[0], add_point, 0.0)
"""

_P_ASSEMBLY_LOOP = """
def assembly_mortar_integral(coords, disp, segmentConnsA, segmentConnsB, neighborList,
                             f_average_normal : Callable,
                             f_integrand : Callable):
    current = coords + disp
    weights = (lambda xiA, xiB, gap: f_integrand(gap) * (1.0-xiA), lambda xiA, xiB, gap: f_integrand(gap) * xiA)

    def nodal_pair(segB, indexA):
        return jnp.array([integrate_with_mortar(current[segB], current[segmentConnsA[indexA]], f_average_normal, w, 1e-9) for w in weights])

    def nodal(segB, neighbors):
        return jnp.sum(jax.vmap(nodal_pair, (None, 0))(segB, neighbors), axis=0)

    contributions = jax.vmap(nodal)(segmentConnsB, neighborList)
    field = jnp.zeros(disp.shape[0])
    for local in range(2):
        field = field.at[segmentConnsB[:, local]].add(contributions[:, local])
    return field
"""

_B_ASSEMBLY_LOOP = _P_ASSEMBLY_LOOP.replace("field.at[segmentConnsB[:, local]]", "field.at[segmentConnsB[:, 1 - local]]")


_P_CPP_DISTANCE_COND = """
def cpp_distance(edge, p):
    norm = Surface.compute_normal(edge)
    cppPoint, t = cpp_line(edge, p)
    dist = dot(norm, p-cppPoint)
    sgn = np.where(dist < 0, -1.0, 1.0)
    outside = lambda end: (lambda: sgn*np.sqrt(norm_squared(end - p)))
    return lax.cond(t < 0., outside(edge[0]), lambda: lax.cond(t > 1., outside(edge[1]), lambda: dist))
"""

_P_LEVELSET_RENAMED_PARAMS = """
def evaluate_levelset_on_edge(obstacle, mesh, U, rule, edge):
    return obstacle(get_current_coordinates_at_quadrature_points(mesh, U, rule, edge))
"""


_P_CLOSEST_EDGES_FUSED = """
def compute_closest_edges_and_field_weights(mesh, disp, quadRule, interactionList, surfaceI):
    side_coords = partial(get_side_coordinates, mesh, disp)

    def on_integration_edge(candidates, edgeI):
        points = QuadratureRule.eval_at_iso_points(quadRule.xigauss, side_coords(edgeI))
        candidateCoords = vmap(side_coords)(candidates)

        def at_point(point):
            distances = vmap(EdgeCpp.cpp_distance, (0, None))(candidateCoords, point)
            best = np.argsort(np.abs(distances))[0]
            return candidates[best], EdgeCpp.cpp_line(candidateCoords[best], point)[1]

        return vmap(at_point)(points)

    return vmap(on_integration_edge)(interactionList, surfaceI)
"""

_B_CLOSEST_EDGES_FUSED = _P_CLOSEST_EDGES_FUSED.replace("np.argsort(np.abs(distances))[0]", "np.argsort(distances)[0]")


_P_MORTAR_SCAN = """
def integrate_with_active_mortar(xiA, xiB, g, lengthA, lengthB, func_of_xiA_xiB_g, relativeSmoothingSize):
    edgeQuad = QuadratureRule.create_quadrature_rule_1D(degree=2)

    def extent(xi):
        smoothed = smooth_linear(xi, relativeSmoothingSize)
        return smoothed[1] - smoothed[0]

    overlap = 0.5*(lengthA*extent(xiA) + lengthB*jnp.maximum(extent(xiB), -extent(xiB)))

    def add_point(total, point):
        xiQ, wQ = point
        value = func_of_xiA_xiB_g(xiA[0] + xiQ*(xiA[1] - xiA[0]), xiB[0] + xiQ*(xiB[1] - xiB[0]), g[0] + xiQ*(g[1] - g[0]))
        return total + wQ*value, None

    unit, _ = jax.lax.scan(add_point, jnp.zeros(()), (jnp.asarray(edgeQuad.xigauss), jnp.asarray(edgeQuad.wgauss)))
    return overlap*unit
"""

_B_MORTAR_SCAN = _P_MORTAR_SCAN.replace("g[0] + xiQ*(g[1] - g[0])", "g[1] + xiQ*(g[0] - g[1])")


_P_INTERSECTION_CRAMER = """
def compute_intersection(edgeA, edgeB, f_common_normal):
    direction = f_common_normal(edgeA, edgeB)

    def project(point, edge, along):
        # point - edge(xi) + g*along = 0 by Cramer's rule
        tangent = edge[1] - edge[0]
        rel = point - edge[0]
        det = tangent[0]*along[1] - tangent[1]*along[0]
        return (rel[0]*along[1] - rel[1]*along[0]) / det, (tangent[1]*rel[0] - tangent[0]*rel[1]) / det

    xiBofA, gOfA = jax.vmap(project, (0, None, None))(edgeA, edgeB, direction)
    xiAofB, gOfB = jax.vmap(project, (0, None, None))(edgeB, edgeA, -direction)
    xiAs = jnp.concatenate([jnp.array([0.0, 1.0]), xiAofB])
    xiBs = jnp.concatenate([xiBofA, jnp.array([0.0, 1.0])])
    gs = jnp.concatenate([gOfA, gOfB])
    inside = (xiAs >= 0.0) & (xiAs <= 1.0) & (xiBs >= 0.0) & (xiBs <= 1.0)
    pick = jnp.array([jnp.argmin(jnp.where(inside, xiAs, jnp.inf)), jnp.argmax(jnp.where(inside, xiAs, -jnp.inf))])
    return xiAs[pick], xiBs[pick], gs[pick]
"""

_B_INTERSECTION_CRAMER_GAP = _P_INTERSECTION_CRAMER.replace("(edgeB, edgeA, -direction)", "(edgeB, edgeA, direction)")
_B_INTERSECTION_CRAMER_ORDER = _P_INTERSECTION_CRAMER.replace("jnp.array([jnp.argmin(jnp.where(inside, xiAs, jnp.inf)), jnp.argmax(jnp.where(inside, xiAs, -jnp.inf))])",
                                                              "jnp.array([jnp.argmax(jnp.where(inside, xiAs, -jnp.inf)), jnp.argmin(jnp.where(inside, xiAs, jnp.inf))])")

_P_AVERAGE_NORMAL = """
def compute_average_normal(edgeA : jnp.array, edgeB : jnp.array) -> jnp.array:
    difference = compute_normal(edgeCoords=edgeA) - compute_normal(edgeCoords=edgeB)
    return difference / jnp.sqrt(difference @ difference)
"""

_P_NORMAL_FROM_B = """
def compute_normal_from_b(edgeA : jnp.array, edgeB : jnp.array) -> jnp.array:
    return -compute_normal(edgeB)

# field utilities
"""

_B_NORMAL_FROM_B = _P_NORMAL_FROM_B.replace("return -compute_normal(edgeB)", "return compute_normal(edgeB)")


# round 3: private helper CLASSES (a base class with a property and a class-level constant, a derived class whose __init__ calls the base's), the
# vmap `out_axes` argument, and an assembly that projects a pair of segments ONCE and integrates both nodal integrands over that projection
_P_MORTAR_OBJECTS = """
class _LinearOverlapField:
    gaussDegree = 2

    def __init__(self, ends):
        self.ends = ends

    @property
    def rule(self):
        return QuadratureRule.create_quadrature_rule_1D(degree=self.gaussDegree)

    def at_points(self):
        return jax.vmap(eval_linear_field_on_edge, (None,0))(self.ends, self.rule.xigauss)


class _OverlapMeasure(_LinearOverlapField):
    def __init__(self, ends, length, smoothing, oriented):
        _LinearOverlapField.__init__(self, ends)
        self.length = length
        self.smoothing = smoothing
        self.oriented = oriented

    def extent(self):
        smoothed = smooth_linear(self.ends, self.smoothing)
        d = smoothed[1] - smoothed[0]
        return d if self.oriented else jnp.abs(d)

    def weights(self):
        return self.length * self.extent() * self.rule.wgauss


def integrate_with_active_mortar(xiA, xiB, g, lengthA, lengthB, func_of_xiA_xiB_g, relativeSmoothingSize):
    sideA = _OverlapMeasure(xiA, lengthA, relativeSmoothingSize, oriented=True)
    sideB = _OverlapMeasure(ends=xiB, length=lengthB, smoothing=relativeSmoothingSize, oriented=False)
    gap = _LinearOverlapField(g)
    values = jax.vmap(func_of_xiA_xiB_g)(sideA.at_points(), sideB.at_points(), gap.at_points())
    return jnp.dot(0.5*(sideA.weights() + sideB.weights()), values)
"""

_B_MORTAR_OBJECTS_ORIENTED_B = _P_MORTAR_OBJECTS.replace("smoothing=relativeSmoothingSize, oriented=False)", "smoothing=relativeSmoothingSize, oriented=True)")
_B_MORTAR_OBJECTS_DEGREE = _P_MORTAR_OBJECTS.replace("    gaussDegree = 2", "    gaussDegree = 1")
_B_MORTAR_OBJECTS_BASE_INIT = _P_MORTAR_OBJECTS.replace("        _LinearOverlapField.__init__(self, ends)", "        _LinearOverlapField.__init__(self, 1.0 - ends)")

_P_MORTAR_OUT_AXES = """
def integrate_with_active_mortar(xiA, xiB, g, lengthA, lengthB, func_of_xiA_xiB_g, relativeSmoothingSize):
    edgeQuad = QuadratureRule.create_quadrature_rule_1D(degree=2)
    ends = jnp.stack((xiA, xiB, g), axis=1)
    atPoints = jax.vmap(eval_linear_field_on_edge, in_axes=(None,0), out_axes=-1)(ends, edgeQuad.xigauss)
    smoothEnds = jax.vmap(smooth_linear, (1,None), 1)(ends[:,:2], relativeSmoothingSize)
    dxiA, dxiB = smoothEnds[1] - smoothEnds[0]
    weights = 0.5*(lengthA*dxiA + lengthB*jnp.abs(dxiB)) * edgeQuad.wgauss
    return jnp.dot(weights, jax.vmap(func_of_xiA_xiB_g)(*atPoints))
"""

_B_MORTAR_OUT_AXES_SWAPPED = _P_MORTAR_OUT_AXES.replace("    dxiA, dxiB = smoothEnds[1] - smoothEnds[0]", "    dxiB, dxiA = smoothEnds[1] - smoothEnds[0]")
_B_MORTAR_OUT_AXES_ROWS = _P_MORTAR_OUT_AXES.replace("jnp.stack((xiA, xiB, g), axis=1)", "jnp.stack((xiB, xiA, g), axis=1)")

_P_ASSEMBLY_SHARED_PROJECTION = """
def _integrate_projected(projection, edgeA, edgeB, func_of_xiA_xiB_g, relativeSmoothingSize):
    xiA, xiB, g = projection
    lengths = [jnp.linalg.norm(e[0] - e[1]) for e in (edgeA, edgeB)]
    active = lambda : integrate_with_active_mortar(xiA, xiB, g, lengths[0], lengths[1], func_of_xiA_xiB_g, relativeSmoothingSize)
    return jax.lax.switch(1*jnp.any(xiA==jnp.nan), [active, lambda : 0.0])


def assembly_mortar_integral(coords, disp, segmentConnsA, segmentConnsB, neighborList, 
                             f_average_normal : Callable,
                             f_integrand : Callable):
    current = coords + disp

    def nodal_shares(segB, neighborSegsA):
        edgeB = current[segB]

        def pair_shares(indexA):
            edgeA = current[segmentConnsA[indexA]]
            projection = compute_intersection(edgeB, edgeA, f_average_normal)
            first = _integrate_projected(projection, edgeB, edgeA, lambda xiOnB, xiOnA, gap: f_integrand(gap) * (1.0-xiOnB), 1e-9)
            second = _integrate_projected(projection, edgeB, edgeA, lambda xiOnB, xiOnA, gap: f_integrand(gap) * xiOnB, 1e-9)
            return jnp.array([first, second])

        return jnp.sum(jax.vmap(pair_shares)(neighborSegsA), axis=0)

    shares = jax.vmap(nodal_shares)(segmentConnsB, neighborList)
    return jnp.zeros(disp.shape[0]).at[segmentConnsB.ravel()].add(shares.ravel())
"""

_B_ASSEMBLY_SHARED_PROJECTION_SHAPES = _P_ASSEMBLY_SHARED_PROJECTION.replace("f_integrand(gap) * xiOnB, 1e-9)", "f_integrand(gap) * xiOnA, 1e-9)")
_B_ASSEMBLY_SHARED_PROJECTION_ORDER = _P_ASSEMBLY_SHARED_PROJECTION.replace("return jnp.array([first, second])", "return jnp.array([second, first])")


def _replace_def(name, new_text):
    """edit: replace the whole top-level function `name` by `new_text` (which may define helpers as well)"""
    def f(src):
        try:
            tree = ast.parse(src)
        except SyntaxError:
            return None
        node = [st for st in tree.body if isinstance(st, ast.FunctionDef) and st.name == name]
        if len(node) != 1:
            return None
        lines = src.split("\n")
        return "\n".join(lines[:node[0].lineno - 1] + new_text.strip("\n").split("\n") + [""] + lines[node[0].end_lineno:])
    return f


def _more_variants(Variant, sub, sub_in_func, E, M, P, L, S_, C):
    T5, T6, T13, T8, TA, TW = ("O2/T5-closest-point", "O2/T6-closest-by-absolute-distance", "O3/T13-deformed-sample-points", "O3/T8-penalty-integrand",
                               "O4/T5-mortar-assembly-pairing", "O4/T5-mortar-weights")
    TN, TI, TG = "O4/T6-common-normal-siblings", "O4/T6-mortar-intersection", "O4/T5-mortar-glue"
    return [
        # ---- preserving restructurings
        Variant("cpp: clip of an extracted line parameter", E, _replace_def("cpp", _P_CPP_CLIP), None),
        Variant("cpp_distance: select over end-point distances from a vmapped norm", E, _replace_def("cpp_distance", _P_CPP_DISTANCE_SELECT), None),
        Variant("cpp_distance: helper, keywords, nested where with non-strict tests", E, _replace_def("cpp_distance", _P_CPP_DISTANCE_GUARDS), None),
        Variant("penalty energy: vectorised interpolation, where instead of minimum", P, _replace_def("compute_edge_penalty_contact_energy", _P_PENALTY_VECTORISED), None),
        Variant("penalty total: closure and array method sum", P, _replace_def("compute_total_penalty_contact_energy", _P_PENALTY_TOTAL_CLOSURE), None),
        Variant("level-set constraints: dictionary of edge fields", L, _replace_def("compute_edge_levelset_constraints", _P_LEVELSET_DICT), None),
        Variant("active mortar integral: measure helper, stacked fields, outer products", M, _replace_def("integrate_with_active_mortar", _P_MORTAR_ACTIVE), None),
        Variant("mortar assembly: flat scatter, shape functions from a dictionary, partial", M, _replace_def("assembly_mortar_integral", _P_ASSEMBLY_FLAT), None),
        Variant("closest distance: argmin of squares, lambda", C, _replace_def("get_closest_distance", _P_CLOSEST_SQUARED), None),
        Variant("two closest edges: two masked argmins", C, _replace_def("get_closest_two_edges", _P_TWO_CLOSEST), None),
        Variant("quadrature points by outer product", "optimism/QuadratureRule.py",
                sub("    fields = np.array([field[0,:] + (field[1,:]-field[0,:]) * xi for xi in xigauss])", "    fields = field[0] + np.outer(xigauss, field[1] - field[0])"), None),
        Variant("integrate_values: einsum and unpacked rule", S_, _replace_def("integrate_values", "def integrate_values(quadratureRule, coords, gaussField):\n"
                "    weights = quadratureRule.wgauss\n    d = coords[1] - coords[0]\n    return np.sqrt(d @ d) * np.einsum('q,q->', weights, gaussField)\n"), None),
        Variant("cpp_distance: side * norm of (p - clamped closest point)", E, _replace_def("cpp_distance", _P_CPP_DISTANCE_NORM), None),
        Variant("penalty energy: python loop over the quadrature points, length by sqrt of a sum", P, _replace_def("compute_edge_penalty_contact_energy", _P_PENALTY_LOOP), None),
        Variant("level-set constraints: NamedTuple class with a property and a method", L,
                lambda src: _replace_def("compute_edge_levelset_constraints", _P_LEVELSET_CLASS)(src.replace("from optimism import Mesh\n", "from typing import NamedTuple\nfrom optimism import Mesh\n", 1)), None),
        Variant("active mortar integral: fori_loop accumulation, keywords", M, _replace_def("integrate_with_active_mortar", _P_MORTAR_FORI), None),
        Variant("mortar assembly: current coordinates first, python loop over the local nodes", M, _replace_def("assembly_mortar_integral", _P_ASSEMBLY_LOOP), None),
        Variant("field index: both local nodes at once", S_, sub_in_func("get_field_index", "    return elemConns, np.array([n1,n2])", "    return elemConns, (n1 + np.arange(2)) % 3"), None),
        Variant("eval_field by take", S_, sub_in_func("eval_field", "    return field[fieldIndex[0]][fieldIndex[1]]", "    return np.take(np.take(field, fieldIndex[0], axis=0), fieldIndex[1], axis=0)"), None),
        Variant("normal by a rotation matrix", S_, _replace_def("compute_normal", "def compute_normal(edgeCoords):\n    t = edgeCoords[1] - edgeCoords[0]\n"
                "    n = np.array([[0., 1.], [-1., 0.]]) @ t\n    return n / np.sqrt(n @ n)\n"), None),
        Variant("cpp_distance: nested lax.cond with thunks", E, _replace_def("cpp_distance", _P_CPP_DISTANCE_COND), None),
        Variant("evaluate_levelset_on_edge: parameters renamed, delegating", P, _replace_def("evaluate_levelset_on_edge", _P_LEVELSET_RENAMED_PARAMS), None),
        Variant("closest edges and weights in one fused pass (partial, nested vmaps, argsort)", C, _replace_def("compute_closest_edges_and_field_weights", _P_CLOSEST_EDGES_FUSED), None),
        Variant("active mortar integral: scan over (point, weight) pairs, |x| as max(x, -x)", M, _replace_def("integrate_with_active_mortar", _P_MORTAR_SCAN), None),
        Variant("mortar assembly: first-node share as the plain integral minus the second-node share", M,
                sub("            gapAreaLeft = integrate_with_mortar(coordsSegB, coordsSegA, f_average_normal, lambda xiA, xiB, gap: f_integrand(gap) * (1.0-xiA), 1e-9)\n"
                    "            gapAreaRight = integrate_with_mortar(coordsSegB, coordsSegA, f_average_normal, lambda xiA, xiB, gap: f_integrand(gap) * xiA, 1e-9)\n"
                    "            return gapAreaLeft, gapAreaRight",
                    "            gapArea = integrate_with_mortar(coordsSegB, coordsSegA, f_average_normal, lambda xiA, xiB, gap: f_integrand(gap), 1e-9)\n"
                    "            gapAreaRight = integrate_with_mortar(coordsSegB, coordsSegA, f_average_normal, lambda xiA, xiB, gap: f_integrand(gap) * xiA, 1e-9)\n"
                    "            return gapArea - gapAreaRight, gapAreaRight"), None),
        Variant("common normal from A: keyword call", M, sub_in_func("compute_normal_from_a", "    return compute_normal(edgeA)", "    return compute_normal(edgeCoords=edgeA)"), None),
        Variant("average normal: difference normalised by sqrt of a dot product", M, _replace_def("compute_average_normal", _P_AVERAGE_NORMAL), None),
        Variant("a third common-normal rule: minus the normal of B", M, sub("# field utilities\n", _P_NORMAL_FROM_B.lstrip("\n")), None),
        Variant("unrelated helper that maps two segments to a plane vector", M, sub("# field utilities\n", "def _offset_of_first_points(edgeA, edgeB):\n    return edgeB[0] - edgeA[0]\n\n# field utilities\n"), None),
        Variant("intersection: Cramer's rule, masked argmin / argmax", M, _replace_def("compute_intersection", _P_INTERSECTION_CRAMER), None),
        Variant("mortar glue: lengths computed first, keywords", M,
                sub("    branches = [lambda : integrate_with_active_mortar(xiA, xiB, g, \n"
                    "                                                      jnp.linalg.norm(edgeA[0] - edgeA[1]), \n"
                    "                                                      jnp.linalg.norm(edgeB[0] - edgeB[1]),\n"
                    "                                                      func_of_xiA_xiB_g,\n"
                    "                                                      relativeSmoothingSize),",
                    "    lengths = [jnp.sqrt(jnp.sum((e[1] - e[0])**2)) for e in (edgeA, edgeB)]\n"
                    "    branches = [lambda : integrate_with_active_mortar(xiA, xiB, g, lengthB=lengths[1], lengthA=lengths[0],\n"
                    "                                                      func_of_xiA_xiB_g=func_of_xiA_xiB_g, relativeSmoothingSize=relativeSmoothingSize),"), None),
        Variant("active mortar integral: private helper classes (inheritance, property, class constant, keywords)", M,
                _replace_def("integrate_with_active_mortar", _P_MORTAR_OBJECTS), None),
        Variant("active mortar integral: one vmap over the stacked end values with out_axes", M, _replace_def("integrate_with_active_mortar", _P_MORTAR_OUT_AXES), None),
        Variant("mortar assembly: one projection per segment pair shared by both nodal integrands", M,
                _replace_def("assembly_mortar_integral", _P_ASSEMBLY_SHARED_PROJECTION), None),
        # ---- breaking edits
        Variant("helper classes: side B measured with its orientation", M, _replace_def("integrate_with_active_mortar", _B_MORTAR_OBJECTS_ORIENTED_B), TW),
        Variant("helper classes: class-level Gauss degree 1", M, _replace_def("integrate_with_active_mortar", _B_MORTAR_OBJECTS_DEGREE), TW),
        Variant("helper classes: base __init__ receives the mirrored end values", M, _replace_def("integrate_with_active_mortar", _B_MORTAR_OBJECTS_BASE_INIT), TW),
        Variant("out_axes form: the two smoothed extents unpacked in the wrong order", M, _replace_def("integrate_with_active_mortar", _B_MORTAR_OUT_AXES_SWAPPED), TW),
        Variant("out_axes form: xiA and xiB stacked in the wrong columns", M, _replace_def("integrate_with_active_mortar", _B_MORTAR_OUT_AXES_ROWS), TW),
        Variant("shared projection: second-node share weighted with the coordinate on A", M,
                _replace_def("assembly_mortar_integral", _B_ASSEMBLY_SHARED_PROJECTION_SHAPES), TA),
        Variant("shared projection: the two nodal shares returned in the wrong order", M,
                _replace_def("assembly_mortar_integral", _B_ASSEMBLY_SHARED_PROJECTION_ORDER), TA),
        Variant("common normal 'from A' returns the normal of B", M, sub_in_func("compute_normal_from_a", "    return compute_normal(edgeA)", "    return compute_normal(edgeB)"), TN),
        Variant("average normal as the normalised SUM of the two normals", M, sub_in_func("compute_average_normal", "    normal = nA - nB", "    normal = nA + nB"), TN),
        Variant("average normal not normalised", M, sub_in_func("compute_average_normal", "    return normal / jnp.linalg.norm(normal)", "    return normal"), TN),
        Variant("average normal with the roles of A and B exchanged", M, sub_in_func("compute_average_normal", "    normal = nA - nB", "    normal = nB - nA"), TN),
        Variant("a third common-normal rule returning the normal of B", M, sub("# field utilities\n", _B_NORMAL_FROM_B.lstrip("\n")), TN),
        Variant("intersection: B ends projected along +n (gap sign of the second pair of points)", M,
                sub("(0,None,None))(edgeB, edgeA,-normal)", "(0,None,None))(edgeB, edgeA, normal)"), TI),
        Variant("intersection: overlap returned from its upper to its lower end", M,
                sub("jnp.array([jnp.nanargmin(xiAgood), jnp.nanargmax(xiAgood)])", "jnp.array([jnp.nanargmax(xiAgood), jnp.nanargmin(xiAgood)])"), TI),
        Variant("intersection: matching point solved against the first end of A instead of xa", M, sub("        r = jnp.array(edgeB[0]-xa)", "        r = jnp.array(edgeB[0]-edgeA[0])"), TI),
        Variant("refactored intersection without the reversed direction", M, _replace_def("compute_intersection", _B_INTERSECTION_CRAMER_GAP), TI),
        Variant("refactored intersection with the ends exchanged", M, _replace_def("compute_intersection", _B_INTERSECTION_CRAMER_ORDER), TI),
        Variant("mortar glue: segment lengths exchanged", M,
                sub("jnp.linalg.norm(edgeA[0] - edgeA[1]), \n                                                      jnp.linalg.norm(edgeB[0] - edgeB[1]),",
                    "jnp.linalg.norm(edgeB[0] - edgeB[1]), \n                                                      jnp.linalg.norm(edgeA[0] - edgeA[1]),"), TG),
        Variant("mortar glue: intersection of (B, A)", M, sub("    xiA,xiB,g = compute_intersection(edgeA, edgeB, f_common_normal)", "    xiA,xiB,g = compute_intersection(edgeB, edgeA, f_common_normal)"), TG),
        Variant("mortar glue: caller's smoothing size ignored", M, sub("                                                      relativeSmoothingSize),", "                                                      1e-7),"), TG),
        Variant("scan-based mortar integral with the gap interpolated backwards", M, _replace_def("integrate_with_active_mortar", _B_MORTAR_SCAN), TW),
        Variant("first-node share not reduced by the second-node share", M,
                sub("            return gapAreaLeft, gapAreaRight", "            return gapAreaLeft + gapAreaRight, gapAreaRight"), TA),
        Variant("fused closest-edge pass ranking signed distances", C, _replace_def("compute_closest_edges_and_field_weights", _B_CLOSEST_EDGES_FUSED), T6),
        Variant("side * norm form without the zero-sign rule", E, _replace_def("cpp_distance", _B_CPP_DISTANCE_NORM_SIGN0), T5),
        Variant("looped assembly scattering to the opposite local node", M, _replace_def("assembly_mortar_integral", _B_ASSEMBLY_LOOP), TA),
        Variant("refactored cpp_distance with the end points swapped", E, _replace_def("cpp_distance", _B_CPP_DISTANCE_SELECT), T5),
        Variant("clamp starts slightly too late", E, sub_in_func("cpp", "    t = np.where(t > 1., 1.0, t)", "    t = np.where(t > 1.01, 1.0, t)"), T5),
        Variant("clamp starts too late", E, sub_in_func("cpp", "    t = np.where(t > 1., 1.0, t)", "    t = np.where(t > 1.5, 1.0, t)"), T5),
        Variant("end-point branch starts too early", E, sub_in_func("cpp_distance", "    dist = np.where(t < 0., np.sqrt", "    dist = np.where(t < 0.25, np.sqrt"), T5),
        Variant("refactored penalty with the current edge length", P, _replace_def("compute_edge_penalty_contact_energy", _B_PENALTY_CURRENT_LENGTH), T8),
        Variant("refactored penalty with the wrong second node", P, _replace_def("compute_edge_penalty_contact_energy", _B_PENALTY_WRAP), T13),
        Variant("refactored active mortar integral with |.| on side A", M, _replace_def("integrate_with_active_mortar", _B_MORTAR_ACTIVE_ABS_A), TW),
        Variant("refactored active mortar integral with a one-point rule", M, _replace_def("integrate_with_active_mortar", _B_MORTAR_ACTIVE_DEGREE), TW),
        Variant("refactored active mortar integral: gap interpolated from xiB", M, _replace_def("integrate_with_active_mortar", _B_MORTAR_ACTIVE_G), TW),
        Variant("refactored assembly with swapped shape functions", M, _replace_def("assembly_mortar_integral", _B_ASSEMBLY_FLAT_SWAPPED), TA),
        Variant("refactored assembly on the undeformed B segment", M, _replace_def("assembly_mortar_integral", _B_ASSEMBLY_FLAT_UNDEFORMED), TA),
        Variant("closest distance by signed distance", C, sub("    i = np.argmin( np.abs(cppDists) )\n    return cppDists[i]", "    i = np.argmin( cppDists )\n    return cppDists[i]"), T6),
        Variant("two closest edges by signed distance", C, sub("    sortedIndices = np.argsort( np.abs(cppDists) )", "    sortedIndices = np.argsort( cppDists )"), T6),
        Variant("second node of an edge off by one", S_, sub_in_func("get_field_index", "    n2 = (n1+1)%3", "    n2 = (n1+2)%3"), T13),
        Variant("totals evaluate the constraints without the displacement", P, sub_in_func("evaluate_contact_constraints", "(levelset, mesh, dispField, quadRule, edges)", "(levelset, mesh, 0.0*dispField, quadRule, edges)"), T13),
    ]
