"""C16 -- contact geometry (structure only).

  O1  edge normals agree across the four sibling implementations (Mesh.compute_edge_vectors,
      Surface.compute_edge_vectors, Surface.compute_normal, MortarContact.compute_normal): component-wise the
      un-normalised normal is (t_y, -t_x) of the tangent second - first point, normalised by its own length;
  O2  closest point: the line parameter is -v.(a-p)/v.v; cpp clamps it to [0,1]; in cpp_distance the end-point
      branches pair t < 0 with the first and t > 1 with the second end point, each using the end-point distance
      with the sign of the normal component; the zero sign is mapped to +1;
  O3  level-set constraints and the penalty energy evaluate the obstacle function at the *deformed* sample points
      (coordinates + displacements of the same edge, same quadrature points); the penalty integrand is the square of
      the negative part, integrated with the reference edge weights and a stiffness factor;
  O4  mortar weights: the overlap measure is built from smoothed end parameters of the same side; side A signed,
      side B through abs; the two-point Gauss rule (degree 2) on both sides; averaged.
Not decided: distances as numbers, rigid-motion invariance, overlap lengths up to smoothing (numerical).
"""
from __future__ import annotations

import ast

from optilint.cfg import cfg_of
from optilint.model import dotted
from optilint.core import Incomplete
from optilint.expr import Algebra, NotPolynomial
from optilint.tensoreval import Dual, Arr, EvalError, Raised, _A, rat_is_zero
from .common import src, same, calls_in, const_value, expand, sem_same, normal_form
from . import materials as mt

LEVEL = "other"
RULE_TEXT = "obligations = (normal implementation x component identity) + (closest-point branch x end-point pairing) + (contact kernel x deformed-point dependency / integrand form)"
EXPLANATION = ("Sibling comparison of the four normal implementations by symbolic evaluation on a generic edge, pairing and clamping rules for "
               "the closest-point routines, dependency analysis (coordinates + displacements) and integrand-shape rules for level-set "
               "constraints and penalty energy, role rules for the mortar weights. Distances and integrals as numbers are not decided.")

EC = "optimism.contact.EdgeCpp"
MC = "optimism.contact.MortarContact"
PC = "optimism.contact.PenaltyContact"
LC = "optimism.contact.LevelsetConstraint"


def run(ctx):
    for m in (EC, MC, PC, LC, "optimism.Surface", "optimism.Mesh"):
        ctx.need_module(m)
    ctx.guard(o1_normals, ctx)
    ctx.guard(o2_cpp, ctx)
    ctx.guard(o3_levelset, ctx)
    ctx.guard(o4_mortar, ctx)
    ctx.guard(o4_assembly, ctx)
    ctx.guard(o2_closest_by_abs, ctx)
    # the overlap measure relies on the smoothed end parameter being the specified C1 ramp (shared with C18)
    from . import C18
    ctx.guard(C18.smooth_linear, ctx)
    ctx.trust("outward normal of a counter-clockwise boundary edge with tangent t is (t_y, -t_x)")


def o1_normals(ctx):
    rule = "O1/T6-normal-siblings"
    sites = [("optimism.Surface", "compute_normal", None, 0), ("optimism.Surface", "compute_edge_vectors", None, 1),
             (MC, "compute_normal", None, 0), ("optimism.Mesh", "compute_edge_vectors", "mesh", 1)]
    a = Arr([Dual(_A.atom(n)) for n in ("ax", "ay", "bx", "by")], (2, 2))
    tx = _A.norm(_A.atom("bx") - _A.atom("ax"))
    ty = _A.norm(_A.atom("by") - _A.atom("ay"))
    n2 = _A.norm(tx * tx + ty * ty)
    for (mname, fname, extra, idx) in sites:
        mod = ctx.need_module(mname)
        sc = ctx.need(f"{mname}:{fname}")
        I = mt.make_interp(ctx.repo)
        args = [a]
        if extra == "mesh":
            from optilint.tensoreval import Record
            pe1 = Record("ParentElement", ["vertexNodes"], [[0, 1]])
            mesh = Record("Mesh", ["parentElement1d"], [pe1])
            args = [mesh, a]
            # edgeCoords[vertexNodes, :] with a python list index: emulate by overriding getitem through a tiny special
        try:
            if extra == "mesh":
                # interpret with `Xv = edgeCoords[mesh.parentElement1d.vertexNodes, :]` -> the two end points
                orig = I.getitem

                def gi(base, key, orig=orig):
                    if isinstance(base, Arr) and isinstance(key, tuple) and isinstance(key[0], list):
                        rows = [base.index((k,) + tuple(key[1:])) for k in key[0]]
                        return Arr.from_nested(rows)
                    return orig(base, key)
                I.getitem = gi
            out = I.call(I.module_value(mod, fname), args, {})
            nrm = out[idx] if isinstance(out, tuple) else out
            nx, ny = nrm.data[0].a, nrm.data[1].a
            # components proportional to (ty, -tx) with the positive factor 1/|t| : nx*|t| == ty, ny*|t| == -tx
            # (|t| appears as an algebraic atom); check nx^2 + ny^2 == 1 and nx*tx + ny*ty == 0 and orientation nx*ty - ny*tx > 0
            unit = _A.equal(_A.norm(nx * nx + ny * ny), _A.const(1))
            orth = rat_is_zero(_A.norm(nx * tx + ny * ty))
            cross = _A.norm(nx * ty - ny * tx)          # = |t| for the outward normal
            # cross^2 = |t|^2 and unit/orthogonal => cross = +-|t| identically; the (constant) sign is read off at one sample point
            sample = {"ax": 0.0, "ay": 0.0, "bx": 1.0, "by": 0.5}
            ori = _A.equal(_A.norm(cross * cross), n2) and _A.eval(cross, sample) > 0
        except (EvalError, Raised, KeyError, IndexError, TypeError, AttributeError) as ex:
            ctx.undecided(rule, sc, None, construct=f"{mname.split('.')[-1]}.{fname}", detail=str(ex))
            continue
        ctx.decide(rule, unit and orth and ori, sc, None, construct=f"{mname.split('.')[-1]}.{fname}",
                   detail="unit vector, orthogonal to the tangent, equal to (t_y, -t_x)/|t|",
                   bad_detail=f"{mname.split('.')[-1]}.{fname}: unit={unit}, orthogonal to tangent={orth}, orientation (t_y,-t_x)={ori}; the sibling "
                              f"implementations of the edge normal disagree")


def _positive_root(r):
    """r is +sqrt[...] (not -sqrt[...]): single-term numerator with positive coefficient over constant denominator."""
    n, d = r.n, r.d
    if len(n.t) != 1 or not d.is_const():
        return False
    (m, c), = n.t.items()
    return (c / d.const_value()) > 0


def o2_cpp(ctx):
    """Closest-point kernels of EdgeCpp, interpreted on a symbolic edge (a, b) and point p; comparisons and np.sign are decided at one
    rational sample point per region (before a / between / beyond b) x (left / on / right of the line), so every branch combination is
    explored and the symbolic result of each region is compared with the geometric specification:
        tt = (b-a).(p-a)/|b-a|^2;   line point = a + tt (b-a);   clamped parameter in [0, 1];
        signed distance = n.(p - line point) between the ends, sgn * |p - end point| outside, sgn = sign of n.(p - line point), sign(0) = +1."""
    rule = "O2/T5-closest-point"
    from fractions import Fraction as F
    from optilint.tensoreval import Interp, sum_d
    mod = ctx.need_module(EC)
    names = ("ax", "ay", "bx", "by", "px", "py")
    a = [Dual(_A.atom("ax")), Dual(_A.atom("ay"))]
    b = [Dual(_A.atom("bx")), Dual(_A.atom("by"))]
    p = [Dual(_A.atom("px")), Dual(_A.atom("py"))]
    v = [b[0] - a[0], b[1] - a[1]]
    vv = v[0] * v[0] + v[1] * v[1]
    tt = (v[0] * (p[0] - a[0]) + v[1] * (p[1] - a[1])) / vv
    line = [a[0] + tt * v[0], a[1] + tt * v[1]]
    edge = Arr([a[0], a[1], b[0], b[1]], (2, 2))
    pa = Arr(list(p), (2,))
    # regions: (label, t, d) with p = A + t (B - A) + d * (1, -2) for A = (0,0), B = (2,1)
    regions = [("before-a,right", -1, 1), ("before-a,left", -1, -1), ("before-a,on-line", -1, 0), ("between,right", F(1, 2), 1), ("between,left", F(1, 2), -1),
               ("beyond-b,right", 2, 1), ("beyond-b,left", 2, -1)]

    def sample(t, d):
        return dict(zip(names, (F(0), F(0), F(2), F(1), F(2) * t + d, F(1) * t - 2 * d)))

    def interp(env):
        I = Interp(ctx.repo)

        def pol(dr):
            try:
                val = _A.eval(dr, env)
            except (KeyError, ZeroDivisionError, ValueError):
                return None
            return val
        I.policy = pol
        return I

    def eq(x, y):
        return _A.equal(I_num(x).a, I_num(y).a)

    def I_num(x):
        return x if isinstance(x, Dual) else Dual(x)
    for fname in ("cpp_line", "cpp", "cpp_distance"):
        sc = ctx.need(f"{EC}:{fname}")
        for (lab, t, d) in regions:
            env = sample(F(t), F(d))
            I = interp(env)
            cons = f"{fname}[{lab}]"
            try:
                out = I.call(I.module_value(mod, fname), [edge, pa], {})
                if fname == "cpp_distance":
                    nrm = I.call(I.module_value(ctx.need_module("optimism.Surface"), "compute_normal"), [edge], {})
                    dline = nrm.data[0] * (p[0] - line[0]) + nrm.data[1] * (p[1] - line[1])
                    sg = 1 if d >= 0 else -1
                    if t < 0 or t > 1:
                        end = a if t < 0 else b
                        from optilint.tensoreval import d_fun
                        want = Dual(sg) * d_fun("sqrt", (p[0] - end[0]) * (p[0] - end[0]) + (p[1] - end[1]) * (p[1] - end[1]))
                    else:
                        want = dline
                    got = I.num(out)
                    ok = _A.equal(got.a, want.a)
                    shown = f"{got.a!r}"[:120]
                    spec = ("sign(n.(p - line point)) * |p - " + ("a" if t < 0 else "b") + "|") if (t < 0 or t > 1) else "n.(p - line point)"
                else:
                    pt, tpar = out[0], I.num(out[1])
                    if fname == "cpp_line" or 0 <= t <= 1:
                        wp, wt = line, tt
                    elif t < 0:
                        wp, wt = a, Dual(0)
                    else:
                        wp, wt = b, Dual(1)
                    ok = isinstance(pt, Arr) and pt.shape == (2,) and _A.equal(pt.data[0].a, wp[0].a) and _A.equal(pt.data[1].a, wp[1].a) and _A.equal(tpar.a, wt.a)
                    shown = f"point {pt!r}, parameter {tpar.a!r}"[:160]
                    spec = "a + tt (b - a), tt = (b-a).(p-a)/|b-a|^2" if (fname == "cpp_line" or 0 <= t <= 1) else ("end point " + ("a, parameter 0" if t < 0 else "b, parameter 1"))
            except (EvalError, Raised, KeyError, IndexError, TypeError, AttributeError, ZeroDivisionError) as ex:
                ctx.undecided(rule, sc, None, construct=cons, detail=f"cannot interpret: {ex}")
                continue
            ctx.decide(rule, ok, sc, None, construct=cons, detail=f"symbolic result equals {spec}",
                       bad_detail=f"{fname} for a point {lab.replace(',', ', ')} of the segment returns {shown}; expected {spec}")


def _depends(cfg, node, expr, names):
    e = expand(cfg, node, expr)
    found = {w.id for w in ast.walk(e) if isinstance(w, ast.Name)} | {dotted(w) for w in ast.walk(e) if isinstance(w, ast.Attribute)}
    return e, all(any(n == f or (f and f.startswith(n)) for f in found) for n in names)


def o3_levelset(ctx):
    rule = "O3/T13-deformed-sample-points"
    targets = [(PC, "evaluate_levelset_on_edge"), (PC, "compute_edge_penalty_contact_energy"), (PC, "get_current_coordinates_at_quadrature_points"),
               (LC, "compute_edge_levelset_constraints"), (LC, "compute_contact_point_coords_on_edge")]
    for (mname, fname) in targets:
        sc = ctx.need(f"{mname}:{fname}")
        cfg = cfg_of(sc)
        ps = sc.params()
        mesh = "mesh"
        disp = [p for p in ps if "disp" in p.lower()][0]
        edge = "edge"
        quad = [p for p in ps if "quad" in p.lower()][0]
        # the argument of the level set (or the returned coordinates)
        target = None
        tnode = None
        for n in cfg.nodes:
            if n.kind != "stmt" or n.ast is None:
                continue
            for c in ast.walk(n.ast):
                if isinstance(c, ast.Call) and isinstance(c.func, ast.Name) and c.func.id == "levelset":
                    target, tnode = c.args[0], n
        if target is None:
            r = cfg.returns()
            if r:
                target, tnode = r[0].ast.value, r[0]
        if target is None:
            ctx.undecided(rule, sc, None, construct=f"{fname}:sample-points", detail="no level-set call / returned coordinates found")
            continue
        e = normal_form(sc, tnode, target)
        want = (f"QuadratureRule.eval_at_iso_points({quad}.xigauss, Surface.eval_field({mesh}.coords, Surface.get_field_index({edge}, {mesh}.conns)) + "
                f"Surface.eval_field({disp}, Surface.get_field_index({edge}, {mesh}.conns)))")
        ok = sem_same(e, want, sc)
        ctx.decide(rule, ok, sc, tnode.ast, construct=f"{mname.split('.')[-1]}.{fname}:points=coords+disp",
                   detail="obstacle function evaluated at quadrature points of (edge coordinates + edge displacements)",
                   bad_detail=f"{fname}: sample points are `{src(e)[:160]}`; expected the quadrature points of coordinates + displacements of the same edge")
    # penalty integrand
    sc = ctx.need(f"{PC}:compute_edge_penalty_contact_energy")
    cfg = cfg_of(sc)
    r = cfg.returns()
    e = normal_form(sc, r[0], r[0].ast.value) if r else None
    ok = False
    if e is not None:
        lv_, me_, di_, qu_, ed_, st_ = sc.params()
        ec_ = f"Surface.eval_field({me_}.coords, Surface.get_field_index({ed_}, {me_}.conns))"
        pts_ = f"QuadratureRule.eval_at_iso_points({qu_}.xigauss, {ec_} + Surface.eval_field({di_}, Surface.get_field_index({ed_}, {me_}.conns)))"
        ok = sem_same(e, f"{st_} * Surface.integrate_values({qu_}, {ec_}, np.square(np.minimum(0.0, {lv_}({pts_}))))", sc) or \
            sem_same(e, f"{st_} * Surface.integrate_values({qu_}, {ec_}, np.square(np.minimum({lv_}({pts_}), 0.0)))", sc)
    ctx.decide("O3/T8-penalty-integrand", ok, sc, r[0].ast if r else None, construct="penalty=stiffness*int(min(0,phi)^2)",
               detail="square of the negative part, reference edge weights, times stiffness",
               bad_detail=f"penalty energy is `{src(e)[:140] if e is not None else '?'}`; expected stiffness * integral of square(minimum(0, levelset))")
    iv = ctx.need("optimism.Surface:integrate_values")
    from .common import Unifier
    ui = Unifier(iv)
    q_, c_, g_ = iv.params()
    tup_ = [s_ for s_ in iv.node.body if isinstance(s_, ast.Assign) and isinstance(s_.targets[0], ast.Tuple)]
    ok = len(tup_) == 1 and ui.match(tup_[0], ast.parse(f"_, wgauss = {q_}").body[0]) and \
        len(ui.assigns(f"np.linalg.norm({c_}[0, :] - {c_}[1, :])", target="jac")) == 1 and len(ui.assigns("jac * wgauss", target="dx")) == 1 and \
        len(iv.returns()) == 1 and ui.match(iv.returns()[0], f"dx.dot({g_})")
    ctx.decide("O3/T8-penalty-integrand", ok, iv, None, construct="integrate_values:nonneg-weights", detail="weights = edge length * Gauss weights",
               bad_detail="Surface.integrate_values does not integrate with (edge length * Gauss weights)")
    # vmapped totals pass the roles through
    for (mname, total, kernel) in ((PC, "compute_total_penalty_contact_energy", "compute_edge_penalty_contact_energy"),
                                   (PC, "evaluate_contact_constraints", "evaluate_levelset_on_edge"),
                                   (LC, "compute_levelset_constraints", "compute_edge_levelset_constraints")):
        sc = ctx.need(f"{mname}:{total}")
        ker = ctx.need(f"{mname}:{kernel}")
        ok = False
        shown = "?"
        for c in calls_in(sc):
            if isinstance(c.func, ast.Call) and (dotted(c.func.func) or "") == "vmap" and isinstance(c.func.args[0], ast.Name) and c.func.args[0].id == kernel:
                axes = c.func.args[1]
                names = [src(a) for a in c.args]
                kp = ker.params()
                role = lambda p: "disp" if "disp" in p.lower() else ("edge" if p in ("edge", "edges") else p)
                ok = [role(n) for n in names] == [role(p) for p in kp] and isinstance(axes, ast.Tuple) and \
                    [const_value(a) for a in axes.elts] == [0 if p == "edge" else None for p in kp]
                shown = f"vmap({kernel}, {src(axes)})({', '.join(names)})"
        ctx.decide(rule, ok, sc, None, construct=f"{total}:roles", detail=shown, bad_detail=f"{total} maps the kernel as `{shown}`; arguments or mapped axis do not match the kernel's parameters {ker.params()}")


def o2_closest_by_abs(ctx):
    """Closest edge / closest distance: the winner among candidate edges is the one of smallest ABSOLUTE signed distance
    (EdgeCpp.cpp_distance is signed: negative when penetrating).  Every argmin over such distances must rank |d|."""
    rule = "O2/T6-closest-by-absolute-distance"
    CT = "optimism.contact.Contact"
    mod = ctx.need_module(CT)
    n = 0
    for sc in ctx.repo.functions():
        if sc.module.name != CT:
            continue
        cfg = None
        for c in calls_in(sc):
            if (dotted(c.func) or "").split(".")[-1] != "argmin" or not c.args:
                continue
            cfg = cfg or cfg_of(sc)
            nd = [x for x in cfg.nodes if x.ast is not None and any(y is c for y in ast.walk(x.ast))]
            if not nd:
                continue
            arg = expand(cfg, nd[0], c.args[0])
            signed = [k for k in ast.walk(arg) if isinstance(k, (ast.Attribute, ast.Name)) and (dotted(k) or "").split(".")[-1] == "cpp_distance"]
            if not signed:
                continue
            n += 1
            # the signed-distance producer must sit under abs(...) inside the argmin argument
            def under_abs(root, target):
                for k in ast.walk(root):
                    if isinstance(k, ast.Call) and (dotted(k.func) or "").split(".")[-1] in ("abs", "absolute", "fabs") and any(t is target for t in ast.walk(k)):
                        return True
                return False
            ok = all(under_abs(arg, t) for t in signed)
            ctx.decide(rule, ok, sc, c, construct=f"{sc.qualname.split(':')[-1]}:argmin-of-absolute-distance", detail=f"argmin({src(arg)[:70]})",
                       bad_detail=f"`{src(c)}` ranks the SIGNED distances `{src(arg)[:90]}`: when the point penetrates, the most negative distance wins instead of the nearest edge")
    if n < 2:
        raise Incomplete(f"{n} closest-edge selections over signed distances found in Contact.py (2 expected)")


def o4_assembly(ctx):
    """Nodal mortar integrals: the (1 - xi)-weighted integral belongs to the first node of the B segment, the xi-weighted one to its
    second node.  Tags are propagated through tuple returns, vmap and tuple unpacking down to the scatter-add."""
    rule = "O4/T5-mortar-assembly-pairing"
    asm = ctx.need(f"{MC}:assembly_mortar_integral")

    def kids(sc):
        return [c for c in sc.children if c.kind == "function"]
    def vmapped(sc):
        """the nested function of `sc` that is mapped (jax.vmap(f, ...)(...)) by a statement of sc itself"""
        names = set()
        for st_ in sc.node.body:
            for c_ in ast.walk(st_) if not isinstance(st_, ast.FunctionDef) else []:
                if isinstance(c_, ast.Call) and (dotted(c_.func) or "").split(".")[-1] == "vmap" and c_.args and isinstance(c_.args[0], ast.Name):
                    names.add(c_.args[0].id)
        return [k for k in kids(sc) if k.name in names]
    outer = vmapped(asm)
    if len(outer) != 1 or len(vmapped(outer[0])) != 1:
        ctx.undecided(rule, asm, None, construct="structure", detail="nested per-segment / per-pair functions not found")
        return
    per_seg, per_pair = outer[0], vmapped(outer[0])[0]

    def weight_tag(call):
        from .common import defs_to_lambdas
        cand = list(call.args) + [k.value for k in call.keywords]
        lam = []
        for a in cand:
            for host in (per_pair, per_seg, asm):
                b = defs_to_lambdas(a, host)
                if isinstance(b, ast.Lambda):
                    lam.append(b)
                    break
        if not lam:
            return None
        lam = lam[-1]
        p0 = lam.args.args[0].arg
        has_1m = any(isinstance(k, ast.BinOp) and isinstance(k.op, ast.Sub) and const_value(k.left) == 1 and isinstance(k.right, ast.Name) and k.right.id == p0
                     for k in ast.walk(lam.body))
        uses = any(isinstance(k, ast.Name) and k.id == p0 for k in ast.walk(lam.body))
        return "L" if has_1m else ("R" if uses else None)

    def run_fn(sc, env_in, top=False):
        env = dict(env_in)
        seg = sc.params()[0]

        def tag(e):
            if isinstance(e, ast.Name):
                return env.get(e.id)
            if isinstance(e, ast.Subscript) and isinstance(e.value, ast.Name) and e.value.id == seg and const_value(e.slice) in (0, 1):
                return f"n{const_value(e.slice)}"
            if isinstance(e, ast.Tuple):
                return tuple(tag(x) for x in e.elts)
            if isinstance(e, ast.Call):
                last = (dotted(e.func) or "").split(".")[-1]
                if last == "integrate_with_mortar":
                    return weight_tag(e)
                if last in ("sum", "nansum") and e.args:
                    return tag(e.args[0])
                if isinstance(e.func, ast.Call) and (dotted(e.func.func) or "").split(".")[-1] == "vmap" and e.func.args and isinstance(e.func.args[0], ast.Name):
                    return env.get("@ret:" + e.func.args[0].id)
            return None
        for st in sc.node.body:
            if isinstance(st, ast.FunctionDef):
                inner = [c for c in sc.children if c.node is st]
                if inner:
                    env["@ret:" + st.name] = run_fn(inner[0], env)
            elif isinstance(st, ast.Assign) and len(st.targets) == 1:
                t, v = st.targets[0], tag(st.value)
                if isinstance(t, ast.Name):
                    env[t.id] = v
                elif isinstance(t, ast.Tuple) and isinstance(v, tuple) and len(v) == len(t.elts):
                    for a, b in zip(t.elts, v):
                        if isinstance(a, ast.Name):
                            env[a.id] = b
            elif isinstance(st, ast.Return):
                return env if top else tag(st.value)
        return env
    env = run_fn(asm, {}, top=True)
    if not isinstance(env, dict):
        ctx.undecided(rule, asm, None, construct="structure", detail="assembly function returned before the scatter")
        return
    # scatter-adds: X.at[A].add(B)
    adds = [c for c in ast.walk(asm.node) if isinstance(c, ast.Call) and isinstance(c.func, ast.Attribute) and c.func.attr == "add"
            and isinstance(c.func.value, ast.Subscript) and isinstance(c.func.value.value, ast.Attribute) and c.func.value.value.attr == "at"
            and not any(c in ast.walk(k.node) for k in kids(asm))]
    seen = set()
    for c in adds:
        a, b = c.func.value.slice, c.args[0]
        ta = env.get(a.id) if isinstance(a, ast.Name) else None
        tb = env.get(b.id) if isinstance(b, ast.Name) else None
        ok = (ta, tb) in (("n0", "L"), ("n1", "R"))
        seen.add((ta, tb))
        ctx.decide(rule, ok if None not in (ta, tb) else None, asm, c, construct=f"scatter:{ta}<-{tb}",
                   detail=f"`{src(c)[:60]}` adds the {'(1-xi)' if tb == 'L' else 'xi'}-weighted integrals to the {'first' if ta == 'n0' else 'second'} nodes",
                   bad_detail=f"`{src(c)[:80]}` adds the {'(1-xi)' if tb == 'L' else 'xi'}-weighted segment integrals to the {'first' if ta == 'n0' else 'second'} "
                              f"node of each segment: the shape function 1-xi belongs to node 0 and xi to node 1 (nodal areas and gaps are swapped on partially covered segments)")
    ok = {("n0", "L"), ("n1", "R")} <= seen
    ctx.decide(rule, ok, asm, None, construct="both-nodes-assembled", detail="both nodes of every segment receive their integral",
               bad_detail=f"scatter pairs found: {sorted(map(str, seen))}; both (node0, 1-xi) and (node1, xi) contributions are required")


def o4_mortar(ctx):
    rule = "O4/T5-mortar-weights"
    sc = ctx.need(f"{MC}:integrate_with_active_mortar")
    cfg = cfg_of(sc)
    r = cfg.returns()
    if not r:
        raise Incomplete("integrate_with_active_mortar has no return")
    ps = sc.params()
    xiA, xiB, g, lA, lB, fn, sm = ps
    e = expand(cfg, r[0], r[0].ast.value)
    rule_deg = None
    for c in ast.walk(sc.node):
        if isinstance(c, ast.Call) and (dotted(c.func) or "").endswith("create_quadrature_rule_1D"):
            for k in c.keywords:
                if k.arg == "degree":
                    rule_deg = const_value(k.value)
            if c.args:
                rule_deg = const_value(c.args[0])
    Q = "QuadratureRule.create_quadrature_rule_1D(degree=2)"
    # the fully expanded return must be dot(0.5*(wA + wB), vmap(f)(xiA_q, xiB_q, g_q)); names of temporaries play no role
    W = F_ = None
    if isinstance(e, ast.Call) and (dotted(e.func) or "").endswith("dot") and len(e.args) == 2:
        W, F_ = e.args
    wa = wb = None
    if isinstance(W, ast.BinOp) and isinstance(W.op, ast.Mult):
        for x_, y_ in ((W.left, W.right), (W.right, W.left)):
            if const_value(x_) == 0.5 and isinstance(y_, ast.BinOp) and isinstance(y_.op, ast.Add):
                wa, wb = y_.left, y_.right
    ctx.decide(rule, wa is not None, sc, r[0].ast, construct="average-of-both-sides", detail="dot(0.5*(wA + wB), f(xiA_q, xiB_q, g_q))",
               bad_detail=f"mortar integral is `{src(e)[:160]}`, not dot(0.5*(weights of side A + weights of side B), integrand values)")
    tA = f"{lA} * (smooth_linear({xiA}, {sm})[1] - smooth_linear({xiA}, {sm})[0]) * {Q}.wgauss"
    tB = f"{lB} * jnp.abs(smooth_linear({xiB}, {sm})[1] - smooth_linear({xiB}, {sm})[0]) * {Q}.wgauss"
    if wa is not None and not sem_same(wa, tA, sc) and sem_same(wb, tA, sc):
        wa, wb = wb, wa
    ctx.decide(rule, wa is not None and sem_same(wa, tA, sc), sc, None, construct="weight-A", detail="lengthA * (smooth(xiA)[1] - smooth(xiA)[0]) * w",
               bad_detail=f"side-A weights are `{src(wa)[:140] if wa is not None else '?'}`")
    ctx.decide(rule, wb is not None and sem_same(wb, tB, sc), sc, None, construct="weight-B", detail="lengthB * |smooth(xiB)[1] - smooth(xiB)[0]| * w",
               bad_detail=f"side-B weights are `{src(wb)[:140] if wb is not None else '?'}`")
    ctx.decide(rule, rule_deg == 2, sc, None, construct="gauss-rule-degree", detail="two-point Gauss rule (degree 2)", bad_detail=f"edge quadrature degree is {rule_deg}")
    # quadrature parameters interpolate the same fields linearly
    args_ = F_.args if isinstance(F_, ast.Call) and isinstance(F_.func, ast.Call) and (dotted(F_.func.func) or "").endswith("vmap") \
        and F_.func.args and same(F_.func.args[0], fn) and len(F_.args) == 3 else [None, None, None]
    for a_, fld, nm in zip(args_, (xiA, xiB, g), ("quadXiA", "quadXiB", "gs")):
        ok = a_ is not None and sem_same(a_, f"jax.vmap(eval_linear_field_on_edge, (None, 0))({fld}, {Q}.xigauss)", sc)
        ctx.decide(rule, ok, sc, None, construct=f"{nm}:linear-interpolation-of-{fld}", detail=f"argument interpolates {fld} at the Gauss points",
                   bad_detail=f"the integrand's argument for {fld} is `{src(a_)[:120] if a_ is not None else '?'}`, not the linear interpolation of {fld} at the Gauss points")
    el = ctx.need(f"{MC}:eval_linear_field_on_edge")
    rr = el.returns()
    A = Algebra()
    try:
        ok = len(rr) == 1 and A.equal(A.lower(rr[0]), A.lower(ast.parse("field[0]*(1.0-xi) + field[1]*xi", mode="eval").body))
    except NotPolynomial:
        ok = None
    ctx.decide(rule, ok, el, rr[0] if rr else None, construct="eval_linear_field_on_edge", detail="f0 (1-xi) + f1 xi",
               bad_detail=f"eval_linear_field_on_edge returns `{src(rr[0]) if rr else '?'}`")


def variants(repo):
    from optilint.selftest import Variant, sub, sub_in_func, alpha_rename, reformat
    E = "optimism/contact/EdgeCpp.py"
    M = "optimism/contact/MortarContact.py"
    P = "optimism/contact/PenaltyContact.py"
    L = "optimism/contact/LevelsetConstraint.py"
    S = "optimism/Surface.py"
    return [
        Variant("flip one sibling's normal", S, sub_in_func("compute_normal", "    normal = np.array([tangent[1], -tangent[0]])", "    normal = np.array([-tangent[1], tangent[0]])"), "O1/T6-normal-siblings"),
        Variant("mortar normal not normalised by itself", M, sub_in_func("compute_normal", "    return normal / jnp.linalg.norm(normal)", "    return normal / jnp.linalg.norm(edgeCoords[1])"), "O1/T6-normal-siblings"),
        Variant("mesh normal swapped components", "optimism/Mesh.py", sub_in_func("compute_edge_vectors", "    normal = np.array([tangent[1], -tangent[0]])", "    normal = np.array([tangent[0], -tangent[1]])"), "O1/T6-normal-siblings"),
        Variant("t>1 paired with first end point", E, sub("np.sqrt(norm_squared(edge[1]-p)) * sgn", "np.sqrt(norm_squared(edge[0]-p)) * sgn"), "O2/T5-closest-point"),
        Variant("clamp missing upper", E, sub_in_func("cpp", "    t = np.where(t > 1., 1.0, t)\n", ""), "O2/T5-closest-point"),
        Variant("line parameter sign", E, sub_in_func("cpp", "    t = -dot(v,a-p) / norm_squared(v)", "    t = dot(v,a-p) / norm_squared(v)"), "O2/T5-closest-point"),
        Variant("zero sign not mapped", E, sub("    sgn = np.where(sgn==0, 1.0, sgn)\n    dist = np.where(t < 0.", "    dist = np.where(t < 0."), "O2/T5-closest-point"),
        Variant("constraint at undeformed points", L, sub_in_func("compute_edge_levelset_constraints", "eval_at_iso_points(quadRule.xigauss, edgeCoords+edgeDisps)", "eval_at_iso_points(quadRule.xigauss, edgeCoords)"), "O3/T13-deformed-sample-points"),
        Variant("penalty at undeformed points", P, sub_in_func("compute_edge_penalty_contact_energy", "eval_at_iso_points(quadRule.xigauss, edgeCoords+edgeDisps)", "eval_at_iso_points(quadRule.xigauss, edgeCoords)"), "O3/T13-deformed-sample-points"),
        Variant("penalty of positive part", P, sub("    negativeLsetField = np.minimum(0.0, lsetField)", "    negativeLsetField = np.maximum(0.0, lsetField)"), "O3/T8-penalty-integrand"),
        Variant("penalty not squared", P, sub("np.square(negativeLsetField))", "negativeLsetField)"), "O3/T8-penalty-integrand"),
        Variant("mortar pair results unpacked in the wrong order", M, sub("        gapAreaLeft, gapAreaRight = jax.vmap(compute_quantities_for_segment_pair", "        gapAreaRight, gapAreaLeft = jax.vmap(compute_quantities_for_segment_pair"), "O4/T5-mortar-assembly-pairing"),
        Variant("mortar weights swapped", M, sub("lambda xiA, xiB, gap: f_integrand(gap) * (1.0-xiA), 1e-9)", "lambda xiA, xiB, gap: f_integrand(gap) * xiA, 1e-9)"), "O4/T5-mortar-assembly-pairing"),
        Variant("mortar scatter to the wrong node", M, sub("    nodalGapField = nodalGapField.at[nodesRight].add(gapsRight)", "    nodalGapField = nodalGapField.at[nodesLeft].add(gapsRight)"), "O4/T5-mortar-assembly-pairing"),
        Variant("closest edge by signed distance", "optimism/contact/Contact.py", sub("        i = np.argmin( np.abs(cppDists) )\n        return edgesM[i]", "        i = np.argmin(cppDists)\n        return edgesM[i]"), "O2/T6-closest-by-absolute-distance"),
        Variant("alpha-rename assembly", M, alpha_rename("assembly_mortar_integral"), None),
        Variant("mortar weight B from xiA", M, sub("    xiBsmooth = smooth_linear(xiB, relativeSmoothingSize)", "    xiBsmooth = smooth_linear(xiA, relativeSmoothingSize)"), "O4/T5-mortar-weights"),
        Variant("mortar weight A with abs dropped on B", M, sub("    dxiB = jnp.abs(xiBsmooth[1] - xiBsmooth[0])", "    dxiB = xiBsmooth[1] - xiBsmooth[0]"), "O4/T5-mortar-weights"),
        Variant("reformat EdgeCpp", E, reformat(), None),
        Variant("reformat PenaltyContact", P, reformat(), None),
    ]
