"""C20_text -- abstract text, its tokenisation, and an abstract reader of the legacy-VTK unstructured-grid grammar.

Text atoms (see rules/C20_interp.Str):
    ('lit', text, prov)                      literal characters
    ('tok', value, prov)                     one token of unknown characters without whitespace (a formatted number / name); `value` is the
                                             abstract value that was formatted (an Int keeps its polynomial: declared counts are read from it)
    ('join', sep_atoms, item_atoms, count)   item (sep item)^(count-1), the empty string for count == 0
A file is the concatenation of everything written to it (loops of writes are 'join's with an empty separator).

Tokenisation splits at whitespace exactly as a VTK reader does; pieces that touch without whitespace are one token.  A repetition whose
boundaries are not separated by whitespace cannot be tokenised piecewise: `Glued` (definite=True when the repetition provably happens).
"""
from __future__ import annotations

import re
import string

from optilint.expr import Poly
from .C20_interp import Int, Scalar, Arr, Str, Key, EnumVal, Undecidable, PC, ZERO, ONE, pconst, Opaque, NTInst


class Glued(Exception):
    def __init__(self, msg, definite, prov=None):
        super().__init__(msg)
        self.msg, self.definite, self.prov = msg, definite, prov


class Malformed(Exception):
    """the abstract file provably does not follow the grammar"""
    def __init__(self, msg, prov=None):
        super().__init__(msg)
        self.msg, self.prov = msg, prov


# ------------------------------------------------------------------------------------------------ building text

def text_of(v, prov=None, what="str()"):
    """atoms of str(v) / format(v)"""
    if isinstance(v, bool) or v is None:
        return (("lit", str(v), prov),)
    if isinstance(v, str):
        return (("lit", v, prov),) if v else ()
    if isinstance(v, Str):
        return v.atoms
    if isinstance(v, (Int, Scalar, Key, float)):
        return (("tok", v, prov),)
    if isinstance(v, EnumVal):
        return (("lit", f"{v.cls.name}.{v.name}", prov),)
    if isinstance(v, Arr) and len(v.shape) == 0:
        return (("tok", Scalar("num"), prov),)
    raise Undecidable(f"{what} of {v!r}: the text is not modelled")


def concat(a, b):
    return Str(tuple(a) + tuple(b))


_FMT = string.Formatter()


def format_str(fmt: str, args, kwargs, prov=None):
    out = []
    auto = 0
    for lit, field, spec, conv in _FMT.parse(fmt):
        if lit:
            out.append(("lit", lit, prov))
        if field is None:
            continue
        if spec and ("{" in spec):
            raise Undecidable("nested format specification")
        if field == "":
            idx = auto
            auto += 1
            if idx >= len(args):
                raise Undecidable("format(): not enough arguments")
            v = args[idx]
        elif field.isdigit():
            if int(field) >= len(args):
                raise Undecidable("format(): not enough arguments")
            v = args[int(field)]
        elif field.isidentifier():
            if field not in kwargs:
                raise Undecidable(f"format(): no argument {field}")
            v = kwargs[field]
        else:
            raise Undecidable(f"format field {{{field}}}")
        out.extend(format_value(v, spec, prov))
    return Str(out)


def format_value(v, spec, prov=None):
    """atoms of format(v, spec)"""
    if spec and isinstance(v, (Int, Scalar, float)):
        # a numeric format specification yields one token, possibly padded by blanks (which never join tokens)
        return (("tok", v, prov),)
    if spec and isinstance(v, (str, Str, Key)):
        if re.fullmatch(r"[<>^]?\d*s?", spec):
            return text_of(v, prov)
        raise Undecidable(f"format specification {spec!r} on text")
    return text_of(v, prov, "format()")


_PCT = re.compile(r"%(?:\((\w+)\))?[-+ #0]*\d*(?:\.\d+)?([diouxXeEfFgGrsc%])")


def percent_format(fmt: str, arg, prov=None):
    args = list(arg) if isinstance(arg, tuple) else [arg]
    out = []
    pos = 0
    k = 0
    for m in _PCT.finditer(fmt):
        if m.start() > pos:
            out.append(("lit", fmt[pos:m.start()], prov))
        pos = m.end()
        if m.group(2) == "%":
            out.append(("lit", "%", prov))
            continue
        if m.group(1):
            raise Undecidable("% formatting with a mapping")
        if k >= len(args):
            raise Undecidable("% formatting: not enough arguments")
        v = args[k]
        k += 1
        out.extend(text_of(v, prov) if m.group(2) in "sr" else (("tok", v, prov),))
    if pos < len(fmt):
        out.append(("lit", fmt[pos:], prov))
    if k != len(args):
        raise Undecidable("% formatting: argument count")
    return Str(out)


def repeat(atoms, count: Poly):
    c = pconst(count)
    if c is not None and c <= 8:
        return Str(tuple(atoms) * max(c, 0))
    return Str((("join", (), tuple(atoms), count),))


def join_concrete(sep_atoms, items):
    out = []
    for k, it in enumerate(items):
        if k:
            out.extend(sep_atoms)
        out.extend(it)
    return Str(out)


def join_counted(sep_atoms, item_atoms, count: Poly):
    return Str((("join", tuple(sep_atoms), tuple(item_atoms), count),))


def concrete(atoms):
    """python str if the text is fully literal, else None"""
    if all(a[0] == "lit" for a in atoms):
        return "".join(a[1] for a in atoms)
    return None


def freeze_atoms(atoms, norm):
    """hashable, provenance-free form (polynomials normalised by `norm`)"""
    out = []
    for a in atoms:
        if a[0] == "lit":
            if out and out[-1][0] == "lit":
                out[-1] = ("lit", out[-1][1] + a[1])
            else:
                out.append(("lit", a[1]))
        elif a[0] == "tok":
            v = a[1]
            out.append(("tok", ("int", norm(v.p)) if isinstance(v, Int) else ("key", v.kid) if isinstance(v, Key) else "val"))
        else:
            out.append(("join", freeze_atoms(a[1], norm), freeze_atoms(a[2], norm), norm(a[3])))
    return tuple(out)


def freeze_out(items, norm):
    out = []
    for it in items:
        if it[0] == "str":
            out.extend(freeze_atoms(it[1], norm))
        else:
            out.append(("join", (), freeze_out(it[1], norm), norm(it[2])))
    # merge adjacent literals produced by separate writes
    merged = []
    for a in out:
        if a[0] == "lit" and merged and merged[-1][0] == "lit":
            merged[-1] = ("lit", merged[-1][1] + a[1])
        else:
            merged.append(a)
    return tuple(merged)


def out_atoms(items):
    """file output items -> one atom sequence"""
    out = []
    for it in items:
        if it[0] == "str":
            out.extend(it[1])
        else:
            out.append(("join", (), tuple(out_atoms(it[1])), it[2]))
    return out


# ------------------------------------------------------------------------------------------------ tokenisation

_SPLIT = re.compile(r"\s+|\S+")


def _chars(atoms):
    """atoms -> elements ('ws', newlines) | ('word', text, prov) | ('tok', value, prov) | ('join', sep, item, count), adjacent pieces merged"""
    out = []

    def push(el):
        if out:
            last = out[-1]
            if el[0] == "ws" and last[0] == "ws":
                out[-1] = ("ws", last[1] + el[1])
                return
            if el[0] in ("word", "tok") and last[0] in ("word", "tok"):
                if el[0] == "word" and last[0] == "word":
                    out[-1] = ("word", last[1] + el[1], last[2])
                else:
                    out[-1] = ("tok", None, last[2])       # glued pieces: one token of unknown text
                return
        out.append(el)
    for a in atoms:
        if a[0] == "lit":
            for piece in _SPLIT.findall(a[1]):
                if piece.isspace():
                    push(("ws", piece.count("\n")))
                else:
                    push(("word", piece, a[2] if len(a) > 2 else None))
        elif a[0] == "tok":
            push(("tok", a[1], a[2] if len(a) > 2 else None))
        else:
            item = _chars(a[2])
            if not item:
                continue                                    # repetition of the empty string
            out.append(("join", _chars(a[1]), item, a[3]))
    return out


def _edges(I, seq):
    """(starts with non-whitespace, ends with non-whitespace, may be empty) of an element sequence"""
    if not seq:
        return (False, False, True)
    def first(el, left):
        if el[0] == "ws":
            return False
        if el[0] == "join":
            return _edges(I, el[2])[0 if left else 1]
        return True
    empty = all(el[0] == "join" and I.sign(el[3]) != "pos" for el in seq)
    return (first(seq[0], True), first(seq[-1], False), empty)


def _prov_of(seq):
    for el in seq:
        if el[0] in ("word", "tok") and el[2] is not None:
            return el[2]
        if el[0] == "join":
            p = _prov_of(el[2])
            if p:
                return p
    return None


def _check(I, seq):
    """raise Glued when a repetition touches its neighbours / its own next round without whitespace"""
    for k, el in enumerate(seq):
        if el[0] != "join":
            continue
        sep, item, n = el[1], el[2], el[3]
        _check(I, sep)
        _check(I, item)
        f_i, l_i, _e = _edges(I, item)
        f_s, l_s, _e2 = _edges(I, sep)
        many = I.sign(n - ONE) == "pos"
        once = I.sign(n) == "pos"
        if sep:
            bad = (l_i and f_s) or (l_s and f_i)
        else:
            bad = l_i and f_i
        if bad and pconst(n) not in (0, 1):
            raise Glued("consecutive rounds of a repeated piece of text are not separated by whitespace", many, _prov_of(item))
        if k > 0:
            prev = seq[k - 1]
            l_p = _edges(I, [prev])[1]
            if l_p and f_i:
                raise Glued("a repeated piece of text follows the previous token without whitespace", once, _prov_of(item))
        if k + 1 < len(seq):
            f_n = _edges(I, [seq[k + 1]])[0]
            if l_i and f_n:
                raise Glued("the token after a repeated piece of text follows it without whitespace", once, _prov_of([seq[k + 1]]) or _prov_of(item))
            if k > 0 and I.sign(n) != "pos" and _edges(I, [seq[k - 1]])[1] and f_n:
                raise Glued("tokens around a possibly empty repetition are not separated by whitespace", False, _prov_of(item))


def _tokens(seq):
    out = []
    for el in seq:
        if el[0] == "ws":
            if el[1]:
                out.append(("nl", el[1]))
        elif el[0] == "word":
            out.append(("w", el[1], el[2]))
        elif el[0] == "tok":
            out.append(("t", el[1], el[2]))
        else:
            out.append(("join", _tokens(el[1]), _tokens(el[2]), el[3]))
    return out


def tokenize(I, atoms):
    """token tree: ('w', text, prov) | ('t', value, prov) | ('nl', k) | ('join', sep_tokens, item_tokens, count)"""
    seq = _chars(atoms)
    _check(I, seq)
    return _tokens(seq)


def ntokens(I, toks) -> Poly:
    n = ZERO
    for t in toks:
        if t[0] in ("w", "t"):
            n = n + ONE
        elif t[0] == "join":
            ni, ns = ntokens(I, t[2]), ntokens(I, t[1])
            n = n + ni * t[3]
            if not ns.is_zero():
                if I.sign(t[3]) != "pos":
                    raise Undecidable("separator tokens of a possibly empty repetition")
                n = n + ns * (t[3] - ONE)
    return n


def nlines(I, toks, dirty=False):
    """(number of completed non-empty lines, does the last line hold tokens) after reading toks starting in state `dirty`"""
    n = ZERO
    for t in toks:
        if t[0] in ("w", "t"):
            dirty = True
        elif t[0] == "nl":
            if dirty:
                n = n + ONE
            dirty = False
        else:
            sep, item, cnt = t[1], t[2], t[3]
            s = I.sign(cnt)
            if s == "zero":
                continue
            c1, d1 = nlines(I, item, dirty)
            c2, d2 = nlines(I, list(sep) + list(item), d1)
            if d2 != d1:
                c3, d3 = nlines(I, list(sep) + list(item), d2)
                raise Undecidable("line structure of a repetition does not settle")
            if s == "pos":
                n = n + c1 + c2 * (cnt - ONE)
                dirty = d1
            elif I.same(c1, c2) is True and d1 == dirty:
                n = n + c1 * cnt
            else:
                raise Undecidable("line count of a possibly empty repetition")
    return n, dirty


SECTION_KEYS = ("POINTS", "CELLS", "CELL_TYPES", "POINT_DATA", "CELL_DATA")
ARRAY_KEYS = ("SCALARS", "VECTORS", "TENSORS", "NORMALS", "TEXTURE_COORDINATES", "FIELD", "COLOR_SCALARS", "LOOKUP_TABLE")
KEYWORDS = SECTION_KEYS + ARRAY_KEYS + ("DATASET", "VERTICES", "LINES", "POLYGONS", "TRIANGLE_STRIPS", "METADATA")
VTK_TYPES = ("bit", "unsigned_char", "char", "unsigned_short", "short", "unsigned_int", "int", "unsigned_long", "long", "float", "double",
             "vtkIdType", "vtktypeint64", "vtktypeuint64")
_NUM = re.compile(r"[-+]?(\d+\.?\d*|\.\d+)([eE][-+]?\d+)?|[-+]?(nan|inf)", re.I)


def has_keyword(toks, keys=KEYWORDS):
    for t in toks:
        if t[0] == "w" and t[1] in keys:
            return True
        if t[0] == "join" and (has_keyword(t[1], keys) or has_keyword(t[2], keys)):
            return True
    return False


def _data_ok(toks):
    """every literal word of a data block must be a number"""
    for t in toks:
        if t[0] == "w" and not _NUM.fullmatch(t[1]):
            raise Malformed(f"the word `{t[1]}` appears where numbers are expected", t[2])
        if t[0] == "join":
            _data_ok(t[1])
            _data_ok(t[2])


class Section:
    def __init__(self, key, prov):
        self.key, self.prov = key, prov
        self.args = []          # header argument tokens
        self.body = []
        self.arrays = []        # data sections


class ArrayRec:
    def __init__(self, kind, prov):
        self.kind, self.prov = kind, prov
        self.name = None        # token
        self.dtype = None       # token
        self.ncomp = None
        self.lookup = None
        self.data = []
        self.mult = ONE         # how many such arrays (symbolic)


def _skip_nl(seq, i):
    while i < len(seq) and seq[i][0] == "nl":
        i += 1
    return i


def parse_file(I, toks):
    """-> (header tokens, [Section])"""
    idx = [k for k, t in enumerate(toks) if t[0] == "w" and t[1] in SECTION_KEYS]
    for t in toks:
        if t[0] == "join" and has_keyword(t[2], SECTION_KEYS):
            raise Undecidable("a section header is written inside a repetition")
    header = toks[:idx[0]] if idx else toks
    sections = []
    for a, k in enumerate(idx):
        end = idx[a + 1] if a + 1 < len(idx) else len(toks)
        sec = Section(toks[k][1], toks[k][2])
        nargs = {"POINTS": 2, "CELLS": 2, "CELL_TYPES": 1, "POINT_DATA": 1, "CELL_DATA": 1}[sec.key]
        j = k + 1
        while len(sec.args) < nargs and j < end and toks[j][0] in ("w", "t"):
            sec.args.append(toks[j])
            j += 1
        if len(sec.args) < nargs:
            raise Malformed(f"{sec.key} is followed by {len(sec.args)} of its {nargs} arguments on the line", sec.prov)
        sec.body = toks[j:end]
        if sec.key in ("POINT_DATA", "CELL_DATA"):
            sec.arrays = parse_arrays(I, sec.body, ONE, sec.prov)
        else:
            if has_keyword(sec.body):
                raise Malformed(f"a keyword appears inside the {sec.key} numbers", sec.prov)
            _data_ok(sec.body)
        sections.append(sec)
    return header, sections


def parse_arrays(I, seq, mult, prov):
    out = []
    i = 0
    while True:
        i = _skip_nl(seq, i)
        if i >= len(seq):
            break
        t = seq[i]
        if t[0] == "join" and has_keyword(t[1] + t[2]):
            if ntokens(I, t[1]) != ZERO:
                raise Undecidable("a repetition of data arrays with a non-blank separator")
            sub = parse_arrays(I, t[2], mult * t[3], prov)
            out.extend(sub)
            i += 1
            continue
        if not (t[0] == "w" and t[1] in ARRAY_KEYS):
            what = t[1] if t[0] == "w" else "a value"
            raise Malformed(f"`{what}` follows the section header / a complete array where an attribute keyword is expected", t[2] if t[0] != "join" else prov)
        kind = t[1]
        if kind == "FIELD":
            raise Undecidable(f"attribute kind {kind} is not modelled")
        rec = ArrayRec(kind, t[2])
        rec.mult = mult
        i += 1
        if i + 1 >= len(seq) or seq[i][0] not in ("w", "t") or seq[i + 1][0] not in ("w", "t"):
            raise Malformed(f"{kind} is not followed by a name and a data type on its line", rec.prov)
        rec.name, rec.dtype = seq[i], seq[i + 1]
        i += 2
        if kind == "SCALARS":
            # the legacy reader takes the rest of the SCALARS line as the optional number of components
            if i < len(seq) and seq[i][0] in ("w", "t"):
                u = seq[i]
                if u[0] == "w" and u[1].isdigit():
                    rec.ncomp = int(u[1])
                elif u[0] == "t" and isinstance(u[1], Int) and pconst(I.norm(u[1].p)) is not None:
                    rec.ncomp = pconst(I.norm(u[1].p))
                elif u[0] == "w":
                    raise Malformed(f"`{u[1]}` follows the data type on the SCALARS line where the number of components is expected", u[2])
                else:
                    raise Undecidable("the number of components on a SCALARS line is a computed value")
                i += 1
                if i < len(seq) and seq[i][0] in ("w", "t"):
                    raise Malformed("more than four words on a SCALARS line", seq[i][2])
            i = _skip_nl(seq, i)
            if i < len(seq) and seq[i][0] == "w" and seq[i][1] == "LOOKUP_TABLE":
                if i + 1 >= len(seq) or seq[i + 1][0] not in ("w", "t"):
                    raise Malformed("LOOKUP_TABLE without a table name", seq[i][2])
                rec.lookup = seq[i + 1]
                i += 2
        j = i
        while j < len(seq):
            u = seq[j]
            if (u[0] == "w" and u[1] in KEYWORDS) or (u[0] == "join" and has_keyword(u[1] + u[2])):
                break
            j += 1
        rec.data = seq[i:j]
        _data_ok(rec.data)
        out.append(rec)
        i = j
    return out


def _has_nl(toks):
    for t in toks:
        if t[0] == "nl":
            return True
        if t[0] == "join" and (_has_nl(t[1]) or _has_nl(t[2])):
            return True
    return False


def _first_tok(toks):
    for t in toks:
        if t[0] in ("w", "t"):
            return t
        if t[0] == "join":
            return _first_tok(t[2])
    return None


def line_templates(I, toks, mult=ONE):
    """[(first token, number of tokens on the line (Poly), how many such lines (Poly))] in file order, or None when the line structure
    is not simple enough (a line that is partly inside and partly outside a repetition)"""
    out = []
    first, n = None, ZERO
    closed = False          # the last emitted line came from a '\n'.join: its terminating newline is the next 'nl'
    for t in toks:
        if t[0] in ("w", "t"):
            if closed:
                return None
            if first is None:
                first = t
            n = n + ONE
        elif t[0] == "nl":
            if first is not None:
                out.append((first, n, mult))
            first, n, closed = None, ZERO, False
        else:
            sep, item, cnt = t[1], t[2], t[3]
            if I.sign(cnt) == "zero":
                continue
            if not _has_nl(item) and not _has_nl(sep):
                if closed:
                    return None
                ni, ns = ntokens(I, item), ntokens(I, sep)
                if first is None:
                    if I.sign(cnt) != "pos":
                        return None
                    first = _first_tok(item)
                n = n + ni * cnt + ns * (cnt - ONE)
            elif not _has_nl(item) and ntokens(I, sep) == ZERO:
                if first is not None or closed:
                    return None
                ft = _first_tok(item)
                if ft is None:
                    continue
                sub = line_templates(I, list(item) + [("nl", 1)], mult * cnt)
                if sub is None:
                    return None
                out.extend(sub)
                closed = True
            else:
                if first is not None or closed or ntokens(I, sep) != ZERO:
                    return None
                seq = list(item)
                if not seq or seq[-1][0] != "nl":
                    return None
                sub = line_templates(I, seq, mult * cnt)
                if sub is None:
                    return None
                out.extend(sub)
    if first is not None:
        out.append((first, n, mult))
    return out
