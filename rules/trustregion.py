"""Rules shared by the two trust-region drivers (C01: EquationSolver.trust_region_minimize,
C05: TrustRegionSPG.bound_constrained_trust_region_minimize).

The driver is described by *roles*, found from public anchors:
  iterate     = second positional parameter of the driver (the start point)
  conv        = the module's `is_converged` function; its 2nd parameter is the tested point and its
                5th the optimality measure that is compared with the tolerance
  accept node = assignment of the iterate inside the main loop
"""
from __future__ import annotations

import ast
from dataclasses import dataclass

from optilint.model import FuncVal, norm_src, dotted
from optilint.cfg import cfg_of, CFG, Node
from optilint.core import Incomplete
from optilint.absdom import SignEnv, nan_eval, degree, is_nonneg, POS, NONNEG, ZERO, TOP
from .common import expand, single_def, def_value, cond_atoms, src, const_value, actual, calls_in, canon, same


@dataclass
class Driver:
    module: str
    func: str
    measure: str            # 'gradient' | 'projected-gradient'
    prop: str


def _calls_of(node_ast, pred):
    return [c for c in ast.walk(node_ast) if isinstance(c, ast.Call) and pred(c)]


def _is_conv_call(ctx, scope, call, conv_scope):
    for v in ctx.cg.expand(ctx.repo.resolve(call.func, scope)):
        if isinstance(v, FuncVal) and v.scope is conv_scope:
            return True
    return False


def _resolver(cfg, node):
    def r(name):
        d = single_def(cfg, node, name)
        if d is None:
            return None
        return def_value(d, name)
    return r


def _measure_ok(ctx, drv, scope, cfg, cnode, point_name, meas_expr):
    """Does `meas_expr` (as seen at cnode) normalise to the optimality measure of `point_name`?"""
    e = expand(cfg, cnode, meas_expr, stop=(point_name,))
    s = src(e)
    grad_forms = {f"objective.gradient({point_name})", f"gradient({point_name})"}
    # `gradient = objective.gradient` alias is expanded by `expand` only if single def; normalise both
    s2 = s.replace("objective.gradient", "gradient")
    g = f"gradient({point_name})"
    s2c = canon(ast.parse(s2, mode="eval").body)
    if drv.measure == "gradient":
        return (s2c == canon(g)), s
    # projected gradient: norm(project(P - gradient(P), bounds) - P)
    want = f"np.linalg.norm(project({point_name} - {g}, bounds) - {point_name})"
    return (s2c == canon(want)), s


# ------------------------------------------------------------------ D1: honest flag

def d1_flag(ctx, drv: Driver):
    rule = "D1/T1-guarded-success"
    sc = ctx.need(f"{drv.module}:{drv.func}")
    conv = ctx.need(f"{drv.module}:is_converged")
    cfg = cfg_of(sc)
    iterate = sc.params()[1]
    cps = conv.params()
    point_param, meas_param = cps[1], cps[4]
    rets = cfg.returns()
    if len(rets) < 3:
        raise Incomplete(f"{drv.func}: {len(rets)} return statements (4 on the reference tree)")
    n_success = 0
    for r in rets:
        v = r.ast.value
        if not (isinstance(v, ast.Tuple) and len(v.elts) == 2):
            ctx.undecided(rule, sc, r.ast, construct="return-shape", detail="return value is not a (point, flag) pair")
            continue
        X, flag = v.elts
        fval = None
        if isinstance(flag, ast.Constant) and isinstance(flag.value, bool):
            fval = flag.value
        if fval is False:
            ctx.proved(rule, sc, r.ast, construct=f"return {src(X)}, False", detail="failure exit reports False")
            continue
        if fval is None:
            ctx.undecided(rule, sc, r.ast, construct=f"return {src(X)}, {src(flag)}",
                          detail="success flag is not a literal; cannot decide whether it is guarded by the convergence test")
            continue
        n_success += 1
        # success exit: must be dominated by the True edge of the convergence test on the same point
        guards = []
        for (c, lab) in cfg.edge_facts(r):
            if lab is True and c.kind == "cond":
                for (atom, pol) in cond_atoms(c.ast, True):
                    if pol and isinstance(atom, ast.Call) and _is_conv_call(ctx, sc, atom, conv):
                        guards.append((c, atom))
        if not guards:
            ctx.refuted(rule, sc, r.ast, construct=f"return {src(X)}, True",
                        detail="this exit reports success but is not dominated by a successful convergence test")
            continue
        okany = False
        why = []
        for (c, call) in guards:
            P = actual(call, cps, point_param)
            Mx = actual(call, cps, meas_param)
            if not (isinstance(P, ast.Name) and isinstance(X, ast.Name)):
                why.append("non-name point")
                continue
            same = P.id == X.id and cfg.same_value(P.id, c, r)
            mok, shown = _measure_ok(ctx, drv, sc, cfg, c, P.id, Mx)
            if same and mok:
                okany = True
            else:
                if not same:
                    why.append(f"convergence tested on `{P.id}` but `{X.id}` is returned" if P.id != X.id
                               else f"`{P.id}` is redefined between the test and the return")
                if not mok:
                    why.append(f"tested quantity is `{shown}`, not the optimality measure of `{P.id}`")
        ctx.decide(rule, okany, sc, r.ast, construct=f"return {src(X)}, True",
                   detail="success exit guarded by the convergence test of the returned point's own measure",
                   bad_detail="; ".join(why))
    if n_success < 1:
        ctx.undecided(rule, sc, None, construct="success-exits", detail="no success exit found")
    # every convergence-test call in the driver is used as a guard whose True edge leads to a success return
    # (nothing to prove there); now the test itself:
    d1_conv(ctx, drv, conv)


def d1_conv(ctx, drv, conv):
    rule = "D1/T1-convergence-test"
    cfg = cfg_of(conv)
    cps = conv.params()
    meas_param = cps[4]
    settings_param = cps[-1]
    rets = cfg.returns()
    n_true = 0
    for r in rets:
        v = r.ast.value
        if isinstance(v, ast.Constant) and v.value is False:
            ctx.proved(rule, conv, r.ast, construct="return False")
            continue
        if not (isinstance(v, ast.Constant) and v.value is True):
            ctx.undecided(rule, conv, r.ast, construct=f"return {src(v)}", detail="non-literal result of the convergence test")
            continue
        n_true += 1
        facts = [(c, lab) for (c, lab) in cfg.edge_facts(r) if c.kind == "cond"]
        good = False
        shown = []
        for (c, lab) in facts:
            for (atom, pol) in cond_atoms(c.ast, lab):
                if not isinstance(atom, ast.Compare) or len(atom.ops) != 1:
                    continue
                e = expand(cfg, c, atom)
                l, op, rr = e.left, e.ops[0], e.comparators[0]
                opn = type(op).__name__
                if not pol:
                    opn = {"Lt": "GtE", "LtE": "Gt", "Gt": "LtE", "GtE": "Lt"}.get(opn, "?")
                names_l = {n.id for n in ast.walk(l) if isinstance(n, ast.Name)}
                names_r = {n.id for n in ast.walk(rr) if isinstance(n, ast.Name)}
                if meas_param in names_r and meas_param not in names_l:
                    l, rr = rr, l
                    names_l, names_r = names_r, names_l
                    opn = {"Lt": "Gt", "LtE": "GtE", "Gt": "Lt", "GtE": "LtE"}.get(opn, "?")
                if meas_param not in names_l:
                    continue
                shown.append(f"{src(l)} {opn} {src(rr)}")
                is_tol = lambda x: isinstance(x, ast.Attribute) and x.attr == "tol" and isinstance(x.value, ast.Name) and x.value.id == settings_param
                is_meas = lambda x: isinstance(x, ast.Name) and x.id == meas_param
                dl = degree(l, is_meas)
                dr = degree(rr, is_tol)
                dl_tol = degree(l, is_tol)
                upper = opn in ("Lt", "LtE")
                if upper and dl is not None and dr is not None and dl == dr and dl > 0 and dl_tol == 0:
                    good = True
                    shown[-1] += f" [upper bound, degree {dl} = {dr}]"
                else:
                    shown[-1] += f" [upper={upper}, degree(measure)={dl}, degree(tol)={dr}]"
        ctx.decide(rule, good, conv, r.ast, construct="return True",
                   detail="True only under " + "; ".join(shown),
                   bad_detail="`return True` is not guarded by an upper bound on the optimality measure that is homogeneous with "
                              "settings.tol: " + ("; ".join(shown) or "no comparison on the measure found"))
    if n_true != 1:
        ctx.undecided(rule, conv, None, construct="true-exits", detail=f"{n_true} `return True` exits")


# ------------------------------------------------------------------ roles inside the loop

def _roles(ctx, drv):
    sc = ctx.need(f"{drv.module}:{drv.func}")
    cfg = cfg_of(sc)
    iterate = sc.params()[1]
    loops = [n for n in cfg.nodes if n.kind == "for" and not n.loops]
    if len(loops) != 1:
        raise Incomplete(f"{drv.func}: {len(loops)} outer loops (1 expected)")
    loop = loops[0]
    accepts = [n for n in cfg.nodes if n.kind == "stmt" and isinstance(n.ast, ast.Assign) and loop in n.loops
               and any(isinstance(t, ast.Name) and t.id == iterate for t in n.ast.targets)]
    if not accepts:
        raise Incomplete(f"{drv.func}: the iterate `{iterate}` is never assigned inside the main loop")
    return sc, cfg, iterate, loop, accepts


def _accept_formula(cfg, acc):
    """Conjunction of branch conditions that hold at the accept node and were decided inside the
    loop iteration (conditions containing `rho`-like acceptance variables are found by expansion)."""
    atoms = []
    for (c, lab) in cfg.edge_facts(acc):
        if c.kind != "cond" or not c.loops:
            continue
        for (a, pol) in cond_atoms(c.ast, lab):
            atoms.append((c, a, pol))
    return atoms


def _find_ratio_var(cfg, acc, atoms):
    """The variable compared against the acceptance thresholds: a Name that appears in a comparison
    of the (transitively defined) acceptance condition and whose definitions are all quotients."""
    cands = {}
    for (c, a, pol) in atoms:
        work = [(c, a, 0)]
        seen = set()
        while work:
            node, e, depth = work.pop()
            for cmp_ in [x for x in ast.walk(e) if isinstance(x, ast.Compare)]:
                for nm in [n.id for n in ast.walk(cmp_) if isinstance(n, ast.Name)]:
                    ds = cfg.reaching(node, nm)
                    if ds and all(d.kind == "stmt" and isinstance(getattr(d.ast, "value", None), ast.BinOp)
                                  and isinstance(d.ast.value.op, ast.Div) for d in ds):
                        cands[nm] = cands.get(nm, 0) + 1
            if depth < 4:
                for nm in {n.id for n in ast.walk(e) if isinstance(n, ast.Name)}:
                    if nm in seen:
                        continue
                    seen.add(nm)
                    d = single_def(cfg, node, nm)
                    if d is not None:
                        v = def_value(d, nm)
                        if v is not None and isinstance(v, (ast.BoolOp, ast.Compare, ast.UnaryOp, ast.Name)):
                            work.append((d, v, depth + 1))
    return sorted(cands, key=lambda k: (-cands[k], k))[0] if cands else None


# ------------------------------------------------------------------ D2: descent

def d2_descent(ctx, drv: Driver):
    rule = "D2/T8-descent"
    sc, cfg, iterate, loop, accepts = _roles(ctx, drv)
    settings_param = sc.params()[-2] if sc.params()[-1] == "callback" else sc.params()[-1]
    for acc in accepts:
        atoms = _accept_formula(cfg, acc)
        if not atoms:
            ctx.refuted(rule, sc, acc.ast, construct="accept:unconditional",
                        detail=f"the iterate is replaced by `{src(acc.ast.value)}` without any acceptance test")
            continue
        rho = _find_ratio_var(cfg, acc, atoms)
        if rho is None:
            ctx.undecided(rule, sc, acc.ast, construct="accept:ratio", detail="no reduction-ratio variable found in the acceptance condition")
            continue
        # (1) acceptance implies rho >= c >= 0 in every disjunct
        implied = False
        shown = []
        for (c, a, pol) in atoms:
            if not pol:
                continue
            e = expand(cfg, c, a, stop=(rho,))
            disj = e.values if isinstance(e, ast.BoolOp) and isinstance(e.op, ast.Or) else [e]
            alld = True
            for d in disj:
                conj = d.values if isinstance(d, ast.BoolOp) and isinstance(d.op, ast.And) else [d]
                okd = False
                for k in conj:
                    if isinstance(k, ast.Compare) and len(k.ops) == 1 and isinstance(k.left, ast.Name) and k.left.id == rho \
                            and isinstance(k.ops[0], (ast.GtE, ast.Gt)):
                        b = k.comparators[0]
                        cv = const_value(b)
                        if cv is not None and cv >= 0:
                            okd = True
                        elif isinstance(b, ast.Attribute) and b.attr == "eta1":
                            okd = True
                            ctx.assume("settings.eta1 >= 0 (admissible acceptance threshold)")
                shown.append(f"{src(d)} -> {'rho>=c>=0' if okd else 'NO lower bound on the ratio'}")
                alld = alld and okd
            if alld:
                implied = True
                acond_node = c
        ctx.decide(rule, implied, sc, acc.ast, construct="accept=>ratio>=0",
                   detail="; ".join(shown),
                   bad_detail="a step can be accepted without the reduction ratio being >= a non-negative threshold: " + "; ".join(shown))
        if not implied:
            continue
        # the node where the ratio is consulted = definition node of the acceptance flag (or the cond itself)
        use = acond_node
        for (c, a, pol) in atoms:
            if isinstance(a, ast.Name):
                d = single_def(cfg, c, a.id)
                if d is not None:
                    use = d
        # (2) every definition of rho reaching `use`: quotient with non-negative denominator on its paths
        numerators = []
        for D in cfg.reaching(use, rho):
            q = D.ast.value
            N, Mx = q.left, q.right
            facts = []
            for (c, lab) in (cfg.def_clear_facts(D, use, rho) or []) + cfg.edge_facts(D):
                if c.kind != "cond":
                    continue
                for (a, pol) in cond_atoms(c.ast, lab):
                    # the variables of the fact must not change between the test and the definition / use
                    ok_same = all(cfg.same_value(n.id, c, D) or cfg.same_value(n.id, c, use)
                                  for n in ast.walk(a) if isinstance(n, ast.Name))
                    if ok_same:
                        facts.append((a, pol))
            env = SignEnv(facts, expander=_resolver(cfg, D))
            sM = env.sign(Mx)
            ok = is_nonneg(sM)
            witness = ""
            if not ok and sM == TOP:
                # look for a branch outcome on a definition-clear path D -> use under which the denominator is < 0
                killers = [n for n in cfg.nodes if n is not D and any(cc == rho and not w for (cc, w) in cfg.defs_of(n))]
                fwd = cfg.reachable_from(D, blocked=killers)
                for c2 in cfg.nodes:
                    if c2.kind != "cond" or id(c2) not in fwd:
                        continue
                    for lab2 in (True, False):
                        tgt = [m for (m, l2) in c2.succ if l2 == lab2]
                        if not tgt:
                            continue
                        r2 = cfg.reachable_from(tgt[0], blocked=killers)
                        if id(use) not in r2 and tgt[0] is not use:
                            continue
                        extra = [(a2, p2) for (a2, p2) in cond_atoms(c2.ast, lab2)
                                 if all(cfg.same_value(n.id, c2, D) for n in ast.walk(a2) if isinstance(n, ast.Name))]
                        env2 = SignEnv(facts + extra, expander=_resolver(cfg, D))
                        s2 = env2.sign(Mx)
                        if s2 in ("-",):
                            sM = s2
                            witness = f" on the path where `{src(c2.ast)}` is {lab2}"
            ctx.decide(rule, ok if ok else (None if sM == TOP else False), sc, D.ast, construct=f"ratio-denominator:{src(q)}",
                       detail=f"denominator `{src(Mx)}` has sign {sM} on its paths ({'; '.join(env.used[-3:])})",
                       bad_detail=f"denominator `{src(Mx)}` of the reduction ratio `{src(q)}` is not provably >= 0 on the paths where "
                                  f"this definition is used (sign {sM}{witness}); ratio >= 0 would not imply actual reduction >= 0")
            numerators.append((D, N))
        # (3) numerator = -(objective.value(x + step) - o)
        seen_num = set()
        for (D, N) in numerators:
            def _is_neg_call(x):
                return isinstance(x, ast.UnaryOp) and isinstance(x.op, ast.USub) and isinstance(x.operand, ast.Call) \
                    and isinstance(x.operand.func, ast.Name)
            e = N
            for _ in range(6):
                if _is_neg_call(e):
                    break
                e2 = expand(cfg, D, e, depth=1)
                if src(e2) == src(e):
                    break
                e = e2
            s = src(e)
            if s in seen_num:
                continue
            seen_num.add(s)
            okn = _is_neg_call(e)
            if not okn:
                ctx.decide(rule, None, sc, D.ast, construct=f"ratio-numerator:{s}",
                           bad_detail=f"numerator `{s}` is not of the form -(incremental objective)")
                continue
            fn = e.operand.func.id
            step = e.operand.args[0] if e.operand.args else None
            # node where the incremental objective is evaluated
            U = None
            for n in cfg.nodes:
                if n.kind == "stmt" and n.ast is not None and isinstance(n.ast, ast.Assign) and \
                        isinstance(n.ast.value, ast.Call) and isinstance(n.ast.value.func, ast.Name) and n.ast.value.func.id == fn \
                        and loop in n.loops:
                    U = n
            if U is None:
                ctx.undecided(rule, sc, D.ast, construct="incremental-objective-use", detail="evaluation site not found")
                continue
            # which lambda is the default-mode objective
            lam_ok = False
            lam_shown = []
            refname = None
            for Dl in cfg.reaching(U, fn):
                lv = Dl.ast.value if isinstance(Dl.ast, ast.Assign) else None
                facts = [(src(c.ast), lab) for (c, lab) in cfg.edge_facts(Dl) if c.kind == "cond" and loop in c.loops]
                incremental_mode = any("use_incremental_objective" in t and lab for (t, lab) in facts)
                if incremental_mode:
                    lam_shown.append("gradient-based mode: descent not claimed")
                    continue
                if isinstance(lv, ast.Lambda) and len(lv.args.args) == 1:
                    a = lv.args.args[0].arg
                    b = lv.body
                    if isinstance(b, ast.BinOp) and isinstance(b.op, ast.Sub) and isinstance(b.right, ast.Name) \
                            and same(b.left, f"objective.value({iterate} + {a})"):
                        lam_ok = True
                        refname = b.right.id
                        lam_shown.append(f"default mode: {src(lv)}")
                    else:
                        lam_shown.append(f"default mode: {src(lv)} != value({iterate}+step) - <reference value>")
                        lam_ok = False
                        break
            ctx.decide(rule, lam_ok, sc, U.ast, construct="actual-reduction-definition",
                       detail="; ".join(lam_shown),
                       bad_detail="in default mode the actual reduction is not objective.value(x+step) - o: " + "; ".join(lam_shown))
            # (4) the reference value is objective.value(iterate) for the current iterate at U
            if refname is None:
                continue
            odefs = cfg.reaching(U, refname)
            ok_o = bool(odefs) and all(isinstance(getattr(d.ast, "value", None), ast.Call) and
                                       src(d.ast.value) == f"objective.value({iterate})" for d in odefs)
            ctx.decide(rule, ok_o, sc, U.ast, construct="reference-objective-form",
                       detail=f"reference value is objective.value({iterate}) at each definition",
                       bad_detail=f"reference value `{refname}` is defined as {[src(d.ast) for d in odefs]}")
            o_nodes = [n for n in cfg.nodes if n.kind == "stmt" and isinstance(n.ast, ast.Assign)
                       and any(isinstance(t, ast.Name) and t.id == refname for t in n.ast.targets)]
            for Dx in cfg.reaching(U, iterate):
                if Dx is cfg.entry:
                    ok = not cfg.paths_between(cfg.entry, U, avoid=o_nodes)
                else:
                    ok = not cfg.paths_between(Dx, U, avoid=o_nodes)
                ctx.decide(rule, ok, sc, Dx.ast if Dx.ast is not None else sc.node,
                           construct=f"reference-objective-fresh:{'entry' if Dx is cfg.entry else 'accept'}",
                           detail="the reference objective value is recomputed after this definition of the iterate before the next reduction is measured",
                           bad_detail=f"after `{'start' if Dx is cfg.entry else src(Dx.ast)}` a path reaches the next reduction measurement "
                                      f"without `{refname} = objective.value({iterate})`: reductions would be measured against a stale value")
            # (5) the accepted point is x + the very step whose reduction was measured
            yv = acc.ast.value
            ok5 = False
            shown5 = src(yv)
            if isinstance(yv, ast.Name) and isinstance(step, ast.Name):
                yd = single_def(cfg, acc, yv.id)
                if yd is not None:
                    yval = def_value(yd, yv.id)
                    shown5 = src(yval)
                    ok5 = same(yval, f"{iterate} + {step.id}") and cfg.same_value(step.id, yd, U) and \
                        cfg.same_value(iterate, yd, U) and cfg.same_value(yv.id, U, acc)
            ctx.decide(rule, ok5, sc, acc.ast, construct="accepted-point-is-trial-point",
                       detail=f"accepted `{src(yv)}` = {shown5}, reduction measured for the same step",
                       bad_detail=f"accepted point `{src(yv)}` (= {shown5}) is not x + the step `{src(step)}` whose reduction was measured")


# ------------------------------------------------------------------ D3: reported / returned iterate

def d3_reported(ctx, drv: Driver):
    rule = "D3/T2-reported-iterate"
    sc, cfg, iterate, loop, accepts = _roles(ctx, drv)

    def is_cb_of(n, var):
        if n.kind != "stmt" or n.ast is None:
            return False
        for c in ast.walk(n.ast):
            if isinstance(c, ast.Call) and isinstance(c.func, ast.Name) and c.func.id == "callback" and c.args \
                    and isinstance(c.args[0], ast.Name) and c.args[0].id == var:
                return True
        return False

    def cb_conds(var):
        out = []
        for n in cfg.nodes:
            if n.kind == "cond" and isinstance(n.ast, ast.Name) and n.ast.id == "callback":
                t = [m for (m, lab) in n.succ if lab is True]
                if t and is_cb_of(t[0], var):
                    out.append(n)
        return out

    conds_iter = cb_conds(iterate)
    for acc in accepts:
        # every path from the accept to the loop header / exits passes a callback(x, ...) site
        targets = [loop, cfg.exit]
        ok = all(not cfg.paths_between(acc, t, avoid=conds_iter) for t in targets if t is not None)
        ctx.decide(rule, ok, sc, acc.ast, construct=f"report-after:{src(acc.ast)}",
                   detail="accepted iterate is handed to the callback before the next iteration or exit",
                   bad_detail="an accepted iterate can reach the next iteration or an exit without being reported to the callback")
    for r in cfg.returns():
        v = r.ast.value
        if not (isinstance(v, ast.Tuple) and len(v.elts) == 2 and isinstance(v.elts[0], ast.Name)):
            continue
        X = v.elts[0].id
        flag = v.elts[1]
        if X == iterate:
            ctx.proved(rule, sc, r.ast, construct=f"return {X}", detail="returns the iterate state variable (last accepted point)")
            continue
        # a different variable may only be returned on a success exit, after being reported
        is_true = isinstance(flag, ast.Constant) and flag.value is True
        conds = cb_conds(X)
        reported = any(cfg.dominates(c, r) and cfg.same_value(X, c, r) for c in conds)
        ctx.decide(rule, is_true and reported, sc, r.ast, construct=f"return {X}",
                   detail=f"`{X}` returned on a success exit after callback({X}, ...)",
                   bad_detail=f"`{X}` is returned but it is not the accepted iterate `{iterate}`"
                              + ("" if is_true else " and this is not a success exit")
                              + ("" if reported else f"; it was not reported through the callback"))


# ------------------------------------------------------------------ D4: NaN polarity

def d4_nan(ctx, drv: Driver):
    rule = "D4/T12-nan-polarity"
    sc, cfg, iterate, loop, accepts = _roles(ctx, drv)
    for acc in accepts:
        atoms = _accept_formula(cfg, acc)
        rho = _find_ratio_var(cfg, acc, atoms)
        if rho is None:
            ctx.undecided(rule, sc, acc.ast, construct="accept:ratio", detail="no ratio variable")
            continue
        # acceptance must be false when rho is NaN
        vals = []
        for (c, a, pol) in atoms:
            v = nan_eval(a, [rho], resolver=_resolver(cfg, c))
            if v is not None:
                vals.append(v if pol else (not v))
        rejected = any(v is False for v in vals)
        ctx.decide(rule, True if rejected else (False if vals and all(vals) else None), sc, acc.ast,
                   construct="nan-ratio-rejects-step",
                   detail=f"with every comparison on `{rho}` false the acceptance condition is false",
                   bad_detail=f"with a NaN reduction ratio (`{rho}`) the acceptance condition does not evaluate to false: a NaN step would be accepted")
        # the radius must shrink when rho is NaN: find `trSize *= settings.t1`
        shr = [n for n in cfg.nodes if n.kind == "stmt" and isinstance(n.ast, ast.AugAssign) and isinstance(n.ast.op, ast.Mult)
               and isinstance(n.ast.value, ast.Attribute) and n.ast.value.attr == "t1" and loop in n.loops]
        if not shr:
            ctx.refuted(rule, sc, None, construct="radius-shrink", detail="no `radius *= settings.t1` update inside the main loop")
            continue
        for n in shr:
            conds = [(c, lab) for (c, lab) in cfg.edge_facts(n) if c.kind == "cond" and loop in c.loops]
            inner = [(c, lab) for (c, lab) in conds if any(rho in {x.id for x in ast.walk(expand(cfg, c, a)) if isinstance(x, ast.Name)}
                                                           for (a, p) in cond_atoms(c.ast, lab))]
            if not inner:
                ctx.undecided(rule, sc, n.ast, construct="radius-shrink-guard", detail="shrink is not guarded by a ratio test")
                continue
            c, lab = inner[-1]
            v = nan_eval(c.ast, [rho], resolver=_resolver(cfg, c))
            taken = None if v is None else (v == lab)
            ctx.decide(rule, taken, sc, c.ast, construct="nan-ratio-shrinks-radius",
                       detail=f"`{src(c.ast)}` takes the shrink branch when `{rho}` is NaN",
                       bad_detail=f"with a NaN reduction ratio the guard `{src(c.ast)}` does not take the shrink branch: the radius "
                                  f"would not shrink and the solver can stall on NaN steps")


# ------------------------------------------------------------------ parameters before the solve (C01.D1 / C19.D2)

def params_before_solve(ctx, rule, qual, objparam=0, solve_pred=None, pparam="p", needs_warm=True):
    """In driver `qual`: `<objective>.p = p` dominates the nonlinear solve; the warm start (which
    needs the OLD parameters) is never preceded by that assignment."""
    sc = ctx.need(qual)
    cfg = cfg_of(sc)
    obj = sc.params()[objparam]
    if pparam not in sc.params():
        raise Incomplete(f"{qual} has no parameter `{pparam}`")
    assigns = [n for n in cfg.nodes if n.kind == "stmt" and isinstance(n.ast, ast.Assign)
               and isinstance(n.ast.targets[0], ast.Attribute) and n.ast.targets[0].attr == "p"
               and isinstance(n.ast.targets[0].value, ast.Name) and n.ast.targets[0].value.id == obj]
    good_assigns = [n for n in assigns if isinstance(n.ast.value, ast.Name) and n.ast.value.id == pparam
                    and [d for d in cfg.reaching(n, pparam)] == [cfg.entry]]
    for n in assigns:
        if n not in good_assigns:
            ctx.refuted(rule, sc, n.ast, construct=f"assign:{src(n.ast)}",
                        detail=f"`{obj}.p` is assigned `{src(n.ast.value)}`, not the parameters the caller asked to solve for")
    solves = [n for n in cfg.nodes if n.kind == "stmt" and n.ast is not None and solve_pred(n)]
    if not solves:
        raise Incomplete(f"{qual}: nonlinear solve call not found")
    for s in solves:
        ok = not cfg.paths_between(cfg.entry, s, avoid=good_assigns) and bool(good_assigns)
        ctx.decide(rule, ok, sc, s.ast, construct="params-assigned-before-solve",
                   detail=f"`{obj}.p = {pparam}` on every path to the solve",
                   bad_detail=f"a path reaches the nonlinear solve without `{obj}.p = {pparam}`: the solve (and its success flag) "
                              f"would refer to the previous load step's parameters")
        # nothing between the last assignment and the solve re-assigns p
        late = [a for a in assigns if a not in good_assigns and cfg.paths_between(a, s)]
        if late:
            ctx.refuted(rule, sc, late[0].ast, construct="params-overwritten-before-solve",
                        detail="parameters are overwritten with something else before the solve")
    warms = [n for n in cfg.nodes if n.kind == "stmt" and n.ast is not None and
             any(isinstance(c, ast.Call) and (dotted(c.func) or "").endswith("warm_start_increment") for c in ast.walk(n.ast))]
    if needs_warm and not warms:
        raise Incomplete(f"{qual}: warm start call not found")
    for w in warms:
        early = [a for a in assigns if cfg.paths_between(a, w)]
        ctx.decide(rule, not early, sc, w.ast, construct="warm-start-sees-old-params",
                   detail="no assignment of the new parameters precedes the warm start",
                   bad_detail=f"`{obj}.p` is assigned before the warm start, so the predictor sees p_new - p_new = 0")
        call = [c for c in ast.walk(w.ast) if isinstance(c, ast.Call) and (dotted(c.func) or "").endswith("warm_start_increment")][0]
        okp = len(call.args) >= 3 and isinstance(call.args[0], ast.Name) and call.args[0].id == obj \
            and isinstance(call.args[2], ast.Name) and call.args[2].id == pparam
        ctx.decide(rule, okp, sc, call, construct="warm-start-arguments",
                   detail=f"warm_start_increment({obj}, ., {pparam})",
                   bad_detail=f"warm start is called as `{src(call)[:80]}`")
        # a solve after the warm start on this path must still see the assignment
    return sc, cfg
