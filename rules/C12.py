"""C12 -- symmetric-tensor eigen-decomposition, functions and derivative rules (structure only).

  O1  closed-form helpers satisfy their defining polynomial identities for a generic symbolic matrix:
      det, trace, I2, detpIm1(A) = det(A+I)-1, inv(A)A = A inv(A) = I, deviator, sym/skw (rules/tensorid.py);
  O2  index spaces: symmetric_matrix_function is V diag(f(lam)) V^T with (lam, V) from the eigen solver
      (eigenvectors as columns); the eigen solver applies one sorting permutation to the eigenvalues and to
      the *column* axis of the eigenvectors, sorted ascending; eigen_sym33_unit scales the input by 1/max-norm,
      rescales the eigenvalues by the same max-norm and normalises each column by its own length;
      exact algebra of the closed-form solver (rules/C12_eigen.py);
  O3  derivative rules (rules/C12_jvp.py): every custom_jvp function has a registered rule whose primal output is computed by
      calling the decorated function (so higher derivatives attach); the scalar function the rule hands to the tangent helper is
      the one the primal applies to the eigenvalues; the helper decomposes the matrix primal and rotates its tangent; the
      degenerate fallback of the divided difference uses the derivative;
      the relative-difference formulas equal (f(a)-f(b))/(a-b): proved for the square root (algebraic atoms),
      screened for counterexamples at sample points for exp / log / power (refutation only).
  O4  Denman-Beavers product form: loop invariant on symbolic 1x1 data and the scaling switch.

Every obligation is decided on *values* obtained by interpreting the functions symbolically (rules/C12_sym.py), never on the text of a
statement, on names of locals / parameters / private helpers, or on the position of a parameter.  The interpreter follows helper functions
(code split into stages or moved to module level), keyword / positional / default / *args / **kwargs calls, lambdas, nested defs,
functools.partial, NamedTuple / dataclass / plain-class records, dictionaries (dispatch tables, carries), comprehensions, zip / enumerate /
map, static python loops, vmap, array-valued selections and element-wise conditions; conditions are symbolic and selections are registered
atoms resolved per situation.  Roles are found on values: the tangent helper is the function on the interpreter's stack between a rule
and the eigen decomposition whose arguments carry one callable of one scalar and one of two; the loop carry of the Denman-Beavers
iteration is any pytree whose two matrix leaves start as A; the approximant of cos(acos(x)/3) is the function the solver calls that has
its values.  REFUTED is issued only for a derived contradiction (an exact value, or a numeric witness of fully evaluated formulas);
code whose shape the interpretation does not read is UNDECIDED.

Not decided: accuracy over forty orders of magnitude, derivative accuracy near degeneracy, Denman-Beavers and
Pade convergence in LinAlg (numerical).
"""
from __future__ import annotations

import ast
import math
from fractions import Fraction

from optilint.model import FuncVal, ExtVal
from optilint.core import Incomplete
from optilint.expr import Rat, Poly, simplify
from optilint.tensoreval import (Dual, Arr, PyFunc, Closure, Unknown, EvalError, Raised, matmul, _A, rat_const, rat_is_zero)
from . import tensorid
from . import C12_eigen
from . import C12_jvp
from .C12_sym import SymInterp, generic_matrix, tree_flatten, is_callable_value, callable_scope, Partial, subst

LEVEL = "other"
RULE_TEXT = "obligations = (helper x polynomial identity) + (eigen-solver value x role) + (custom_jvp function x wiring clause) + relative-difference identities"
EXPLANATION = ("Polynomial identities of the closed-form 3x3 helpers on a generic symbolic matrix; the eigen solver, its unit-norm wrapper, "
               "symmetric_matrix_function, the custom_jvp rules (as registered values), the tangent helper (found on the interpreter's call stack, "
               "argument roles read by value) and the Denman-Beavers loop body (any pytree carry) are interpreted symbolically "
               "(conditions symbolic, one run per situation) and the obligations are decided on the resulting exact values: index spaces and the "
               "sorting permutation, the algebra of the closed-form roots, custom_jvp protocol and primal/tangent scalar-function agreement, "
               "Daleckii-Krein assembly for distinct / double / triple eigenvalues; algebraic proof (sqrt) or sample-point refutation screen "
               "(exp/log/pow) of the divided-difference formulas each rule hands to the helper. Floating-point accuracy claims of the property are not decided.")

TM = "optimism.TensorMath"
NONUNIT = f"{TM}:eigen_sym33_non_unit"
UNIT = f"{TM}:eigen_sym33_unit"
HELPER = f"{TM}:_symmetric_matrix_function_jvp_helper"
SMF = f"{TM}:symmetric_matrix_function"
_ERR = (EvalError, Raised, KeyError, IndexError, TypeError, ZeroDivisionError, AttributeError, ValueError, RecursionError)


def _safe(fn):
    """a rule function whose interpreter errors make the rule undecided (never a crash, never a violation)"""
    def wrapped(ctx, *a):
        try:
            return fn(ctx, *a)
        except (EvalError, Raised, ZeroDivisionError, RecursionError, OverflowError) as ex:
            raise Incomplete(f"{fn.__name__}: {type(ex).__name__}: {ex}")
    wrapped.__name__ = fn.__name__
    return wrapped


def run(ctx):
    ctx.need_module(TM)
    ctx.need_module("optimism.Math")
    ctx.guard(_safe(helper_identities), ctx, "O1/T7-helper-identities")
    ctx.guard(o2, ctx)
    ctx.guard(_safe(C12_eigen.run), ctx, "O2/T7-eigen-solver-algebra", NONUNIT)
    ctx.guard(_safe(trig_table), ctx)
    ctx.guard(_safe(jvp_wiring), ctx, "O3/T5-custom-jvp-wiring")
    ctx.guard(_safe(relative_differences), ctx)
    ctx.guard(_safe(log_taylor), ctx)
    ctx.guard(_safe(denman_beavers), ctx)
    ctx.trust("jax.custom_jvp protocol: rule(primals, tangents) -> (primal_out, tangent_out)")
    ctx.assume("eigenvalues of arguments of log/sqrt/power are positive")


def _atoms(prefix, n):
    return [Dual(_A.atom(f"{prefix}{i}")) for i in range(n)]


def _same(x, y):
    """two interpreter values are the same exact value"""
    if isinstance(x, Dual) and isinstance(y, Dual):
        return _A.equal(x.a, y.a) and _A.equal(x.b, y.b)
    if isinstance(x, Arr) and isinstance(y, Arr):
        return x.shape == y.shape and all(_same(a, b) for a, b in zip(x.data, y.data))
    if isinstance(x, (tuple, list)) and isinstance(y, (tuple, list)):
        return len(x) == len(y) and all(_same(a, b) for a, b in zip(x, y))
    if isinstance(x, (int, float, Fraction)) and isinstance(y, (int, float, Fraction, Dual)) or isinstance(y, (int, float, Fraction)) and isinstance(x, Dual):
        try:
            return _same(Dual.of(x), Dual.of(y))
        except EvalError:
            return False
    return x is y


def _bind(scope, args, kw):
    """actual arguments of a recorded call by position in the callee's signature"""
    ps = scope.params()
    vals = list(args) + [None] * max(0, len(ps) - len(args))
    for k, v in kw.items():
        if k in ps:
            vals[ps.index(k)] = v
    return vals


# ------------------------------------------------------------------------------------------------ O1: closed-form helpers

def helper_identities(ctx, rule):
    """det, trace, I2, detpIm1, inv, deviator, sym/skw, norm_of_deviator_squared interpreted on a generic symbolic matrix (entries a00..a22):
    the defining polynomial identities must hold exactly.  (Same obligations as rules/tensorid.py, decided with the symbolic interpreter of
    this module so that helper functions, loops, einsum / cross / transpose spellings are followed.)"""
    mod = ctx.need_module(TM)
    I = SymInterp(ctx.repo)
    I.tolerant = False
    A = tensorid.generic()
    One = tensorid.ident()
    g = lambda i, j: A.data[i * 3 + j]

    def call(name, *args):
        return I.run(ctx.need(f"{TM}:{name}"), list(args))

    def attempt(name, fn):
        sc = ctx.need(f"{TM}:{name}")
        try:
            ok, detail, bad = fn()
        except _ERR as ex:
            ctx.undecided(rule, sc, None, construct=f"TensorMath.{name}", detail=f"cannot interpret on a generic matrix: {ex}")
            return
        ctx.decide(rule, ok, sc, None, construct=f"TensorMath.{name}", detail=detail, bad_detail=bad)

    def t_det():
        d = I.num(call("det", A))
        return _A.equal(d.a, tensorid.det3(A).a), "det(A) is the Leibniz expansion", f"TensorMath.det(A) = {d.a!r} is not the determinant of a generic 3x3 matrix"

    def t_trace():
        d = I.num(call("trace", A))
        return _A.equal(d.a, (g(0, 0) + g(1, 1) + g(2, 2)).a), "trace(A) = a00+a11+a22", f"TensorMath.trace(A) = {d.a!r}"

    def t_I2():
        d = I.num(call("I2", A))
        want = g(0, 0) * g(1, 1) - g(0, 1) * g(1, 0) + g(0, 0) * g(2, 2) - g(0, 2) * g(2, 0) + g(1, 1) * g(2, 2) - g(1, 2) * g(2, 1)
        return _A.equal(d.a, want.a), "I2(A) = sum of principal 2x2 minors", f"TensorMath.I2(A) = {d.a!r} is not the second invariant"

    def t_detpIm1():
        d = I.num(call("detpIm1", A))
        want = tensorid.det3(A.zip(One, lambda x, y: x + y)) - Dual(1)
        return _A.equal(d.a, want.a), "detpIm1(A) == det(A + I) - 1 for a generic matrix", f"detpIm1(A) differs from det(A+I)-1 by {_A.norm(d.a - want.a)!r}"

    def t_inv():
        B = call("inv", A)
        left, right = matmul(B, A), matmul(A, B)
        ok = tensorid.arr_equal(left, One) and tensorid.arr_equal(right, One)
        wrong = [(i, j) for i in range(3) for j in range(3) if not _A.equal(left.data[i * 3 + j].a, One.data[i * 3 + j].a)]
        return ok, "inv(A) @ A == A @ inv(A) == I for a generic matrix", \
            f"inv(A) @ A differs from the identity in entries {wrong} for a generic (non-symmetric) matrix: an entry of the adjugate is wrong"

    def t_dev():
        D = call("deviator", A)
        tr = D.data[0] + D.data[4] + D.data[8]
        off = all(_A.equal(D.data[i * 3 + j].a, A.data[i * 3 + j].a) for i in range(3) for j in range(3) if i != j)
        iso = _A.equal((A.data[0] - D.data[0]).a, (A.data[4] - D.data[4]).a) and _A.equal((A.data[0] - D.data[0]).a, (A.data[8] - D.data[8]).a)
        return rat_is_zero(tr.a) and off and iso, "deviator(A) is traceless and differs from A by a multiple of I", \
            f"deviator(A): trace {tr.a!r}, off-diagonals unchanged: {off}, isotropic difference: {iso}"

    def t_sym():
        Sy, Sk = call("sym", A), call("skw", A)
        ok = tensorid.arr_equal(Sy, Sy.T()) and tensorid.arr_equal(Sy.zip(Sk, lambda x, y: x + y), A) and tensorid.arr_equal(Sk.T(), Sk.map(lambda x: -x))
        return ok, "sym is symmetric, skw antisymmetric, sym + skw == A", "sym/skw do not split a generic matrix into symmetric and antisymmetric parts"

    def t_nds():
        v = I.num(call("norm_of_deviator_squared", A))
        D = call("deviator", A)
        want = Dual(0)
        for x in D.data:
            want = want + x * x
        return _A.equal(v.a, want.a), "norm_of_deviator_squared(A) == dev(A):dev(A)", f"norm_of_deviator_squared(A) = {v.a!r}"
    for name, fn in (("det", t_det), ("trace", t_trace), ("I2", t_I2), ("detpIm1", t_detpIm1), ("inv", t_inv), ("deviator", t_dev), ("sym", t_sym),
                     ("norm_of_deviator_squared", t_nds)):
        attempt(name, fn)


# ------------------------------------------------------------------------------------------------ O2: index spaces

def o2(ctx):
    rule = "O2/T9-eigen-roles"
    ctx.guard(_safe(spectral_form), ctx, rule)
    ctx.guard(_safe(C12_eigen.roles), ctx, rule, NONUNIT)
    ctx.guard(_safe(unit_wrapper), ctx, rule)


def spectral_form(ctx, rule):
    """symmetric_matrix_function(A, f) interpreted with the eigen solver replaced by generic (lam, V) and an opaque f:
    the result must be V diag(f(lam)) V^T entry by entry (V is generic, i.e. neither symmetric nor orthogonal)."""
    construct = "symmetric_matrix_function=V.diag(f(lam)).V^T"
    smf = ctx.need(SMF)
    un = ctx.need(UNIT)
    I = SymInterp(ctx.repo)
    A, _an = generic_matrix("a")
    V, _ = generic_matrix("v")
    lam = Arr(_atoms("l", 3), (3,))
    calls = []

    make = C12_eigen.pair_maker(ctx, UNIT)

    def eig(it, args, kw):
        calls.append(_bind(un, args, kw))
        return make(lam, V)
    I.special[un.qualname] = eig
    I.special[NONUNIT] = eig

    def fapply(it, args, kw):
        x = it.num(args[0])
        return x.map(lambda v: it.fn_atom("f", [v])) if isinstance(x, Arr) else it.fn_atom("f", [x])
    f = PyFunc("f", fapply)
    try:
        out = I.run(smf, [A, f])
    except _ERR as ex:
        ctx.undecided(rule, smf, None, construct=construct, detail=f"cannot interpret symmetric_matrix_function: {ex}")
        return
    fl = fapply(I, [lam], {})
    diag = Arr([fl.data[i] if i == j else Dual(0) for i in range(3) for j in range(3)], (3, 3))
    want = matmul(matmul(V, diag), V.T())
    other = matmul(matmul(V.T(), diag), V)
    if not calls or not isinstance(out, Arr) or out.shape != (3, 3) or any(not isinstance(x, Dual) for x in out.data):
        ctx.undecided(rule, smf, None, construct=construct, detail="the eigen decomposition (eigen_sym33_unit) of the argument is not what the function is built from")
        return
    arg = calls[0][0]
    symA = A.zip(A.T(), lambda x, y: (x + y) * Dual(Fraction(1, 2)))
    on_arg = _same(arg, A) or _same(arg, symA)          # for the symmetric arguments of the property both are the argument
    if not on_arg and not (isinstance(arg, Arr) and arg.shape == (3, 3) and all(isinstance(x, Dual) and x.a.atoms() <= set(_an) for x in arg.data)):
        ctx.undecided(rule, smf, None, construct=construct, detail="what the eigen solver is applied to could not be read")
        return
    ok = _same(out, want) and on_arg
    why = "it is V.T @ diag(f(lam)) @ V, which treats the ROWS of V as eigenvectors" if _same(out, other) else \
        ("the eigen solver is not applied to the argument" if not on_arg else "it is not V @ diag(f(lam)) @ V.T")
    ctx.decide(rule, ok, smf, None, construct=construct, detail="V @ diag(f(lam)) @ V.T for generic V, lam and opaque f",
               bad_detail=f"symmetric_matrix_function: with eigenvectors as columns the result must be V @ diag(f(lam)) @ V.T; {why}")


def unit_wrapper(ctx, rule):
    """eigen_sym33_unit interpreted with the non-unit solver replaced by generic (s, W).  Selections inside the wrapper are resolved in two
    situations given by numeric sample points: a generic non-zero tensor, and the zero tensor.  With kappa the factor between the solver
    argument and the input and N a norm of the input: kappa * N = 1 (generic), kappa a finite constant (zero tensor); returned values N * s;
    returned column k = W[:,k] / |W[:,k]|."""
    un = ctx.need(UNIT)
    nu = ctx.need(NONUNIT)
    # the property quantifies over symmetric tensors: a generic *symmetric* input (six atoms)
    tn = [f"t{i}{j}" for i in range(3) for j in range(i, 3)]
    T = Arr([Dual(_A.atom(f"t{min(i, j)}{max(i, j)}")) for i in range(3) for j in range(3)], (3, 3))
    W, wn = generic_matrix("w")
    s = Arr(_atoms("s", 3), (3,))
    I = SymInterp(ctx.repo, inputs=tn)
    calls = []

    make = C12_eigen.pair_maker(ctx, NONUNIT)

    def solver(it, args, kw):
        calls.append(_bind(nu, args, kw))
        return make(s, W)
    I.special[nu.qualname] = solver
    try:
        out = I.run(un, [T])
    except _ERR as ex:
        raise Incomplete(f"eigen_sym33_unit cannot be interpreted: {ex}")
    und = lambda c, why: ctx.undecided(rule, un, None, construct=c, detail=why)
    generic_pt = {}
    for k, a in enumerate(tn):
        generic_pt[a] = [0.7, -1.3, 0.4, 2.1, -0.6, 1.7][k]
    for k, a in enumerate(wn):
        generic_pt[a] = [0.3, 1.9, -0.8, -1.1, 0.45, 0.6, 1.4, -0.2, 0.95][k]
    for k in range(3):
        generic_pt[f"s{k}"] = [0.5, -1.5, 2.5][k]
    zero_pt = dict(generic_pt)
    zero_pt.update({a: 0.0 for a in tn})

    def situation(r, pt):
        try:
            return I.specialise(r, pt, piecewise=True)
        except (KeyError, ZeroDivisionError, EvalError, ValueError, OverflowError):
            return None
    # ---- the solver call (another number of calls / another kind of argument is an idiom this rule does not read, not a defect)
    arg = calls[0][0] if len(calls) == 1 else None
    ok_call = isinstance(arg, Arr) and arg.shape == (3, 3) and all(isinstance(x, Dual) for x in arg.data)
    ctx.decide(rule, True if ok_call else None, un, None, construct="unit:solver-called-on-the-scaled-tensor", detail="(values, vectors) = eigen_sym33_non_unit(scaled tensor), once",
               bad_detail=f"eigen_sym33_unit calls the non-unit solver {len(calls)} times / not on a 3x3 tensor")
    kappa = None
    if ok_call:
        kappa = simplify(_A.norm(arg.data[0].a / T.data[0].a))
        ok_scaled = all(_A.equal(a.a, kappa * t.a) for a, t in zip(arg.data, T.data))
        if not ok_scaled and not all(I.reach([a.a])[0] & set(tn) for a in arg.data):
            ok_scaled = None           # entries that do not depend on the input at all: not a tensor this rule can read
        ctx.decide(rule, ok_scaled, un, None, construct="unit:scaledTensor", detail="input scaled by one scalar factor",
                   bad_detail="eigen_sym33_unit: the tensor handed to the solver is not a scalar multiple of the input")
        if not ok_scaled:
            kappa = None
    else:
        und("unit:scaledTensor", "solver call not found")
    # ---- kappa * N == 1 for a norm N of the input; finite constant for the zero tensor
    N = None
    if kappa is None:
        und("unit:cmax", "scale factor not found")
        und("unit:cmaxInv", "scale factor not found")
    else:
        k_gen, k_zero = situation(kappa, generic_pt), situation(kappa, zero_pt)
        reach_atoms = I.reach([kappa])[0]
        norms = [a for a in reach_atoms if _is_norm_of(I, a, T)]
        for a in norms:
            if k_gen is not None and _A.equal(k_gen * _A.atom(a), Rat(Poly.const(1))):
                N = a
        if N is not None:
            ok_norm = True
        elif k_gen is None:
            ok_norm = None
        elif all(a in I.inputs for a in k_gen.atoms()):
            ok_norm = False            # a constant or an explicit rational function of the entries: not the reciprocal of a norm
        else:
            ok_norm = None             # built from a quantity that is not recognised as a norm
        ctx.decide(rule, ok_norm, un, None, construct="unit:cmax", detail="the input is divided by a norm (max norm) of itself",
                   bad_detail=f"eigen_sym33_unit: for a non-zero input the tensor is scaled by `{k_gen!r}`, which is not the reciprocal of a norm of the input: "
                              f"tensors of extreme magnitude are not brought to unit size")
        guarded = None
        if N is not None and k_zero is not None:
            guarded = rat_const(k_zero) is not None
        ctx.decide(rule, guarded, un, None, construct="unit:cmaxInv", detail="inverse scale guarded against zero",
                   bad_detail=f"eigen_sym33_unit: for the zero tensor the scale factor is `{k_zero!r}`: the reciprocal of the norm is not guarded against zero")
    # ---- returned pair
    out = C12_eigen.as_pair(out)           # a tuple, a list or a two-field record
    ok_ret = out is not None and isinstance(out[0], Arr) and out[0].shape == (3,) and isinstance(out[1], Arr) and out[1].shape == (3, 3) \
        and all(isinstance(x, Dual) for x in list(out[0].data) + list(out[1].data))
    swapped = out is not None and isinstance(out[0], Arr) and out[0].shape == (3, 3) and isinstance(out[1], Arr) and out[1].shape == (3,)
    ctx.decide(rule, True if ok_ret else (False if swapped else None), un, None, construct="unit:returns-(values,vectors)", detail="(evals, evecs)",
               bad_detail="eigen_sym33_unit returns (vectors, values) instead of (values, vectors)")
    if not ok_ret:
        for c in ("unit:eigenvalues-rescaled-by-the-same-factor", "unit:columns-normalised-by-own-length", "unit:normalised-columns-restacked-in-order"):
            und(c, "returned pair not readable")
        return
    vals = [situation(v.a, generic_pt) for v in out[0].data]
    vecs = [situation(v.a, generic_pt) for v in out[1].data]
    if any(v is None for v in vals + vecs):
        for c in ("unit:eigenvalues-rescaled-by-the-same-factor", "unit:columns-normalised-by-own-length", "unit:normalised-columns-restacked-in-order"):
            und(c, "a selection in the wrapper could not be resolved at the generic sample point")
        return
    # ---- eigenvalues: vals == N * s
    if N is None:
        und("unit:eigenvalues-rescaled-by-the-same-factor", "scale factor not identified")
    else:
        ok = all(_A.equal(v, _A.atom(N) * x.a) for v, x in zip(vals, s.data))
        ctx.decide(rule, ok, un, None, construct="unit:eigenvalues-rescaled-by-the-same-factor", detail="evals = N * (eigenvalues of the scaled tensor)",
                   bad_detail=f"eigenvalues are not rescaled by the norm the input was divided by (eigenvalue 0 is `{vals[0]!r}`)")
    # ---- eigenvectors: column k of the result is a column of W divided by its own length
    def parallel(col, w):
        return all(_A.equal(col[a] * w[b].a, col[b] * w[a].a) for a in range(3) for b in range(a + 1, 3)) and not all(rat_is_zero(c) for c in col)
    src_col, own, from_row = [], [], []
    for k in range(3):
        col = [vecs[i * 3 + k] for i in range(3)]
        hit = None
        for j in range(3):
            wj = [W.data[i * 3 + j] for i in range(3)]
            if parallel(col, wj):
                hit = j
                break
        src_col.append(hit)
        if hit is not None:
            length = I.np_call("sqrt", [wj[0] * wj[0] + wj[1] * wj[1] + wj[2] * wj[2]], {})
            own.append(all(_A.equal(col[i] * length.a, wj[i].a) for i in range(3)))
        else:
            own.append(False)
            from_row.append(any(parallel(col, [W.data[j * 3 + i] for i in range(3)]) for j in range(3)))
    # a column that is parallel to a ROW of the solver's matrix is positively wrong; a column that is parallel to neither is an idiom
    # (re-orthogonalisation, ...) that this rule does not read
    if all(h is not None for h in src_col):
        okc = all(own)
    else:
        okc = False if any(from_row) else None
    ctx.decide(rule, okc, un, None, construct="unit:columns-normalised-by-own-length", detail="evec_k = evecs[:,k]/|evecs[:,k]|",
               bad_detail="eigenvector columns are not each divided by their own length" +
                          (" (a column of the result is a ROW of the solver's matrix: rows and columns mixed up)" if any(from_row) else
                           (" (a column of the result is not parallel to a column of the solver's matrix)" if any(h is None for h in src_col) else "")))
    if all(h is not None for h in src_col):
        ctx.decide(rule, src_col == [0, 1, 2], un, None, construct="unit:normalised-columns-restacked-in-order", detail="column k of the result comes from column k of the solver",
                   bad_detail=f"normalised eigenvectors are re-stacked in the order {src_col} (column k must stay column k: the eigenvalues keep their order)")
    else:
        und("unit:normalised-columns-restacked-in-order", "columns of the result are not parallel to columns of the solver's matrix")


def _opaque_atoms(I, r):
    atoms, _ = I.reach([r])
    return [a for a in atoms if a in I.fn]


def _is_norm_of(I, atom, T):
    """atom is a norm of the full tensor T: ||T||_inf / max |T_ij| (opaque applications to T) or the Frobenius norm (algebraic)"""
    if atom in I.fn:
        name, args = I.fn[atom]
        if name == "norm_inf" and len(args) == 1 and isinstance(args[0], Arr):
            return _same(args[0], T) or _same(args[0], T.T())
        if name == "amax" and len(args) == 1 and isinstance(args[0], Arr):
            # max over entries that are positive combinations of |T_ij| (max |T_ij|, max row sum, max column sum) covering every entry
            inner = []
            for x in args[0].data:
                p = x.a.n
                if not x.a.d.is_const() or x.a.d.const_value() <= 0 or p.is_zero():
                    return False
                for mono, c in p.t.items():
                    if c <= 0 or len(mono) != 1 or mono[0][1] != 1 or not (mono[0][0] in I.fn and I.fn[mono[0][0]][0] == "abs"):
                        return False
                    inner.append(I.fn[mono[0][0]][1][0])
            return all(any(_A.equal(x.a, t.a) or _A.equal(x.a, -t.a) for x in inner) for t in T.data)
        return False
    if atom in _A.rules:
        sq = Rat(Poly())
        for t in T.data:
            sq = sq + t.a * t.a
        return _A.equal(Rat(_A.rules[atom]), sq)
    return False


# ------------------------------------------------------------------------------------------------ O2: the trigonometric root table

def trig_table(ctx):
    """The rational approximant of cos(acos(x)/3) is a table of literals: evaluate it exactly (by interpretation, float literals read as
    written) at x = k/1000 and check the defining identity 4c^3 - 3c = x on the branch c >= sqrt(3)/2 (the largest root of the depressed cubic)."""
    rule = "O2/T7-trigonometric-root-table"
    f = C12_eigen.trig_function(ctx, NONUNIT)
    if f is None:
        raise Incomplete(f"anchor {C12_eigen.TRIG} not found in the source tree, and no function called by the eigen solver has its role "
                         f"(a rational approximant c(x) of cos(acos(x)/3): c(0) = sqrt(3)/2, c(1) = 1)")
    ctx.touch(f)
    construct = "cos(acos(x)/3):triple-angle-identity"
    I = SymInterp(ctx.repo)
    I.tolerant = False
    worst, at, branch_ok = Fraction(0), None, True
    try:
        # the approximant as one exact rational function of x (interpreted once); point-wise interpretation when it is not one
        formula = None
        try:
            v = I.num(I.run(f, [Dual(_A.atom("x"))]))
            if isinstance(v, Dual) and v.a.atoms() <= {"x"} and rat_is_zero(v.b):
                formula = v.a
        except _ERR:
            formula = None
        for k in range(0, 1001):
            xv = Fraction(k, 1000)
            if formula is not None:
                den = formula.d.eval({"x": xv})
                c = Fraction(formula.n.eval({"x": xv})) / Fraction(den) if den != 0 else None
            else:
                c = rat_const(I.num(I.run(f, [Dual(xv)])).a)
            if c is None:
                raise EvalError("value is not a constant")
            r = abs(4 * c ** 3 - 3 * c - xv)
            if r > worst:
                worst, at = r, xv
            if c * c < Fraction(3, 4) - Fraction(1, 10 ** 13) or c > 1 + Fraction(1, 10 ** 13):
                branch_ok = False
        ok = worst <= Fraction(1, 10 ** 14) and branch_ok
    except _ERR as ex:
        ctx.undecided(rule, f, None, construct=construct, detail=f"cannot evaluate the approximant exactly: {ex}")
        return
    ctx.decide(rule, ok, f, None, construct=construct,
               detail=f"max |4c^3-3c-x| over x=k/1000 is {float(worst):.2e} (<= 1e-14), c in [sqrt(3)/2, 1]",
               bad_detail=f"the literal coefficients do not approximate cos(acos(x)/3): |4c^3-3c-x| = {float(worst):.3e} at x = {at} "
                          f"(1e-14 allowed){'' if branch_ok else '; value leaves [sqrt(3)/2, 1], i.e. the wrong root of the cubic'}")


# ------------------------------------------------------------------------------------------------ O3: custom_jvp wiring

def _custom_jvp_functions(ctx, mname):
    """(module, scopes of the functions decorated with / wrapped by custom_jvp) -- also used by rules/C10.py"""
    m, named = C12_jvp.custom_jvp_named(ctx, mname)
    return m, [sc for _, sc in named]


def jvp_wiring(ctx, rule):
    """registration, primal output, agreement of the scalar functions of primal and rule, data flow into the tangent helper and the
    Daleckii-Krein assembly of the helper: rules/C12_jvp.py (also used by rules/C10.py)"""
    C12_jvp.jvp_wiring(ctx, rule)


# ------------------------------------------------------------------------------------------------ O3: relative differences

def _find_named(ctx, mname, fname):
    """scope of the function the module `mname` knows under the name `fname`: defined there, or defined in another repository module
    (a private helper module) and imported under that name"""
    sc = ctx.repo.find(f"{mname}:{fname}")
    if sc is not None and sc.is_function():
        return sc
    m = ctx.repo.module(mname)
    if m is None:
        return None
    try:
        vals = [v for v in ctx.repo.resolve(ast.Name(id=fname, ctx=ast.Load()), m.scope) if isinstance(v, FuncVal)]
    except Exception:
        return None
    quals = {v.scope.qualname for v in vals}
    if len(quals) == 1 and vals[0].scope.is_function():
        return vals[0].scope
    return None


def relative_differences(ctx):
    rule = "O3/T7-relative-differences"
    # the relative difference of the square root: found by role (the two-argument callable that the rule of the spectral function whose
    # primal scalar function is the square root hands to the tangent helper), by name when the wiring could not be read
    I = SymInterp(ctx.repo, positive={"a", "b"})
    a, b = Dual(_A.atom("a")), Dual(_A.atom("b"))

    def is_sqrt(J, fp):
        return _A.equal(fp[0].a, _A.sqrt(_A.atom("l0"))) and rat_is_zero(fp[0].b)
    sq = fn = None
    try:
        jf = C12_jvp.relative_difference_of(ctx, is_sqrt)
    except (Incomplete,) + _ERR:
        jf = None
    if jf is not None:
        fn, sq = jf.rd, (callable_scope(jf.rd) or jf.where)
    else:
        sq = _find_named(ctx, TM, "_sqrt_relative_difference") or ctx.need(f"{TM}:_sqrt_relative_difference")
        ctx.touch(sq)
    try:
        got = I.num(I.call(fn, [a, b], {}) if fn is not None else I.run(sq, [a, b]))
        sa, sb = _A.sqrt(a.a), _A.sqrt(b.a)
        ok = isinstance(got, Dual) and _A.equal(_A.norm(got.a * (a.a - b.a)), _A.norm(sa - sb))
        shown = repr(got.a) if isinstance(got, Dual) else repr(got)
    except _ERR as ex:
        ok, shown = None, f"cannot interpret: {ex}"
    ctx.decide(rule, ok, sq, None, construct="sqrt:(sqrt a - sqrt b)/(a-b)", detail="1/(sqrt a + sqrt b) times (a - b) equals sqrt a - sqrt b",
               bad_detail=f"the relative difference of the square root, evaluated at (a, b), is `{shown}`, not (sqrt(a)-sqrt(b))/(a-b)")
    # every spectral function: the relative difference its rule hands to the helper against the scalar function of the rule
    try:
        n_role = C12_jvp.screen_relative_differences(ctx, rule)
        ctx.notes.append(f"relative differences handed to the tangent helper: {n_role} agree with (f(a)-f(b))/(a-b) of their scalar function "
                         f"(exactly or at well separated sample points; sampling is not a proof)")
    except (Incomplete,) + _ERR:
        pass
    # refutation-only screens: the interpreted formula evaluated at sample points
    screens = [("_exp_relative_difference", lambda x: math.exp(x), [(0.3, -0.2), (1.5, 1.2), (-2.0, 0.5)], {}),
               ("_relative_log_difference_no_tolerance_check", lambda x: math.log(x), [(2.0, 0.5), (1.2, 1.1), (0.3, 3.0)], {}),
               ("_relative_log_difference_taylor", lambda x: math.log(x), [(1.0, 1.01), (2.0, 2.02)], {"tol": 1e-8})]
    n_ok = 0
    for fname, f, pts, opt in screens:
        sc = _find_named(ctx, TM, fname)
        if sc is None or len(sc.params()) != 2:
            continue
        ctx.touch(sc)
        bad = None
        try:
            J = SymInterp(ctx.repo)
            val = J.num(J.run(sc, [a, b]))
            if not isinstance(val, Dual):
                continue
            for (x1, x2) in pts:
                got = J.numeric(val.a, {"a": x1, "b": x2})
                want = (f(x1) - f(x2)) / (x1 - x2)
                if not abs(got - want) <= opt.get("tol", 1e-10) * max(1.0, abs(want)):
                    bad = (x1, x2, got, want)
                    break
        except _ERR:
            continue
        if bad:
            ctx.refuted(rule, sc, None, construct=f"{fname}:divided-difference",
                        detail=f"{fname}({bad[0]}, {bad[1]}) evaluates to {bad[2]:.12g} but (f(a)-f(b))/(a-b) = {bad[3]:.12g}")
        else:
            n_ok += 1
    ctx.notes.append(f"refutation-only screen of transcendental divided-difference formulas: {n_ok} formula(s) sampled, no counterexample (not a proof)")


def log_taylor(ctx):
    """_relative_log_difference_taylor(a, b) is (2/(a+b)) * sum_{k<=K} f^(2k)/(2k+1), f = (a-b)/(a+b), for some K >= 4.  The interpreted value
    times (a+b) is homogeneous of degree 0; written in f alone (a = (1+f)/(1-f), b = 1) it must be a polynomial with the coefficients
    2/(2k+1) of f^(2k) and no odd powers.  A polynomial in f with another coefficient (or of degree < 8) is refuted; a value that is not a
    polynomial in f (another approximation) is screened at nearly equal arguments and otherwise left undecided."""
    rule = "O3/T7-relative-differences"
    sc = _find_named(ctx, TM, "_relative_log_difference_taylor")
    if sc is None:
        return
    ctx.touch(sc)
    a, b = Dual(_A.atom("a")), Dual(_A.atom("b"))
    order, ok, why = "?", None, "the value could not be read"
    try:
        I = SymInterp(ctx.repo, positive={"a", "b"})
        got = I.num(I.run(sc, [a, b]))
        if not isinstance(got, Dual) or not got.a.atoms() <= {"a", "b"}:
            raise EvalError("not an explicit rational function of the two arguments")
        f = _A.atom("f")
        one = Rat(Poly.const(1))
        in_f = simplify(_A.norm(subst(subst(got.a * (a.a + b.a), "a", (one + f) / (one - f)), "b", one)))
        if in_f.d.is_const() and in_f.atoms() <= {"f"}:
            coeff = {}
            for mono, c in in_f.n.t.items():
                coeff[dict(mono).get("f", 0)] = c / in_f.d.const_value()
            deg = max(coeff) if coeff else 0
            wrong = [k for k in range(deg + 1) if coeff.get(k, 0) != (Fraction(2, k + 1) if k % 2 == 0 else 0)]
            if wrong:
                ok, why = False, f"the coefficient of f^{wrong[0]} is {coeff.get(wrong[0], 0)}, the series of (log a - log b)/(a - b) has {Fraction(2, wrong[0] + 1) if wrong[0] % 2 == 0 else 0}"
            elif deg < 8:
                ok, why = False, f"the series is truncated after f^{deg} (at least f^8 is needed for the documented 5% range)"
            else:
                ok, order = True, deg
        else:
            # another closed form: refuted only by a numeric counterexample at nearly equal arguments (where the function is used)
            worst = 0.0
            for (x1, x2) in ((1.0, 1.01), (2.0, 2.02), (0.5, 0.49)):
                v = I.numeric(got.a, {"a": x1, "b": x2})
                want = (math.log(x1) - math.log(x2)) / (x1 - x2)
                worst = max(worst, abs(v - want) / abs(want))
            if worst > 1e-8:
                ok, why = False, f"relative error {worst:.2e} at arguments 1% apart"
            else:
                ok, why = None, "not a truncated series in f = (a-b)/(a+b); accurate at sample points (not a proof)"
    except _ERR as ex:
        ok, why = None, f"cannot interpret: {ex}"
    ctx.decide(rule, ok, sc, None, construct="log:taylor-series-coefficients", detail=f"(a+b) * value == sum_(k<={order}/2) 2/(2k+1) f^(2k), f=(a-b)/(a+b)",
               bad_detail=f"_relative_log_difference_taylor is not a truncated series 2/(a+b) * (1 + f^2/3 + f^4/5 + ...) of (log a - log b)/(a - b): {why}")


# ------------------------------------------------------------------------------------------------ O4: Denman-Beavers

def denman_beavers(ctx):
    """Dense square root (LinAlg.sqrtm_dbp, product form of the Denman-Beavers iteration): for a scalar matrix A = a*I everything
    commutes, so one step of the loop body, interpreted on symbolic 1x1 data, must preserve the invariant M = X^2 / a (M = X A^-1 X)
    with and without determinantal scaling, and (X, M) = (sqrt a, 1) must be a fixed point: then the limit M -> I gives X^2 = A.
    The scaling factor must be the determinantal one while the relative change of X (the carried scalar the switch looks at) is large
    and 1 when it is small.  Loop, body, carry slots and the switch are found by interpretation (while_loop is a recording stand-in):
    the two matrix slots of the carry are the ones initialised with A, the switch is the one condition a symbolic carry leaves open,
    the unscaled situation is the one whose step does not involve a root of the determinant."""
    rule = "O4/T7-denman-beavers-invariant"
    LA = "optimism.LinAlg"
    ctx.need_module(LA)
    sc = ctx.need(f"{LA}:sqrtm_dbp")
    a, x = Dual(_A.atom("a")), Dual(_A.atom("x"))
    I = SymInterp(ctx.repo, positive={"a", "x"})
    rec = {}

    def wl(it, args, kw):
        vals = list(args) + [kw.get(k) for k in ("cond_fun", "body_fun", "init_val")][len(args):]
        if len(vals) >= 3 and "body" not in rec:
            rec["cond"], rec["body"], rec["init"] = vals[:3]
        leaves, rebuild = tree_flatten(vals[2])
        return rebuild([Unknown("loop result") for _ in leaves])
    I.ext_special["jax.lax.while_loop"] = wl
    try:
        I.run(sc, [Arr([a], (1, 1))])
    except _ERR:
        pass
    body, init = rec.get("body"), rec.get("init")
    if body is None or not is_callable_value(body):
        ctx.undecided(rule, sc, None, construct="loop", detail="while_loop(cond, body, init) not found by interpretation")
        return
    where = callable_scope(body) or sc
    ctx.touch(where)
    # the carry is any python container (tuple, NamedTuple, dictionary, nested): its leaves are the slots
    init_leaves, rebuild = tree_flatten(init)
    mats = [k for k, v in enumerate(init_leaves) if isinstance(v, Arr) and v.shape == (1, 1)]
    if len(mats) > 2:              # further matrices in the carry (a carried identity, ...): iterate and product are the ones that start as A
        mats = [k for k in mats if _same(init_leaves[k], Arr([a], (1, 1)))]
    if len(mats) != 2:
        ctx.undecided(rule, where, None, construct="loop", detail=f"{len(mats)} matrix slots in the loop carry (2 expected: iterate and product)")
        return
    scal = [k for k in range(len(init_leaves)) if k not in mats]

    def step(order, hyp, X, M):
        vals = {order[0]: X, order[1]: M}
        cr = rebuild([vals[k] if k in vals else (Dual(v) if isinstance(v, int) and not isinstance(v, bool) else
                                                 (v if isinstance(v, Arr) and all(isinstance(x, Dual) and rat_const(x.a) is not None for x in v.data)
                                                  else Dual(_A.atom(f"carry{k}"))))
                      for k, v in enumerate(init_leaves)])
        I.hyp = dict(hyp)
        I.sel_log.clear()
        out, _ = tree_flatten(I.call(body, [cr], {}))
        if len(out) != len(init_leaves):
            raise EvalError("the loop body does not return a carry of the same structure")
        return out

    def analyse(order):
        """-> (situations [(hyp, label, residual, X', M')], switch atom or None, index of the unscaled situation, open conditions)"""
        step(order, {}, Arr([x], (1, 1)), Arr([x * x / a], (1, 1)))
        conds = {c.key: c for c in I.sel_log}
        hyps, switch = [{}], None
        if len(conds) == 1:
            atoms = next(iter(conds.values())).atoms()
            if len(atoms) == 1 and atoms[0].kind in ("lt", "eq"):
                switch = atoms[0]
                hyps = [{switch.key: True}, {switch.key: False}]
        elif conds:
            raise EvalError(f"{len(conds)} open conditions in the loop body")
        sits, plain = [], None
        for k, hyp in enumerate(hyps):
            o = step(order, hyp, Arr([x], (1, 1)), Arr([x * x / a], (1, 1)))
            X2, M2 = o[order[0]], o[order[1]]
            if not (isinstance(X2, Arr) and isinstance(M2, Arr) and isinstance(X2.data[0], Dual) and isinstance(M2.data[0], Dual)):
                raise EvalError("the step does not return the two matrices")
            if not any(t in _A.rules or t in I.fn for t in X2.data[0].a.atoms()):
                plain = k
            res = simplify(_A.norm(X2.data[0].a * X2.data[0].a / a.a - M2.data[0].a))
            sits.append((hyp, res))
        return sits, switch, plain, conds
    try:
        order = mats
        sits, switch, plain, conds = analyse(order)
        if not any(_A.is_zero(r) for _, r in sits):
            alt = analyse(mats[::-1])       # both slots start as A: the invariant tells the iterate from the product
            if alt[0] and all(_A.is_zero(r) for _, r in alt[0]):
                order, (sits, switch, plain, conds) = mats[::-1], alt
    except _ERR as ex:
        ctx.undecided(rule, where, None, construct="invariant-M=X^2/a[scaled]", detail=f"cannot interpret the loop body on 1x1 data: {ex}")
        return
    def vanishes(res):
        """True: identically zero; False: not zero -- exact when the residual is algebra of the symbols and square roots, else witnessed at
        sample points; None: opaque functions in the residual and no witness"""
        if _A.is_zero(res):
            return True
        atoms = I.reach([res])[0]
        if all(t not in I.fn and t not in I.sel for t in atoms):
            return False
        try:
            worst = 0.0
            for pt in ({"a": 2.3, "x": 0.9}, {"a": 0.4, "x": 1.7}, {"a": 37.0, "x": 3.1}):
                pt = dict(pt, **{t: 0.37 for t in atoms if t.startswith("carry")})
                v = I.numeric(res, pt)
                if v != v:
                    return None
                worst = max(worst, abs(v))
            return False if worst > 1e-8 else None
        except (KeyError, ZeroDivisionError, OverflowError, ValueError):
            return None
    for k, (hyp, res) in enumerate(sits):
        lab = "unscaled" if k == plain else "scaled"
        ctx.decide(rule, vanishes(res), where, None, construct=f"invariant-M=X^2/a[{lab}]", detail="one step maps (x, x^2/a) to (x', x'^2/a)",
                   bad_detail=f"with the scaling {'on' if lab == 'scaled' else 'off'} one step of the Denman-Beavers loop maps (X, M = X^2/a) to a pair with "
                              f"X'^2/a - M' = {res!r}: M -> I no longer implies X^2 = A")
        if lab == "unscaled":
            s_ = Dual(_A.sqrt(a.a))
            try:
                o2 = step(order, hyp, Arr([s_], (1, 1)), Arr([Dual(1)], (1, 1)))
                okf = vanishes(simplify(_A.norm(o2[order[0]].data[0].a - s_.a)))
                okf = okf if okf is not True else vanishes(simplify(_A.norm(o2[order[1]].data[0].a - _A.const(1))))
                shown = f"({o2[order[0]].data[0].a!r}, {o2[order[1]].data[0].a!r})"
            except _ERR as ex:
                okf, shown = None, str(ex)
            ctx.decide(rule, okf, where, None, construct="fixed-point-(sqrt a, 1)", detail="(sqrt a, 1) is mapped to itself",
                       bad_detail=f"(X, M) = (sqrt a, 1) is mapped to {shown}: the square root is not a fixed point of the iteration")
    # ---- scaling switch
    ok, shown = None, "?"
    if switch is not None and plain is not None and len(sits) == 2:
        slot = [k for k in scal if f"carry{k}" in switch.args[0].atoms()]
        shown = switch.key
        if len(slot) == 1 and switch.args[0].atoms() == {f"carry{slot[0]}"}:
            nm = f"carry{slot[0]}"
            # the carried scalar is a relative change (>= 0): large = 1, small = 1e-8
            try:
                far, near = I.numeric_cond(switch, {nm: 1.0}), I.numeric_cond(switch, {nm: 1e-8})
                plain_truth = sits[plain][0][switch.key]
                ok = (near == plain_truth) and (far != plain_truth)
                shown = f"scaling is {'off' if far == plain_truth else 'on'} when the relative change is 1 and {'off' if near == plain_truth else 'on'} when it is 1e-8"
            except (KeyError, ZeroDivisionError):
                ok = None
    elif switch is None and not conds:
        ok, shown = False, "no switch: the scale factor does not depend on the relative change of the iterate"
    ctx.decide("O4/T2-scaling-switch", ok, where, None, construct="scaling-on-while-far-from-convergence", detail=shown,
               bad_detail=f"{shown}: the determinantal scaling must be applied while the relative change of X is at least the threshold and replaced by 1 below it; "
                          f"otherwise matrices of extreme magnitude exhaust the iteration cap (silently unconverged result) or the final quadratic phase is perturbed")


def _round2_variants(Variant, sub, multi, T, LA, E, F, G, H, J, R1T, R1L, R2T, R2L, R3T, R3L):
    """bolder restructurings (preserving) and breaking edits made on top of them: the roles must be found in the restructured code too"""
    loop_registration = [
        ("@exp_symm.defjvp\ndef _exp_symm_jvp", "def _exp_symm_jvp"),
        ("@log_symm.defjvp\ndef _log_symm_jvp(primals, tangents):\n    primal_out = log_symm(*primals)\n"
         "    return primal_out, _symmetric_matrix_function_jvp_helper(np.log, _log_relative_difference, primals, tangents)\n",
         "def _log_symm_jvp(primals, tangents):\n    primal_out = log_symm(*primals)\n"
         "    return primal_out, _symmetric_matrix_function_jvp_helper(np.log, _log_relative_difference, primals, tangents)\n\n"
         "for _f, _r in ((exp_symm, _exp_symm_jvp), (log_symm, _log_symm_jvp)):\n    _f.defjvp(_r)\n")]
    trig_renamed = [("def cos_of_acos_divided_by_3(x):", "def _third_angle_cosine(x):"),
                    ("    cos_thd3 = cos_of_acos_divided_by_3(arg)", "    cos_thd3 = _third_angle_cosine(arg)")]
    sqrt_rd_renamed = [("def _sqrt_relative_difference(lam1, lam2):", "def _root_quotient(lam1, lam2):"),
                       ("Math.safe_sqrt, _sqrt_relative_difference, primals", "Math.safe_sqrt, _root_quotient, primals")]
    carried_identity = [
        ("        X, M, error, k, diff = loopData\n        g = np.where", "        X, M, error, k, diff, I = loopData\n        g = np.where"),
        ("        I = np.identity(dim)\n", ""),
        ("        return (X, M, error, k, diff)", "        return (X, M, error, k, diff, I)"),
        ("    loopData0 = (X0, M0, error0, k0, diff0)", "    loopData0 = (X0, M0, error0, k0, diff0, np.identity(dim))"),
        ("    X,_,_,k,_ = jax.lax.while_loop", "    X,_,_,k,_,_ = jax.lax.while_loop"),
        ("        _,_,error,k,_ = loopData\n        p = np.array([k < maxIters", "        _,_,error,k,_,_ = loopData\n        p = np.array([k < maxIters")]
    return [
        # ---- preserving
        Variant("round 2 / r1: NamedTuple rule records, partial (TensorMath)", T, multi(R1T), None),
        Variant("round 2 / r1: NamedTuple loop carries (LinAlg)", LA, multi(R1L), None),
        Variant("round 2 / r2: solver and helper split into stages (TensorMath)", T, multi(R2T), None),
        Variant("round 2 / r2: loop closures moved to module level, partial (LinAlg)", LA, multi(R2L), None),
        Variant("round 2 / r3: comprehensions over components (TensorMath)", T, multi(R3T), None),
        Variant("round 2 / r3: hoisted loop invariants (LinAlg)", LA, multi(R3L), None),
        Variant("refactoring E (rule factory, registration by call, keyword-only callables)", T, multi(E), None),
        Variant("refactoring F (dictionary carry, step bound by a lambda, loop driver)", LA, multi(F), None),
        Variant("refactoring G (2x2 block by a function returning a NamedTuple, array selections, np.take)", T, multi(G), None),
        Variant("refactoring H (norm with a floor, symmetrised input, broadcast normalisation, einsum)", T, multi(H), None),
        Variant("refactoring J (vectorised helper: meshgrid, array conditions, nested vmap; argmax pivot)", T, multi(J), None),
        Variant("rules registered in a loop over a table", T, multi(loop_registration), None),
        Variant("approximant of cos(acos(x)/3) renamed (found by role)", T, multi(trig_renamed), None),
        Variant("relative difference of the square root renamed (found by role)", T, multi(sqrt_rd_renamed), None),
        Variant("DB carry with a carried identity matrix", LA, multi(carried_identity), None),
        Variant("sign by selecting between the negated and the plain value", T,
                sub("    two_cos_thd3 = 2.0*cos_thd3*np.sign(rr)", "    two_cos_thd3 = np.where(rr < 0.0, -2.0*cos_thd3, 2.0*cos_thd3)"), None),
        Variant("log series with one more term (equivalent role)", T,
                sub("seventh2 * frac4 * frac2 + ninth2 * frac4 * frac4)", "seventh2 * frac4 * frac2 + ninth2 * frac4 * frac4 + 2.0/11.0*frac4*frac4*frac2)"), None),
        # ---- breaking, on the restructured code
        Variant("E + exp rule differentiates expm1", T, multi(E + [("_spectral_jvp(exp_symm, np.exp, _exp_relative_difference)", "_spectral_jvp(exp_symm, np.expm1, _exp_relative_difference)")]),
                "O3/T5-custom-jvp-wiring"),
        Variant("E + helper receives (tangent, primal)", T, multi(E + [("_symmetric_matrix_function_jvp_helper(A, dA, func=scalar_function", "_symmetric_matrix_function_jvp_helper(dA, A, func=scalar_function")]),
                "O3/T5-custom-jvp-wiring"),
        Variant("E + primal recomputed in the factory", T, multi(E + [("        value = matrix_function(*primals)", "        value = symmetric_matrix_function(A, scalar_function)")]),
                "O3/T5-custom-jvp-wiring"),
        Variant("E + divided difference of the wrong pair", T, multi(E + [("pairs[(min(i, j), max(i, j))]", "pairs[(min(i, j), 2)]")]), "O3/T5-custom-jvp-wiring"),
        Variant("F + switch flipped", LA, multi(F + [('    nearly_converged = carry["diff"] < scaleTol', '    nearly_converged = carry["diff"] > scaleTol')]), "O4/T2-scaling-switch"),
        Variant("F + product scaled once", LA, multi(F + [('    Ms = gg * carry["M"]', '    Ms = g * carry["M"]')]), "O4/T7-denman-beavers-invariant"),
        Variant("F + inverse of the iterate", LA, multi(F + [("    N = np.linalg.inv(Ms)", "    N = np.linalg.inv(Y)")]), "O4/T7-denman-beavers-invariant"),
        Variant("G + spherical threshold linear in the mean", T, multi(G + [("    spherical = c2 >= -1.0e-30*c1**2", "    spherical = c2 >= -1.0e-30*c1")]), "O2/T7-eigen-solver-algebra"),
        Variant("G + shift sign can be zero", T, multi(G + [("    direction = np.where(half_gap < 0.0, -1.0, 1.0)", "    direction = np.sign(half_gap)")]), "O2/T7-eigen-solver-algebra"),
        Variant("G + vectors stacked as rows", T, multi(G + [("np.stack([evec0, evec1, evec2]).T)", "np.stack([evec0, evec1, evec2]))")]), "O2/T9-eigen-roles"),
        Variant("G + rows permuted", T, multi(G + [("np.take(evecs, order, axis=1)", "np.take(evecs, order, axis=0)")]), "O2/T9-eigen-roles"),
        Variant("H + lengths of the rows", T, multi(H + [("np.sum(spectrum[1]*spectrum[1], axis=0)", "np.sum(spectrum[1]*spectrum[1], axis=1)")]), "O2/T9-eigen-roles"),
        Variant("H + norm without the floor", T, multi(H + [("    unit_size = sym(tensor) / np.maximum(size, floor)", "    unit_size = sym(tensor) / size")]), "O2/T9-eigen-roles"),
        Variant("H + einsum over the rows of V", T, multi(H + [("np.einsum('ik,k,jk->ij', V, func(lam), V)", "np.einsum('ki,k,kj->ij', V, func(lam), V)")]), "O2/T9-eigen-roles"),
        Variant("J + selection swapped", T, multi(J + [("    h = np.where(repeated, slopes, quotients)", "    h = np.where(repeated, quotients, slopes)")]), "O3/T5-custom-jvp-wiring"),
        Variant("J + switch with tolerance", T, multi(J + [("    repeated = lam_i == lam_j", "    repeated = np.isclose(lam_i, lam_j)")]), "O3/T5-custom-jvp-wiring"),
        Variant("J + rotated the wrong way", T, multi(J + [("    return sym(V@(h*rotated)@V.T)", "    return sym(V.T@(h*rotated)@V)")]), "O3/T5-custom-jvp-wiring"),
        Variant("r1 + log rule record with another scalar function", T, multi(R1T + [("_LOG_RULE = _ScalarFunctionRule(func=np.log,", "_LOG_RULE = _ScalarFunctionRule(func=np.log1p,")]),
                "O3/T7-relative-differences"),
        Variant("r1 + power rule binds another exponent in the tangent", T, multi(R1T + [("relative_difference=partial(_pow_relative_difference, m=m))", "relative_difference=partial(_pow_relative_difference, m=m - 1))")]),
                "O3/T7-relative-differences"),
        Variant("r1 + switch flipped (NamedTuple carry)", LA, multi(R1L + [("        g = np.where(state.diff >= scaleTol,", "        g = np.where(state.diff <= scaleTol,")]), "O4/T2-scaling-switch"),
        Variant("r2 + stage without the derivative fallback", T, multi(R2T + [("    return np.where(x2 == x1, df(x1), relative_difference(x1, x2_safe))", "    return relative_difference(x1, x2_safe)")]),
                "O3/T5-custom-jvp-wiring"),
        Variant("r2 + update coefficient (module level step)", LA, multi(R2L + [("    M = 0.5 * (I + 0.5 * (M + N))", "    M = 0.5 * (I + 0.25 * (M + N))")]), "O4/T7-denman-beavers-invariant"),
        Variant("r3 + cyclic pairs with a repeated pair", T, multi(R3T + [("    cyclic_pairs = ((0, 1), (1, 2), (2, 0))", "    cyclic_pairs = ((0, 1), (1, 2), (2, 1))")]), "O3/T5-custom-jvp-wiring"),
        Variant("r3 + comprehension normalises by the first column", T, multi(R3T + [("evecs[:,i]/np.linalg.norm(evecs[:,i]) for i in range(3)", "evecs[:,i]/np.linalg.norm(evecs[:,0]) for i in range(3)")]),
                "O2/T9-eigen-roles"),
        Variant("renamed approximant with a wrong digit", T, multi(trig_renamed + [("0.603976798217196003", "0.603976798217190003")]), "O2/T7-trigonometric-root-table"),
        Variant("renamed relative difference of the square root with a minus", T, multi(sqrt_rd_renamed + [("    return 1/(np.sqrt(lam1) + np.sqrt(lam2))", "    return 1/(np.sqrt(lam1) - np.sqrt(lam2))")]),
                "O3/T7-relative-differences"),
        Variant("log relative difference divided by the smaller eigenvalue", T, sub("    return (np.log1p(arg)/arg)/lams[i[1]]", "    return (np.log1p(arg)/arg)/lams[i[0]]"), "O3/T7-relative-differences"),
        Variant("power relative difference with the wrong prefactor", T, sub("    return lam_big**(m-1)*(arg**m - 1)/(arg - 1)", "    return lam_big**(m)*(arg**m - 1)/(arg - 1)"), "O3/T7-relative-differences"),
        Variant("exp rule hands over the relative difference of the logarithm", T,
                sub("_symmetric_matrix_function_jvp_helper(np.exp, _exp_relative_difference, primals, tangents)", "_symmetric_matrix_function_jvp_helper(np.exp, _log_relative_difference, primals, tangents)"),
                "O3/T7-relative-differences"),
        Variant("largest root scaled by 3 instead of 2", T, sub("    two_cos_thd3 = 2.0*cos_thd3*np.sign(rr)", "    two_cos_thd3 = 3.0*cos_thd3*np.sign(rr)"), "O2/T7-eigen-solver-algebra"),
        Variant("sign selected the wrong way round", T, sub("    two_cos_thd3 = 2.0*cos_thd3*np.sign(rr)", "    two_cos_thd3 = np.where(rr > 0.0, -2.0*cos_thd3, 2.0*cos_thd3)"), "O2/T7-eigen-solver-algebra"),
    ]


_POW_RD = ("    lams = np.array([lam1, lam2])\n    i = np.argsort(np.abs(lams))\n    lam_small, lam_big = lams[i]\n    arg = lam_small/lam_big\n"
           "    return lam_big**(m-1)*(arg**m - 1)/(arg - 1)")


_R3_DFUNC = [("def _symmetric_matrix_function_jvp_helper(func, relative_difference, primals, tangents):",
              "def _symmetric_matrix_function_jvp_helper(func, relative_difference, primals, tangents, dfunc=None):"),
             ("    df = jax.jacfwd(func)\n", "    df = jax.jacfwd(func) if dfunc is None else dfunc\n"),
             ("_symmetric_matrix_function_jvp_helper(np.exp, _exp_relative_difference, primals, tangents)",
              "_symmetric_matrix_function_jvp_helper(np.exp, _exp_relative_difference, primals, tangents,\n"
              "                                                             dfunc=jax.jacfwd(np.exp))")]
_R3_VALIDATE = [("@jax.custom_jvp\ndef sqrtm(A):",
                 "def _require_square_matrix(A, caller):\n    shape = np.shape(A)\n    if len(shape) != 2 or shape[0] != shape[1]:\n"
                 "        raise ValueError(f\"{caller} expects a square matrix, got an array of shape {shape}\")\n\n\n@jax.custom_jvp\ndef sqrtm(A):"),
                ("    dim        = A.shape[0]\n", "    _require_square_matrix(A, \"sqrtm_dbp\")\n    dim        = A.shape[0]\n")]


def variants(repo):
    from optilint.selftest import Variant, sub, sub_in_func, alpha_rename, reformat
    from .C12_variants import (multi, REF_A_TM, REF_B_TM, REF_B_LA, REF_C_TM, REF_C_LA, REF_D_TM, REF_E_TM, REF_F_LA, REF_G_TM, REF_H_TM, REF_J_TM,
                               REF_K_TM, REF_L_TM, REF_M_TM, REF_N_TM, R2_C08R6_TM, R2_1_TM, R2_1_LA, R2_2_TM, R2_2_LA, R2_3_TM, R2_3_LA)
    T = "optimism/TensorMath.py"
    LA = "optimism/LinAlg.py"
    return _round2_variants(Variant, sub, multi, T, LA, REF_E_TM, REF_F_LA, REF_G_TM, REF_H_TM, REF_J_TM,
                            R2_1_TM, R2_1_LA, R2_2_TM, R2_2_LA, R2_3_TM, R2_3_LA) + [
        Variant("round 2 / C08-r6: helper(func, rd, C, Cdot) split in three, partial, solver tail moved", T, multi(R2_C08R6_TM), None),
        # ---- round 3 idioms: an optional keyword carrying the derivative of the scalar function; trace-time shape validation with np.shape / raise
        Variant("round 3: optional dfunc keyword, the exp rule hands over jacfwd(exp)", T, multi(_R3_DFUNC), None),
        Variant("round 3: dfunc keyword, the exp rule hands over exp itself (its own derivative)", T, multi(_R3_DFUNC + [("dfunc=jax.jacfwd(np.exp))", "dfunc=np.exp)")]), None),
        Variant("dfunc + the exp rule hands over the derivative of the logarithm", T, multi(_R3_DFUNC + [("dfunc=jax.jacfwd(np.exp))", "dfunc=jax.jacfwd(np.log))")]), "O3/T5-custom-jvp-wiring"),
        Variant("dfunc + the helper doubles a derivative that is handed over", T, multi(_R3_DFUNC + [("if dfunc is None else dfunc\n", "if dfunc is None else (lambda x: 2*dfunc(x))\n")]),
                "O3/T5-custom-jvp-wiring"),
        Variant("round 3: square-matrix validation (np.shape, raise) in front of the Denman-Beavers loop", LA, multi(_R3_VALIDATE), None),
        Variant("validation + switch flipped", LA, multi(_R3_VALIDATE + [("        g = np.where(diff >= scaleTol,", "        g = np.where(diff <= scaleTol,")]), "O4/T2-scaling-switch"),
        Variant("validation + update coefficient", LA, multi(_R3_VALIDATE + [("        M = 0.5 * (I + 0.5 * (M + N))", "        M = 0.5 * (I + 0.25 * (M + N))")]), "O4/T7-denman-beavers-invariant"),
        Variant("C08-r6 + module level fallback without the derivative", T, multi(R2_C08R6_TM + [("    return np.where(x2 == x1, df(x1), relative_difference(x1, x2_safe))", "    return relative_difference(x1, x2_safe)")]),
                "O3/T5-custom-jvp-wiring"),
        Variant("refactoring N (eigen solvers return a NamedTuple read by field name)", T, multi(REF_N_TM), None),
        # ---- round 3: the relative difference handed to the helper must be the divided difference of the scalar function (exp-log normal form)
        Variant("pow relative difference with hyperbolic sines (equivalent, stable form)", T, sub(_POW_RD, "    d = 0.5*np.log(lam1/lam2)\n    return (lam1*lam2)**((m-1)/2)*np.sinh(m*d)/np.sinh(d)"), None),
        Variant("pow relative difference with hyperbolic sines, floor division in the exponent (C10-m5)", T,
                sub(_POW_RD, "    d = 0.5*np.log(lam1/lam2)\n    return (lam1*lam2)**((m-1)//2)*np.sinh(m*d)/np.sinh(d)"), "O3/T5-custom-jvp-wiring"),
        Variant("pow relative difference with hyperbolic sines, cosh in the denominator", T,
                sub(_POW_RD, "    d = 0.5*np.log(lam1/lam2)\n    return (lam1*lam2)**((m-1)/2)*np.sinh(m*d)/np.cosh(d)"), "O3/T5-custom-jvp-wiring"),
        Variant("pow relative difference with a rounded exponent of the prefactor", T, sub("    return lam_big**(m-1)*(arg**m - 1)/(arg - 1)", "    return lam_big**np.floor(m-1)*(arg**m - 1)/(arg - 1)"),
                "O3/T5-custom-jvp-wiring"),
        Variant("pow relative difference scaled by the small eigenvalue", T, sub("    return lam_big**(m-1)*(arg**m - 1)/(arg - 1)", "    return lam_small**(m-1)*(arg**m - 1)/(arg - 1)"),
                "O3/T5-custom-jvp-wiring"),
        Variant("exp relative difference about the midpoint (equivalent)", T, sub("    return np.exp(lam2)*np.expm1(arg)/arg", "    return np.exp(0.5*(lam1 + lam2))*np.sinh(0.5*arg)/(0.5*arg)"), None),
        Variant("exp relative difference about the midpoint with cosh", T, sub("    return np.exp(lam2)*np.expm1(arg)/arg", "    return np.exp(0.5*(lam1 + lam2))*np.cosh(0.5*arg)/(0.5*arg)"),
                "O3/T5-custom-jvp-wiring"),
        Variant("log relative difference without sorting (equivalent)", T, sub("    return (np.log1p(arg)/arg)/lams[i[1]]", "    return (np.log(lam1) - np.log(lam2))/(lam1 - lam2)"), None),
        Variant("log relative difference with log1p of the ratio", T, sub("    return (np.log1p(arg)/arg)/lams[i[1]]", "    return (np.log1p(arg + 1)/arg)/lams[i[1]]"), "O3/T5-custom-jvp-wiring"),
        Variant("N + unit wrapper fills the record the wrong way round", T, multi(REF_N_TM + [("    return EigenPairs(evals, evecs)", "    return EigenPairs(evecs, evals)")]), "O2/T9-eigen-roles"),
        Variant("N + record of the solver permutes rows", T, multi(REF_N_TM + [("    return EigenPairs(values=evals[idx], vectors=evecs[:,idx])", "    return EigenPairs(values=evals[idx], vectors=evecs[idx,:])")]),
                "O2/T9-eigen-roles"),
        Variant("refactoring K (rules decompose, helper receives (lam, V))", T, multi(REF_K_TM), None),
        Variant("refactoring L (dict dispatch of scalar function and relative difference)", T, multi(REF_L_TM), None),
        Variant("refactoring M (rule object with methods)", T, multi(REF_M_TM), None),
        Variant("K + rule decomposes the tangent", T, multi(REF_K_TM + [("_exp_relative_difference, eigen_sym33_unit(primals[0]), tangents[0])", "_exp_relative_difference, eigen_sym33_unit(tangents[0]), primals[0])")]),
                "O3/T5-custom-jvp-wiring"),
        Variant("K + divided difference pair mixed up", T, multi(REF_K_TM + [("    h31 = rd(lam[2], lam[0])", "    h31 = rd(lam[2], lam[1])")]), "O3/T5-custom-jvp-wiring"),
        Variant("L + exp rule looks up the logarithm", T, multi(REF_L_TM + [('    return primal_out, _spectral_tangent("exp", primals, tangents)', '    return primal_out, _spectral_tangent("log", primals, tangents)')]),
                "O3/T5-custom-jvp-wiring"),
        Variant("M + method switches with a tolerance", T, multi(REF_M_TM + [("        return np.where(x2 == x1, self.derivative()(x1), self.relative_difference(x1, x2_safe))",
                                                                                "        return np.where(np.abs(x2 - x1) < 1e-12, self.derivative()(x1), self.relative_difference(x1, x2_safe))")]),
                "O3/T5-custom-jvp-wiring"),
        Variant("detpIm1 misses I2", T, sub("    return trace(A) + I2(A) + det(A)", "    return trace(A) + det(A)"), "O1/T7-helper-identities"),
        Variant("inv cofactor", T, sub("invA21 = A[0, 1]*A[2, 0] - A[0, 0]*A[2, 1]", "invA21 = A[0, 1]*A[2, 0] - A[0, 0]*A[1, 2]"), "O1/T7-helper-identities"),
        Variant("det sign", T, sub_in_func("det", "- A[0, 0]*A[1, 2]*A[2, 1]", "+ A[0, 0]*A[1, 2]*A[2, 1]"), "O1/T7-helper-identities"),
        Variant("deviator /2", T, sub_in_func("deviator", "(dil/3)", "(dil/2)"), "O1/T7-helper-identities"),
        Variant("V.T diag V", T, sub("    return V@np.diag(func(lam))@V.T", "    return V.T@np.diag(func(lam))@V"), "O2/T9-eigen-roles"),
        Variant("permute rows", T, sub("    return evals[idx],evecs[:,idx]", "    return evals[idx],evecs[idx,:]"), "O2/T9-eigen-roles"),
        Variant("eigenvalues unsorted", T, sub("    idx = np.argsort(evals)\n", "    idx = np.arange(3)\n"), "O2/T9-eigen-roles"),
        Variant("eigenvalues rescaled by inverse", T, sub("    evals = cmax*evals", "    evals = cmaxInv*evals"), "O2/T9-eigen-roles"),
        Variant("columns normalised by first column", T, sub("    evec1 = evecs[:,1]/np.linalg.norm(evecs[:,1])", "    evec1 = evecs[:,1]/np.linalg.norm(evecs[:,0])"), "O2/T9-eigen-roles"),
        Variant("vectors swapped", T, sub("    evecs = np.column_stack((evec0,evec1,evec2))\n\n    #idx", "    evecs = np.column_stack((evec1,evec0,evec2))\n\n    #idx"), "O2/T9-eigen-roles"),
        Variant("primal recomputed in jvp", T, sub_in_func("_exp_symm_jvp", "    primal_out = exp_symm(*primals)", "    primal_out = symmetric_matrix_function(primals[0], np.exp)"), "O3/T5-custom-jvp-wiring"),
        Variant("tangent of a different scalar function", T, sub_in_func("_log_symm_jvp", "_symmetric_matrix_function_jvp_helper(np.log,", "_symmetric_matrix_function_jvp_helper(np.log1p,"), "O3/T5-custom-jvp-wiring"),
        Variant("no derivative fallback", T, sub("        return np.where(x2 == x1, df(x1), relative_difference(x1, x2_safe))", "        return relative_difference(x1, x2_safe)"), "O3/T5-custom-jvp-wiring"),
        Variant("sqrt relative difference", T, sub("    return 1/(np.sqrt(lam1) + np.sqrt(lam2))", "    return 1/(np.sqrt(lam1) - np.sqrt(lam2))"), "O3/T7-relative-differences"),
        Variant("exp relative difference", T, sub("    return np.exp(lam2)*np.expm1(arg)/arg", "    return np.exp(lam1)*np.expm1(arg)/arg"), "O3/T7-relative-differences"),
        Variant("DB update coefficient", "optimism/LinAlg.py", sub("        M = 0.5 * (I + 0.5 * (M + N))", "        M = 0.5 * (I + 0.25 * (M + N))"), "O4/T7-denman-beavers-invariant"),
        Variant("DB scaling applied once to M", "optimism/LinAlg.py", sub("        M *= g * g", "        M *= g"), "O4/T7-denman-beavers-invariant"),
        Variant("DB scaling switch flipped", "optimism/LinAlg.py", sub("        g = np.where(diff >= scaleTol,", "        g = np.where(diff <= scaleTol,"), "O4/T2-scaling-switch"),
        Variant("pade numerator digit", T, sub("2.12714890259493060", "2.12714890259493960"), "O2/T7-trigonometric-root-table"),
        Variant("pade denominator coefficient", T, sub("0.603976798217196003", "0.603976798217190003"), "O2/T7-trigonometric-root-table"),
        Variant("taylor coefficient", T, sub("    seventh2 = 2.0 / 7.0", "    seventh2 = 2.0 / 6.0"), "O3/T7-relative-differences"),
        Variant("taylor power", T, sub("seventh2 * frac4 * frac2 + ninth2 * frac4 * frac4", "seventh2 * frac4 * frac2 + ninth2 * frac4 * frac2"), "O3/T7-relative-differences"),
        Variant("alpha-rename taylor", T, alpha_rename("_relative_log_difference_taylor"), None),
        Variant("tangent entry index slip", T, sub("    t12 = 0.5*(V[1].T@h@V[2] + V[2].T@h@V[1])", "    t12 = 0.5*(V[1].T@h@V[2] + V[2].T@h@V[0])"), "O3/T5-custom-jvp-wiring"),
        Variant("tangent rotated the wrong way", T, sub("    W = V.T@sym(Cdot)@V", "    W = V@sym(Cdot)@V.T"), "O3/T5-custom-jvp-wiring"),
        # equivalent program: h is symmetric and the assembled entries are symmetrised again, so sym() of the tangent is redundant
        Variant("tangent symmetrised only at assembly (equivalent)", T, sub("    W = V.T@sym(Cdot)@V", "    W = V.T@Cdot@V"), None),
        Variant("divided difference pair mixed up", T, sub("    h31 = rd(lam[2], lam[0])", "    h31 = rd(lam[2], lam[1])"), "O3/T5-custom-jvp-wiring"),
        Variant("fallback switch with tolerance", T, sub("        return np.where(x2 == x1, df(x1), relative_difference(x1, x2_safe))", "        return np.where(np.isclose(x1, x2), df(x1), relative_difference(x1, x2_safe))"), "O3/T5-custom-jvp-wiring"),
        Variant("alpha-rename jvp helper", T, alpha_rename("_symmetric_matrix_function_jvp_helper"), None),
        Variant("spherical threshold 1e-10", T, sub("    c2tol = (c1*c1)*(-1.0e-30)", "    c2tol = (c1*c1)*(-1.0e-10)"), "O2/T7-eigen-solver-algebra"),
        Variant("spherical threshold 1e-32 (equivalent)", T, sub("    c2tol = (c1*c1)*(-1.0e-30)", "    c2tol = (c1*c1)*(-1.0e-32)"), None),
        Variant("spherical threshold linear in the mean", T, sub("    c2tol = (c1*c1)*(-1.0e-30)", "    c2tol = c1*(-1.0e-30)"), "O2/T7-eigen-solver-algebra"),
        Variant("spherical threshold positive", T, sub("    c2tol = (c1*c1)*(-1.0e-30)", "    c2tol = (c1*c1)*(1.0e-30)"), "O2/T7-eigen-solver-algebra"),
        Variant("shift sign can be zero", T, sub("*np.where(b >= 0.0, 1.0, -1.0)", "*np.sign(b)"), "O2/T7-eigen-solver-algebra"),
        Variant("second invariant sign slip", T, sub("    c2 = cxx_cyy + cyy*czz + czz*cxx - cxy_cxy - cyz_cyz - czx_czx", "    c2 = cxx_cyy + cyy*czz + czz*cxx - cxy_cxy - cyz_cyz + czx_czx"), "O2/T7-eigen-solver-algebra"),
        Variant("third invariant term", T, sub("    c3 = cxx*cyz_cyz + cyy*czx_czx - 2.0*cxy*cyz*czx", "    c3 = cxx*cyz_cyz + cyy*czx_czx - 1.0*cxy*cyz*czx"), "O2/T7-eigen-solver-algebra"),
        Variant("cubic argument sign", T, sub("    rr = -0.5*c3*ThreeOverA*sqrtThreeOverA", "    rr = 0.5*c3*ThreeOverA*sqrtThreeOverA"), "O2/T7-eigen-solver-algebra"),
        Variant("mean over two", T, sub("    c1 = (cxx + cyy + czz)/(3.0)", "    c1 = (cxx + cyy + czz)/(2.0)"), "O2/T7-eigen-solver-algebra"),
        Variant("largest root without sign", T, sub("    two_cos_thd3 = 2.0*cos_thd3*np.sign(rr)", "    two_cos_thd3 = 2.0*cos_thd3"), "O2/T7-eigen-solver-algebra"),
        Variant("mean not added back to one root", T, sub("    eval1 = eval1 + c1\n", "    eval1 = eval1\n"), "O2/T7-eigen-solver-algebra"),
        Variant("second root from wrong sum", T, sub("    eval1 = rm2xx + rm2yy - eval0", "    eval1 = rm2xx - rm2yy - eval0"), "O2/T7-eigen-solver-algebra"),
        Variant("spherical branch returns zero", T, sub("    eval0 = if_then_else(c2lsmall_neg, eval0, c1)", "    eval0 = if_then_else(c2lsmall_neg, eval0, 0.0)"), "O2/T7-eigen-solver-algebra"),
        Variant("spherical vectors repeated", T, sub("    evec1 = if_then_else(c2lsmall_neg, evec1, np.array([0.0, 1.0, 0.0]))", "    evec1 = if_then_else(c2lsmall_neg, evec1, np.array([1.0, 0.0, 0.0]))"), "O2/T7-eigen-solver-algebra"),
        Variant("alpha-rename eigen_sym33_non_unit", T, alpha_rename("eigen_sym33_non_unit"), None),
        Variant("reformat", T, reformat(), None),
        # ---- row pivoting of the QR step (rules/C12_pivot.py): each of the three exclusive selections, read off the values
        Variant("pivot row takes a component of row 0 when row 1 is the largest (C10-m7 style)", T,
                sub("        +         if_then_else(k1_largest, crow1[2], 0.0) \\\n", "        +         if_then_else(k1_largest, crow0[2], 0.0) \\\n"), "O2/T7-eigen-solver-algebra"),
        Variant("pivot scale takes the norm of row 0 when row 1 is the largest", T,
                sub("                    + if_then_else(k1_largest, k1, 0.0) \\\n", "                    + if_then_else(k1_largest, k0, 0.0) \\\n"), "O2/T7-eigen-solver-algebra"),
        Variant("remaining rows: row 2 twice when row 0 is the pivot", T,
                sub("    row2 = np.array([row2_0, row2_1, row2_2])", "    row2 = np.where(k0_largest, crow2, crow0)"), "O2/T7-eigen-solver-algebra"),
        Variant("selections not exclusive on ties (k1_largest without the strict test)", T,
                sub("    k1_largest = k1gk2 & (~ k0gk1)", "    k1_largest = k1gk2 & (k0 <= k1)"), "O2/T7-eigen-solver-algebra"),
        Variant("rows selected as a whole (np.where on rows, nested for the pivot; equivalent)", T, multi([
            ("    k_row1 = np.array([k_row1_0, k_row1_1, k_row1_2])", "    k_row1 = np.where(k0_largest, crow0, np.where(k1_largest, crow1, crow2))"),
            ("    row2 = np.array([row2_0, row2_1, row2_2])", "    row2 = np.where(k0_largest, crow1, crow0)"),
            ("    row3 = np.array([row3_0, row3_1, row3_2])", "    row3 = np.where(~k2_largest, crow2, crow1)")]), None),
        Variant("pivot scale by a nested select (equivalent)", T,
                sub("    ki_ki = 1.0 / ( if_then_else(k0_largest, k0, 0.0)   \\\n                    + if_then_else(k1_largest, k1, 0.0) \\\n                    + if_then_else(k2_largest, k2, 0.0) )",
                    "    ki_ki = 1.0 / if_then_else(k0_largest, k0, if_then_else(k1_largest, k1, k2))"), None),
        # ---- further violating variants (roles found on values)
        Variant("values assembled in another order than the vectors", T, sub("    evals = np.array([eval0, eval1, eval2])", "    evals = np.array([eval1, eval0, eval2])"), "O2/T9-eigen-roles"),
        Variant("vectors stacked as rows", T, sub("    evecs = np.column_stack((evec0,evec1,evec2))\n\n    #idx", "    evecs = np.array([evec0,evec1,evec2])\n\n    #idx"), "O2/T9-eigen-roles"),
        Variant("descending sort", T, sub("    idx = np.argsort(evals)\n", "    idx = np.argsort(-evals)\n"), "O2/T9-eigen-roles"),
        Variant("values returned unsorted, vectors sorted", T, sub("    return evals[idx],evecs[:,idx]", "    return evals,evecs[:,idx]"), "O2/T9-eigen-roles"),
        Variant("spectral form without transpose", T, sub("    return V@np.diag(func(lam))@V.T", "    return V@np.diag(func(lam))@V"), "O2/T9-eigen-roles"),
        Variant("unit wrapper normalises a row", T, sub("    evec1 = evecs[:,1]/np.linalg.norm(evecs[:,1])", "    evec1 = evecs[1,:]/np.linalg.norm(evecs[1,:])"), "O2/T9-eigen-roles"),
        Variant("reciprocal of the norm not guarded", T, sub("    cmaxInv = if_then_else(cmax > 0.0, 1.0/cmax, 1.0)", "    cmaxInv = 1.0/cmax"), "O2/T9-eigen-roles"),
        Variant("scaled by the trace instead of a norm", T, sub("    cmax = np.linalg.norm(tensor, ord=np.inf)", "    cmax = trace(tensor)"), "O2/T9-eigen-roles"),
        Variant("solver called on the unscaled tensor", T, sub("    evals, evecs = eigen_sym33_non_unit(scaledTensor)", "    evals, evecs = eigen_sym33_non_unit(tensor)"), "O2/T9-eigen-roles"),
        Variant("helper gets tangents as primals", T, sub_in_func("_exp_symm_jvp", "primals, tangents)", "tangents, primals)", nth=1), "O3/T5-custom-jvp-wiring"),
        Variant("power rule differentiates another exponent", T, sub("_symmetric_matrix_function_jvp_helper(lambda x: np.power(x, m), lambda l1", "_symmetric_matrix_function_jvp_helper(lambda x: np.power(x, m - 1), lambda l1"), "O3/T5-custom-jvp-wiring"),
        Variant("safe_sqrt rule recomputes the primal", "optimism/Math.py", sub("    f = safe_sqrt(x)\n", "    f = np.sqrt(x)\n"), "O3/T5-custom-jvp-wiring"),
        Variant("fallback switch |gap| < 1e-8", T, sub("        return np.where(x2 == x1, df(x1), relative_difference(x1, x2_safe))", "        return np.where(np.abs(x2 - x1) < 1e-8, df(x1), relative_difference(x1, x2_safe))"), "O3/T5-custom-jvp-wiring"),
        Variant("sign of the third invariant", T, sub("    two_cos_thd3 = 2.0*cos_thd3*np.sign(rr)", "    two_cos_thd3 = 2.0*cos_thd3*np.sign(c3)"), "O2/T7-eigen-solver-algebra"),
        Variant("cubic argument not clipped", T, sub("    arg = np.minimum(abs(rr), 1.0)", "    arg = abs(rr)"), "O2/T7-eigen-solver-algebra"),
        Variant("cubic argument without absolute value", T, sub("    arg = np.minimum(abs(rr), 1.0)", "    arg = np.minimum(rr, 1.0)"), "O2/T7-eigen-solver-algebra"),
        Variant("half sum in the Wilkinson shift", T, sub("    b = 0.5*(rm2xx-rm2yy)", "    b = 0.5*(rm2xx+rm2yy)"), "O2/T7-eigen-solver-algebra"),
        Variant("radicand with a minus", T, sub("Math.safe_sqrt(b*b+rm2xy_rm2xy)", "Math.safe_sqrt(b*b-rm2xy_rm2xy)"), "O2/T7-eigen-solver-algebra"),
        Variant("second root with the wrong sign of the first", T, sub("    eval1 = rm2xx + rm2yy - eval0", "    eval1 = rm2xx + rm2yy + eval0"), "O2/T7-eigen-solver-algebra"),
        Variant("DB inverse of the iterate instead of the product", "optimism/LinAlg.py", sub("        N = np.linalg.inv(M)", "        N = np.linalg.inv(X)"), "O4/T7-denman-beavers-invariant"),
        Variant("DB scaling never switched off", "optimism/LinAlg.py", sub("        g = np.where(diff >= scaleTol,\n                     scaling(M),\n                     1.0)", "        g = scaling(M)"), "O4/T2-scaling-switch"),
        # ---- further preserving variants: whole-file refactorings (rules/C12_variants.py) and equivalent spellings
        Variant("refactoring A (helpers, vectorised idioms)", T, multi(REF_A_TM), None),
        Variant("refactoring B (negated tests, swapped branches)", T, multi(REF_B_TM), None),
        Variant("refactoring B (LinAlg)", "optimism/LinAlg.py", multi(REF_B_LA), None),
        Variant("refactoring C (temporaries, keywords, loops)", T, multi(REF_C_TM), None),
        Variant("refactoring C (LinAlg)", "optimism/LinAlg.py", multi(REF_C_LA), None),
        Variant("refactoring D (matrix form, einsum / cross helpers)", T, multi(REF_D_TM), None),
        Variant("DB carry with the product in the first slot", "optimism/LinAlg.py", multi([
            ("        X, M, error, k, diff = loopData", "        M, X, error, k, diff = loopData"),
            ("        return (X, M, error, k, diff)", "        return (M, X, error, k, diff)"),
            ("    X,_,_,k,_ = jax.lax.while_loop(cond_f, body_f, loopData0)", "    _,X,_,k,_ = jax.lax.while_loop(cond_f, body_f, loopData0)")]), None),
        Variant("safe_sqrt rule with named branches and a temporary", "optimism/Math.py", multi([
            ("    df = v * lax.cond( x <= 0,\n                       lambda x: 0.,\n                       lambda x: 0.5/f,\n                       x )\n    return f, df",
             "    def flat(_):\n        return 0.\n\n    def slope(_):\n        return 0.5/f\n\n    rate = lax.cond(x <= 0, flat, slope, x)\n    return f, rate*v")]), None),
        Variant("guard clauses, assertions and index access instead of unpacking", T, multi([
            ("def eigen_sym33_unit(tensor):\n    cmax = np.linalg.norm(tensor, ord=np.inf)",
             "def eigen_sym33_unit(tensor):\n    if tensor.shape != (3, 3):\n        raise ValueError(\"eigen_sym33_unit expects a 3x3 tensor\")\n    cmax = np.linalg.norm(tensor, ord=np.inf)"),
            ("    lam, V = eigen_sym33_unit(A)\n    return V@np.diag(func(lam))@V.T",
             "    assert A.shape == (3, 3), \"3x3 tensors only\"\n    if not callable(func):\n        raise TypeError(\"func must be callable\")\n"
             "    decomposition = eigen_sym33_unit(A)\n    lam = decomposition[0]\n    V = decomposition[1]\n    spectrum = np.diag(func(lam))\n    return V@spectrum@V.T"),
            ("    C, = primals\n    Cdot, = tangents\n",
             "    if len(primals) != 1 or len(tangents) != 1:\n        raise ValueError(\"matrix functions of one argument only\")\n    C = primals[0]\n    Cdot = tangents[0]\n")]), None),
        Variant("explicit row-sum norm, conditions collected in boolean arrays", T, multi([
            ("    cmax = np.linalg.norm(tensor, ord=np.inf)", "    cmax = np.max(np.sum(np.abs(tensor), axis=1))"),
            ("    both_zero = rm2xx2iszero & rm2xy_rm2xyiszero", "    both_zero = np.all(np.array([rm2xx2iszero, rm2xy_rm2xyiszero]))"),
            ("    k0_largest = k0gk1 & k0gk2", "    k0_largest = np.array([k0gk1, k0gk2], dtype=bool).all()")]), None),
        Variant("clamp written with sqrt of the square and clip", T, sub("    arg = np.minimum(abs(rr), 1.0)", "    arg = np.clip(np.sqrt(rr*rr), 0.0, 1.0)"), None),
        Variant("private tangent helper renamed", T, lambda src: src.replace("_symmetric_matrix_function_jvp_helper", "_smf_tangent"), None),
        Variant("guard written as a difference", T, sub("    c2lsmall_neg = c2 < c2tol", "    c2lsmall_neg = c2 - c2tol < 0.0"), None),
        Variant("guard with both sides negated", T, sub("    c2lsmall_neg = c2 < c2tol", "    c2lsmall_neg = -c2 > -c2tol"), None),
        Variant("sign of minus the third invariant (equivalent)", T, sub("    two_cos_thd3 = 2.0*cos_thd3*np.sign(rr)", "    two_cos_thd3 = 2.0*cos_thd3*np.where(rr < 0.0, -1.0, 1.0)"), None),
        Variant("frobenius norm in the unit wrapper (equivalent role)", T, sub("    cmax = np.linalg.norm(tensor, ord=np.inf)", "    cmax = np.linalg.norm(tensor)"), None),
        Variant("vectors as rows then transposed (equivalent)", T, sub("    evecs = np.column_stack((evec0,evec1,evec2))\n\n    #idx", "    evecs = np.array([evec0,evec1,evec2]).T\n\n    #idx"), None),
        Variant("sorted through the transpose (equivalent)", T, sub("    return evals[idx],evecs[:,idx]", "    return evals[idx],evecs.T[idx].T"), None),
    ]
