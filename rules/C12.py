"""C12 -- symmetric-tensor eigen-decomposition, functions and derivative rules (structure only).

  O1  closed-form helpers satisfy their defining polynomial identities for a generic symbolic matrix:
      det, trace, I2, detpIm1(A) = det(A+I)-1, inv(A)A = A inv(A) = I, deviator, sym/skw (rules/tensorid.py);
  O2  index spaces: symmetric_matrix_function is V diag(f(lam)) V^T with (lam, V) from the eigen solver
      (eigenvectors as columns); the eigen solver applies one sorting permutation to the eigenvalues and to
      the *column* axis of the eigenvectors, sorted ascending; eigen_sym33_unit scales the input by 1/max-norm,
      rescales the eigenvalues by the same max-norm and normalises each column by its own length;
  O3  derivative rules: every custom_jvp function has a registered rule whose primal output is computed by
      calling the decorated function (so higher derivatives attach) and whose tangent helper receives the same
      scalar function as the primal; the degenerate fallback of the divided difference uses the derivative;
      the relative-difference formulas equal (f(a)-f(b))/(a-b): proved for the square root (algebraic atoms),
      screened for counterexamples at sample points for exp / log / power (refutation only).
Not decided: accuracy over forty orders of magnitude, derivative accuracy near degeneracy, Denman-Beavers and
Pade convergence in LinAlg (numerical).
"""
from __future__ import annotations

import ast
import copy
import math
from fractions import Fraction

from optilint.model import dotted, FuncVal, ExtVal
from optilint.core import Incomplete
from optilint.expr import Algebra, NotPolynomial, feval
from .common import src, same, calls_in, const_value
from . import tensorid, eigenalg

LEVEL = "other"
RULE_TEXT = "obligations = (helper x polynomial identity) + (eigen-solver statement role) + (custom_jvp function x wiring clause) + relative-difference identities"
EXPLANATION = ("Polynomial identities of the closed-form 3x3 helpers on a generic symbolic matrix; index-space and permutation-role rules for "
               "the eigen solver and symmetric_matrix_function; custom_jvp protocol and primal/tangent scalar-function agreement; algebraic "
               "proof (sqrt) or sample-point refutation screen (exp/log/pow) of the divided-difference formulas. Floating-point accuracy "
               "claims of the property are not decided.")

TM = "optimism.TensorMath"


def run(ctx):
    ctx.need_module(TM)
    ctx.need_module("optimism.Math")
    ctx.guard(tensorid.run_identities, ctx, "O1/T7-helper-identities")
    ctx.guard(o2, ctx)
    ctx.guard(eigenalg.run, ctx, "O2/T7-eigen-solver-algebra", f"{TM}:eigen_sym33_non_unit")
    ctx.guard(trig_table, ctx)
    ctx.guard(jvp_wiring, ctx, "O3/T5-custom-jvp-wiring")
    ctx.guard(relative_differences, ctx)
    ctx.guard(log_taylor, ctx)
    ctx.guard(denman_beavers, ctx)
    ctx.trust("jax.custom_jvp protocol: rule(primals, tangents) -> (primal_out, tangent_out)")
    ctx.assume("eigenvalues of arguments of log/sqrt/power are positive")


def o2(ctx):
    rule = "O2/T9-eigen-roles"
    smf = ctx.need(f"{TM}:symmetric_matrix_function")
    a_, f_ = smf.params()
    st = [s for s in smf.node.body if isinstance(s, ast.Assign) and isinstance(s.targets[0], ast.Tuple)]
    ok = False
    shown = "?"
    if st and isinstance(st[0].value, ast.Call) and (dotted(st[0].value.func) or "").endswith("eigen_sym33_unit"):
        lam, V = [t.id for t in st[0].targets[0].elts]
        r = smf.returns()
        shown = src(r[0]) if r else "?"
        ok = len(r) == 1 and same(r[0], f"{V} @ np.diag({f_}({lam})) @ {V}.T") and same(st[0].value.args[0], a_)
    ctx.decide(rule, ok, smf, None, construct="symmetric_matrix_function=V.diag(f(lam)).V^T", detail=shown,
               bad_detail=f"symmetric_matrix_function returns `{shown}`; with eigenvectors as columns it must be V @ diag(f(lam)) @ V.T")
    nu = ctx.need(f"{TM}:eigen_sym33_non_unit")
    r = nu.returns()
    ok = False
    shown = src(r[0]) if r else "?"
    if r and isinstance(r[0], ast.Tuple) and len(r[0].elts) == 2:
        ev, vc = r[0].elts
        if isinstance(ev, ast.Subscript) and isinstance(vc, ast.Subscript) and isinstance(vc.slice, ast.Tuple) and len(vc.slice.elts) == 2:
            idx = src(ev.slice)
            ok = isinstance(vc.slice.elts[0], ast.Slice) and src(vc.slice.elts[1]) == idx
            # idx = argsort(evals) of the very array that is permuted
            for s in ast.walk(nu.node):
                if isinstance(s, ast.Assign) and src(s.targets[0]) == idx:
                    ok = ok and same(s.value, f"np.argsort({src(ev.value)})")
    ctx.decide(rule, ok, nu, r[0] if r else None, construct="sorting-permutation-on-values-and-columns", detail=shown,
               bad_detail=f"eigen solver returns `{shown}`; the ascending permutation argsort(evals) must index the eigenvalues and the COLUMN axis of the eigenvectors")
    # evals / evecs assembled in the same order, vectors as columns
    asm = {}
    for s in ast.walk(nu.node):
        if isinstance(s, ast.Assign) and isinstance(s.targets[0], ast.Name) and isinstance(s.value, ast.Call):
            d = (dotted(s.value.func) or "").split(".")[-1]
            if d == "column_stack" and s.value.args and isinstance(s.value.args[0], ast.Tuple):
                asm["vecs"] = (s, [src(e) for e in s.value.args[0].elts], d)
            if d == "array" and s.value.args and isinstance(s.value.args[0], ast.List) and s.targets[0].id == (src(r[0].elts[0].value) if r else ""):
                asm["vals"] = (s, [src(e) for e in s.value.args[0].elts], d)
    ok = "vecs" in asm and "vals" in asm and len(asm["vecs"][1]) == 3 and len(asm["vals"][1]) == 3
    if ok:
        # pairing by derivation, not by names: the root that does not depend on the shift radical (the trigonometric one) pairs with the
        # vector that does not; of the two deflated roots the second is computed from the first, and of the two remaining vectors the
        # second is the cross product of the other two.
        uses = {}
        for st_ in ast.walk(nu.node):
            tg = val_ = None
            if isinstance(st_, ast.Assign) and len(st_.targets) == 1 and isinstance(st_.targets[0], ast.Name):
                tg, val_ = st_.targets[0].id, st_.value
            elif isinstance(st_, ast.AugAssign) and isinstance(st_.target, ast.Name):
                tg, val_ = st_.target.id, st_.value
            if tg:
                uses.setdefault(tg, set()).update(n_.id for n_ in ast.walk(val_) if isinstance(n_, ast.Name) and n_.id != tg)

        def deps(nm):
            seen_, work_ = set(), [nm]
            while work_:
                x_ = work_.pop()
                for y_ in uses.get(x_, ()):
                    if y_ not in seen_:
                        seen_.add(y_)
                        work_.append(y_)
            return seen_
        shift = [st_.targets[0].id for st_ in ast.walk(nu.node) if isinstance(st_, ast.Assign) and isinstance(st_.value, ast.BinOp) and isinstance(st_.value.op, ast.Mult)
                 and any(isinstance(c_, ast.Call) and (dotted(c_.func) or "").split(".")[-1] in ("sqrt", "safe_sqrt") for c_ in (st_.value.left, st_.value.right))
                 and isinstance(st_.targets[0], ast.Name)]
        vals_, vecs_ = asm["vals"][1], asm["vecs"][1]
        if len(shift) == 1:
            T_ = shift[0]

            def roles(names):
                free = [x_ for x_ in names if T_ not in deps(x_)]
                rest = [x_ for x_ in names if x_ not in free]
                if len(free) != 1 or len(rest) != 2:
                    return None
                a_, b_ = rest
                if b_ in deps(a_) and a_ not in deps(b_):
                    a_, b_ = b_, a_
                elif not (a_ in deps(b_) and b_ not in deps(a_)):
                    return None
                return {"first": a_, "second": b_, "free": free[0]}
            rv, rw = roles(vals_), roles(vecs_)
            ok = rv is not None and rw is not None and all(vals_.index(rv[k_]) == vecs_.index(rw[k_]) for k_ in ("first", "second", "free"))
        else:
            ok = None
    ctx.decide(rule, ok, nu, asm.get("vecs", (None,))[0], construct="values-and-vectors-assembled-in-the-same-order",
               detail=f"evals = {asm.get('vals', (0, '?'))[1]}, evecs = column_stack({asm.get('vecs', (0, '?'))[1]})",
               bad_detail=f"eigenvalues {asm.get('vals', (0, '?'))[1]} and eigenvector columns {asm.get('vecs', (0, '?'))[1]} are assembled in different orders (or not as columns)")
    un = ctx.need(f"{TM}:eigen_sym33_unit")
    from .common import Unifier
    u = Unifier(un)
    t = un.params()[0]
    checks = [
        ("cmax", f"np.linalg.norm({t}, ord=np.inf)", "scale is the max norm of the input"),
        ("cmaxInv", "if_then_else(cmax > 0.0, 1.0 / cmax, 1.0)", "inverse scale guarded against zero"),
        ("scaledTensor", f"cmaxInv * {t}", "input scaled by the inverse scale"),
    ]
    for nm, want, what in checks:
        hit = u.assigns(want, target=nm)
        ctx.decide(rule, len(hit) == 1, un, hit[0] if hit else None, construct=f"unit:{nm}", detail=what,
                   bad_detail=f"eigen_sym33_unit: no unique definition `{nm} = {want}` (up to names of locals): {what} does not hold")
    tup = [s_ for s_ in un.node.body if isinstance(s_, ast.Assign) and isinstance(s_.targets[0], ast.Tuple)]
    ok = len(tup) == 1 and u.match(tup[0], ast.parse("evals, evecs = eigen_sym33_non_unit(scaledTensor)").body[0])
    ctx.decide(rule, ok, un, tup[0] if tup else None, construct="unit:solver-called-on-the-scaled-tensor", detail="(values, vectors) = eigen_sym33_non_unit(scaled tensor)",
               bad_detail="eigen_sym33_unit does not call the non-unit solver on the scaled tensor")
    # eigenvalues rescaled by the same factor; vectors normalised per column
    evs = u.assigns("cmax * evals", target="evals")
    ctx.decide(rule, len(evs) == 1, un, evs[0] if evs else None, construct="unit:eigenvalues-rescaled-by-the-same-factor", detail="evals = cmax*evals",
               bad_detail="eigenvalues are not rescaled by the max norm the input was divided by")
    cols = []
    for k in range(3):
        cols += u.assigns(f"evecs[:, {k}] / np.linalg.norm(evecs[:, {k}])", target=f"evec{k}")
    okc = len(cols) == 3
    ctx.decide(rule, okc, un, cols[0] if cols else None, construct="unit:columns-normalised-by-own-length", detail="evec_k = evecs[:,k]/|evecs[:,k]|",
               bad_detail="eigenvector columns are not each divided by their own length")
    cs = u.assigns("np.column_stack((evec0, evec1, evec2))", target="evecs") if okc else []
    ctx.decide(rule, len(cs) == 1, un, cs[0] if cs else None, construct="unit:normalised-columns-restacked-in-order", detail="column_stack((evec0, evec1, evec2))",
               bad_detail="normalised eigenvectors are not re-stacked as columns in the same order")
    rr = un.returns()
    ok = len(rr) == 1 and u.match(rr[0], "(evals, evecs)")
    ctx.decide(rule, ok, un, rr[0] if rr else None, construct="unit:returns-(values,vectors)", detail="(evals, evecs)", bad_detail=f"eigen_sym33_unit returns `{src(rr[0]) if rr else '?'}`")


def _fold(fn_node, env):
    """Exact rational constant folding of a straight-line scalar function (float literals read as written)."""
    env = dict(env)

    def fe(e):
        if isinstance(e, ast.Constant) and isinstance(e.value, (int, float)) and not isinstance(e.value, bool):
            return Fraction(repr(e.value)) if isinstance(e.value, float) else Fraction(e.value)
        if isinstance(e, ast.Name):
            return env[e.id]
        if isinstance(e, ast.UnaryOp) and isinstance(e.op, ast.USub):
            return -fe(e.operand)
        if isinstance(e, ast.BinOp):
            a, b = fe(e.left), fe(e.right)
            if isinstance(e.op, ast.Add):
                return a + b
            if isinstance(e.op, ast.Sub):
                return a - b
            if isinstance(e.op, ast.Mult):
                return a * b
            if isinstance(e.op, ast.Div):
                return a / b
            if isinstance(e.op, ast.Pow) and isinstance(e.right, ast.Constant) and isinstance(e.right.value, int):
                return a ** e.right.value
        raise NotPolynomial(src(e))
    for st in fn_node.body:
        if isinstance(st, ast.Assign) and isinstance(st.targets[0], ast.Name):
            env[st.targets[0].id] = fe(st.value)
        elif isinstance(st, ast.Return):
            return fe(st.value)
        elif isinstance(st, ast.Expr) and isinstance(st.value, ast.Constant):
            continue
        else:
            raise NotPolynomial(src(st)[:50])
    raise NotPolynomial("no return")


def trig_table(ctx):
    """The rational approximant of cos(acos(x)/3) is a table of literals: fold it exactly at x = k/1000 and check the
    defining identity 4c^3 - 3c = x on the branch c >= sqrt(3)/2 (the largest root of the depressed cubic)."""
    rule = "O2/T7-trigonometric-root-table"
    f = ctx.need(f"{TM}:cos_of_acos_divided_by_3")
    x = f.params()[0]
    worst, at, branch_ok = Fraction(0), None, True
    try:
        for k in range(0, 1001):
            xv = Fraction(k, 1000)
            c = _fold(f.node, {x: xv})
            r = abs(4 * c ** 3 - 3 * c - xv)
            if r > worst:
                worst, at = r, xv
            if c * c < Fraction(3, 4) - Fraction(1, 10 ** 13) or c > 1 + Fraction(1, 10 ** 13):
                branch_ok = False
        ok = worst <= Fraction(1, 10 ** 14) and branch_ok
    except (NotPolynomial, KeyError, ZeroDivisionError) as ex:
        ctx.undecided(rule, f, None, construct="cos(acos(x)/3):triple-angle-identity", detail=f"cannot fold the approximant: {ex}")
        return
    ctx.decide(rule, ok, f, None, construct="cos(acos(x)/3):triple-angle-identity",
               detail=f"max |4c^3-3c-x| over x=k/1000 is {float(worst):.2e} (<= 1e-14), c in [sqrt(3)/2, 1]",
               bad_detail=f"the literal coefficients do not approximate cos(acos(x)/3): |4c^3-3c-x| = {float(worst):.3e} at x = {at} "
                          f"(1e-14 allowed){'' if branch_ok else '; value leaves [sqrt(3)/2, 1], i.e. the wrong root of the cubic'}")


def log_taylor(ctx):
    """_relative_log_difference_taylor is (2/(a+b)) * sum_k f^(2k)/(2k+1), f = (a-b)/(a+b): exact coefficient check."""
    rule = "O3/T7-relative-differences"
    sc = ctx.repo.find(f"{TM}:_relative_log_difference_taylor")
    if sc is None:
        return
    ctx.touch(sc)
    a, b = sc.params()
    try:
        # find the name bound to (a-b)/(a+b)
        A = Algebra()
        env = {}
        fname = None
        for st in sc.node.body:
            if isinstance(st, ast.Assign) and isinstance(st.targets[0], ast.Name):
                A2 = Algebra(env=env)
                v = A2.lower(st.value)
                if fname is None and A.equal(v, A.lower(ast.parse(f"({a}-{b})/({a}+{b})", mode="eval").body)):
                    fname = st.targets[0].id
                    env[fname] = A.atom("@f")
                else:
                    env[st.targets[0].id] = v
        r = sc.returns()
        got = Algebra(env=env).lower(r[0])
        # got * (a+b) must be a polynomial in @f alone with coefficients 2/(2k+1) on even powers
        q = A.norm(got * A.lower(ast.parse(f"{a}+{b}", mode="eval").body))
        from .eigenalg import _as_poly
        from optilint.expr import simplify
        qp = _as_poly(simplify(q))
        ok = qp is not None and fname is not None
        order = 0
        if ok:
            for mono, c in qp.t.items():
                if any(k != "@f" for k, _ in mono):
                    ok = False
                    break
                e = mono[0][1] if mono else 0
                order = max(order, e)
                if e % 2 or c != Fraction(2, e + 1):
                    ok = False
            ok = ok and order >= 8 and len(qp.t) == order // 2 + 1
    except (NotPolynomial, IndexError):
        ok = None
        order = "?"
    ctx.decide(rule, ok, sc, None, construct="log:taylor-series-coefficients", detail=f"(a+b) * value == sum_(k<={order}/2) 2/(2k+1) f^(2k), f=(a-b)/(a+b)",
               bad_detail="_relative_log_difference_taylor is not the truncated series 2/(a+b) * (1 + f^2/3 + f^4/5 + ...) of (log a - log b)/(a - b)")


def denman_beavers(ctx):
    """Dense square root (LinAlg.sqrtm_dbp, product form of the Denman-Beavers iteration): for a scalar matrix A = a*I everything
    commutes, so one step of the loop body, interpreted on symbolic 1x1 data, must preserve the invariant M = X^2 / a (M = X A^-1 X)
    with and without determinantal scaling, and (X, M) = (sqrt a, 1) must be a fixed point: then the limit M -> I gives X^2 = A.
    The scaling switch must be ON while the relative change is above its threshold and OFF below (accepted idiom of Higham's algorithm)."""
    rule = "O4/T7-denman-beavers-invariant"
    import optilint.tensoreval as te
    from optilint.tensoreval import Interp, Dual, Arr, Env, EvalError, Raised, _A
    from optilint.expr import simplify
    LA = "optimism.LinAlg"
    mod = ctx.need_module(LA)
    sc = ctx.need(f"{LA}:sqrtm_dbp")
    wl = [c for c in ast.walk(sc.node) if isinstance(c, ast.Call) and (dotted(c.func) or "").endswith("while_loop") and len(c.args) == 3]
    if len(wl) != 1 or not isinstance(wl[0].args[1], ast.Name):
        ctx.undecided(rule, sc, None, construct="loop", detail="while_loop(cond, body, init) not found")
        return
    body = [c for c in sc.children if c.kind == "function" and c.name == wl[0].args[1].id]
    if not body:
        ctx.undecided(rule, sc, None, construct="loop", detail="loop body not found")
        return
    body = body[0]
    ctx.touch(body)
    for pol, lab in ((True, "scaled"), (False, "unscaled")):
        I = Interp(ctx.repo)
        I.policy = pol
        I.tolerant = True
        te.OPAQUE[0] = True
        try:
            a = Dual(_A.atom("a"))
            x = Dual(_A.atom("x"))
            I.positive.update({"a", "x"})
            env = Env(sc, I.module_env(mod))
            env.vars[sc.params()[0]] = Arr([a], (1, 1))
            for st in sc.node.body:
                if isinstance(st, (ast.Assign, ast.FunctionDef)):
                    try:
                        I.stmt(st, env)
                    except (EvalError, Raised):
                        pass
            X, M = Arr([x], (1, 1)), Arr([x * x / a], (1, 1))
            out = I.call(env.vars[body.name], [(X, M, Dual(_A.atom("err")), Dual(0), Dual(_A.atom("diff")))], {})
            X2, M2 = out[0], out[1]
            res = simplify(_A.norm(X2.data[0].a * X2.data[0].a / a.a - M2.data[0].a))
            ctx.decide(rule, _A.is_zero(res), body, None, construct=f"invariant-M=X^2/a[{lab}]", detail="one step maps (x, x^2/a) to (x', x'^2/a)",
                       bad_detail=f"with the scaling {'on' if pol else 'off'} one step of the Denman-Beavers loop maps (X, M = X^2/a) to a pair with "
                                  f"X'^2/a - M' = {res!r}: M -> I no longer implies X^2 = A")
            if not pol:
                s_ = Dual(_A.sqrt(a.a))
                out = I.call(env.vars[body.name], [(Arr([s_], (1, 1)), Arr([Dual(1)], (1, 1)), Dual(0), Dual(0), Dual(0))], {})
                okf = _A.equal(out[0].data[0].a, s_.a) and _A.equal(out[1].data[0].a, _A.const(1))
                ctx.decide(rule, okf, body, None, construct="fixed-point-(sqrt a, 1)", detail="(sqrt a, 1) is mapped to itself",
                           bad_detail=f"(X, M) = (sqrt a, 1) is mapped to ({out[0].data[0].a!r}, {out[1].data[0].a!r}): the square root is not a fixed point of the iteration")
        except (EvalError, Raised, KeyError, IndexError, TypeError, AttributeError) as ex:
            ctx.undecided(rule, body, None, construct=f"invariant-M=X^2/a[{lab}]", detail=f"cannot interpret the loop body on 1x1 data: {ex}")
        finally:
            te.OPAQUE[0] = False
    # scaling switch
    carry = None
    for st in body.node.body:
        if isinstance(st, ast.Assign) and isinstance(st.targets[0], ast.Tuple) and isinstance(st.value, ast.Name) and st.value.id == body.params()[0]:
            carry = [t.id if isinstance(t, ast.Name) else None for t in st.targets[0].elts]
    rets = body.returns()
    sw = [c for c in ast.walk(body.node) if isinstance(c, ast.Call) and (dotted(c.func) or "").split(".")[-1] in ("where", "if_then_else") and len(c.args) == 3]
    ok = False
    shown = "?"
    if carry and len(sw) == 1 and rets and isinstance(rets[0], ast.Tuple):
        c = sw[0]
        shown = src(c)
        cond = c.args[0]
        # the carried slot that holds the relative change: returned at the position of a quotient of two norms
        change = None
        for k, e in enumerate(rets[0].elts):
            if isinstance(e, ast.Name):
                for st in body.node.body:
                    if isinstance(st, ast.Assign) and isinstance(st.targets[0], ast.Name) and st.targets[0].id == e.id and isinstance(st.value, ast.BinOp) \
                            and isinstance(st.value.op, ast.Div) and "norm" in src(st.value.left) and "norm" in src(st.value.right):
                        change = carry[k] if k < len(carry) else None
        ok = isinstance(cond, ast.Compare) and len(cond.ops) == 1 and isinstance(cond.ops[0], (ast.GtE, ast.Gt)) and isinstance(cond.left, ast.Name) \
            and cond.left.id == change and isinstance(c.args[1], ast.Call) and const_value(c.args[2]) == 1.0
    ctx.decide("O4/T2-scaling-switch", ok, body, sw[0] if sw else None, construct="scaling-on-while-far-from-convergence", detail=shown,
               bad_detail=f"`{shown}`: the determinantal scaling must be applied while the relative change of X is at least the threshold and replaced by 1 below it; "
                          f"otherwise matrices of extreme magnitude exhaust the iteration cap (silently unconverged result) or the final quadratic phase is perturbed")


def _custom_jvp_functions(ctx, mname):
    m = ctx.need_module(mname)
    out = []
    for c in m.scope.children:
        if c.kind != "function":
            continue
        for d in c.node.decorator_list:
            vals = ctx.repo.resolve(d, m.scope)
            if any(isinstance(v, ExtVal) and v.name.endswith("custom_jvp") for v in vals):
                out.append(c)
    return m, out


def jvp_wiring(ctx, rule):
    n = 0
    for mname in (TM, "optimism.Math"):
        m, fns = _custom_jvp_functions(ctx, mname)
        rules = {}
        for c in m.scope.children:
            if c.kind == "function":
                for d in c.node.decorator_list:
                    if isinstance(d, ast.Attribute) and d.attr == "defjvp" and isinstance(d.value, ast.Name):
                        rules[d.value.id] = c
        for f in fns:
            n += 1
            r = rules.get(f.name)
            if r is None:
                ctx.refuted(rule, f, None, construct=f"{f.name}:has-rule", detail=f"{f.name} is decorated with custom_jvp but no @{f.name}.defjvp rule is registered")
                continue
            ctx.touch(r)
            # primal output computed by calling the decorated function
            prim_calls = [c for c in ast.walk(r.node) if isinstance(c, ast.Call) and isinstance(c.func, ast.Name) and c.func.id == f.name]
            rets = r.returns()
            okp = False
            if rets and isinstance(rets[0], ast.Tuple) and len(rets[0].elts) == 2 and prim_calls:
                first = rets[0].elts[0]
                if isinstance(first, ast.Call) and first in prim_calls:
                    okp = True
                elif isinstance(first, ast.Name):
                    for s in ast.walk(r.node):
                        if isinstance(s, ast.Assign) and src(s.targets[0]) == first.id and s.value in prim_calls:
                            okp = True
            ctx.decide(rule, okp, r, rets[0] if rets else None, construct=f"{f.name}:primal-out-calls-decorated-function",
                       detail=f"primal output = {f.name}(...)",
                       bad_detail=f"the JVP rule of {f.name} does not compute its primal output by calling {f.name} itself: higher-order derivatives would bypass the custom rule")
            # scalar function agreement (TensorMath spectral functions)
            prim_smf = [c for c in ast.walk(f.node) if isinstance(c, ast.Call) and (dotted(c.func) or "").endswith("symmetric_matrix_function")]
            helper = [c for c in ast.walk(r.node) if isinstance(c, ast.Call) and (dotted(c.func) or "").endswith("_symmetric_matrix_function_jvp_helper")]
            if prim_smf:
                # locals of the rule that are unpacked from `primals` stand for the primal function's parameters (by position)
                ren = {}
                rp = r.params()[0] if r.params() else None
                for st_ in r.node.body:
                    if isinstance(st_, ast.Assign) and isinstance(st_.targets[0], ast.Tuple) and isinstance(st_.value, ast.Name) and st_.value.id == rp:
                        for t_, p_ in zip(st_.targets[0].elts, f.params()):
                            if isinstance(t_, ast.Name):
                                ren[t_.id] = p_

                class _Ren(ast.NodeTransformer):
                    def visit_Name(self, n_):
                        return ast.copy_location(ast.Name(id=ren.get(n_.id, n_.id), ctx=n_.ctx), n_)
                harg = _Ren().visit(copy.deepcopy(helper[0].args[0])) if len(helper) == 1 else None
                ok = len(helper) == 1 and len(prim_smf) == 1 and same(harg, prim_smf[0].args[1])
                ctx.decide(rule, ok, r, helper[0] if helper else None, construct=f"{f.name}:tangent-uses-the-primal-scalar-function",
                           detail=f"both use {src(prim_smf[0].args[1])}",
                           bad_detail=f"primal of {f.name} applies `{src(prim_smf[0].args[1])}` to the eigenvalues but its tangent rule differentiates "
                                      f"`{src(helper[0].args[0]) if helper else '?'}`")
    if n < 5:
        raise Incomplete(f"{n} custom_jvp functions found (5 expected)")
    helper_rules(ctx, rule)


def helper_rules(ctx, rule):
    """The shared tangent helper, interpreted on generic symbolic data: eigenvalues l0..l2, a generic matrix V in place of the
    eigenvectors, a generic tangent, f(x) = x^3 with exact divided difference x^2+xy+y^2.  The result must be the Daleckii-Krein
    form V (h o (V^T sym(Cdot) V)) V^T with h_ii = f'(l_i), h_ij = divided difference (distinct) or f' (equal eigenvalues)."""
    from optilint.tensoreval import Interp, Dual, Arr, PyFunc, EvalError, Raised, matmul, _A
    from . import materials as mt
    h = ctx.need(f"{TM}:_symmetric_matrix_function_jvp_helper")
    mod = ctx.need_module(TM)
    hp = h.params()
    # 1. exact-equality switch (accepted idiom: where(a == b, f'(a), reldiff(a, b_safe)) on the two arguments of the nested function)
    nested = [c for c in h.children if c.kind == "function" and any(isinstance(n, ast.Name) and n.id == hp[1] for n in ast.walk(c.node))]
    ok = False
    shown = "?"
    if len(nested) == 1:
        rd = nested[0]
        ps = rd.params()
        rr = rd.returns()
        if len(rr) == 1 and isinstance(rr[0], ast.Call) and (dotted(rr[0].func) or "").split(".")[-1] in ("where", "if_then_else") and len(rr[0].args) == 3:
            cond, a, b = rr[0].args
            shown = src(cond)
            ok = isinstance(cond, ast.Compare) and len(cond.ops) == 1 and isinstance(cond.ops[0], ast.Eq) and \
                {src(cond.left), src(cond.comparators[0])} == set(ps) and \
                any(isinstance(n, ast.Name) and n.id == hp[1] for n in ast.walk(b)) and not any(isinstance(n, ast.Name) and n.id == hp[1] for n in ast.walk(a))
    ctx.decide(rule, ok, h, nested[0].node if nested else None, construct="helper:degenerate-fallback-is-derivative",
               detail="where(a == b, f'(a), reldiff(a, b_safe)): exact equality selects the derivative",
               bad_detail=f"the divided difference does not fall back to the derivative exactly at equal eigenvalues (switch condition `{shown}`; "
                          f"the relative-difference formulas are exact for every non-zero gap, so any other switch replaces them by f' where they differ)")
    # 2. assembly, by interpretation
    V = tensorid.generic("v")
    Cd = tensorid.generic("c")
    cube = PyFunc("cube", lambda it, a, k: (lambda x: x * x * x)(it.num(a[0])))
    dd = PyFunc("dd", lambda it, a, k: (lambda x, y: x * x + x * y + y * y)(it.num(a[0]), it.num(a[1])))
    three = Dual(3)

    def expected(l):
        hh = [[None] * 3 for _ in range(3)]
        for i_ in range(3):
            for j_ in range(3):
                if i_ == j_ or _A.equal(l[i_].a, l[j_].a):
                    hh[i_][j_] = three * l[i_] * l[i_]
                else:
                    hh[i_][j_] = l[i_] * l[i_] + l[i_] * l[j_] + l[j_] * l[j_]
        S = Cd.zip(Cd.T(), lambda x, y: (x + y) * Dual(Fraction(1, 2)))
        W = matmul(matmul(V.T(), S), V)
        HW = Arr([hh[i_][j_] * W.data[i_ * 3 + j_] for i_ in range(3) for j_ in range(3)], (3, 3))
        return matmul(matmul(V, HW), V.T())
    cases = [("distinct", ("l0", "l1", "l2")), ("double", ("l0", "l0", "l2")), ("triple", ("l0", "l0", "l0"))]
    for cname, names in cases:
        lam = [Dual(_A.atom(n)) for n in names]
        I = mt.make_interp(ctx.repo)
        I.special[f"{TM}:eigen_sym33_unit"] = lambda interp, args, kw, lam=lam: (Arr(list(lam), (3,)), V)
        I.policy = False     # symbols with different names denote different eigenvalues
        try:
            out = I.call(I.module_value(mod, h.name), [cube, dd, (Cd,), (Cd,)], {})
            want = expected(lam)
            bad = [(i_, j_) for i_ in range(3) for j_ in range(3) if not _A.equal(out.data[i_ * 3 + j_].a, want.data[i_ * 3 + j_].a)] \
                if isinstance(out, Arr) and out.shape == (3, 3) else "shape"
            ctx.decide(rule, not bad, h, None, construct=f"helper:daleckii-krein-assembly:{cname}",
                       detail=f"tangent == V (h o V^T sym(Cdot) V) V^T for generic V, Cdot and {cname} eigenvalues (f = x^3)",
                       bad_detail=f"for {cname} eigenvalues the tangent differs from V (h o V^T sym(Cdot) V) V^T in entries {bad} "
                                  f"(generic V, generic Cdot, f(x) = x^3 with its exact divided difference)")
        except (EvalError, Raised, KeyError, IndexError, TypeError, ZeroDivisionError, AttributeError) as ex:
            ctx.undecided(rule, h, None, construct=f"helper:daleckii-krein-assembly:{cname}", detail=f"cannot interpret the helper on generic data: {ex}")


def relative_differences(ctx):
    rule = "O3/T7-relative-differences"
    sq = ctx.need(f"{TM}:_sqrt_relative_difference")
    r = sq.returns()
    A = Algebra()
    a, b = sq.params()
    try:
        got = A.lower(r[0])
        sa, sb = A.sqrt(A.atom(a)), A.sqrt(A.atom(b))
        ok = A.equal(A.norm(got * (A.atom(a) - A.atom(b))), A.norm(sa - sb))
    except (NotPolynomial, IndexError):
        ok = None
    ctx.decide(rule, ok, sq, r[0] if r else None, construct="sqrt:(sqrt a - sqrt b)/(a-b)", detail="1/(sqrt a + sqrt b) times (a - b) equals sqrt a - sqrt b",
               bad_detail=f"_sqrt_relative_difference `{src(r[0]) if r else '?'}` is not (sqrt(a)-sqrt(b))/(a-b)")
    # refutation-only screens
    screens = [("_exp_relative_difference", lambda x: math.exp(x), [(0.3, -0.2), (1.5, 1.2), (-2.0, 0.5)], {}),
               ("_relative_log_difference_no_tolerance_check", lambda x: math.log(x), [(2.0, 0.5), (1.2, 1.1), (0.3, 3.0)], {}),
               ("_relative_log_difference_taylor", lambda x: math.log(x), [(1.0, 1.01), (2.0, 2.02)], {"tol": 1e-8})]
    n_ok = 0
    for fname, f, pts, opt in screens:
        sc = ctx.repo.find(f"{TM}:{fname}")
        if sc is None:
            continue
        ctx.touch(sc)
        rr = sc.returns()
        if len(rr) != 1:
            continue
        env_names = sc.params()
        bad = None
        try:
            # inline simple local assignments
            env_expr = {}
            for s in sc.node.body:
                if isinstance(s, ast.Assign) and isinstance(s.targets[0], ast.Name):
                    env_expr[s.targets[0].id] = s.value
            def val(e, env):
                class Sub(ast.NodeTransformer):
                    def visit_Name(self, n):
                        if n.id in env_expr and n.id not in env:
                            return self.visit(copy.deepcopy(env_expr[n.id]))
                        return n
                e2 = Sub().visit(copy.deepcopy(e))
                return feval(e2, env)
            for (x1, x2) in pts:
                got = val(rr[0], {env_names[0]: x1, env_names[1]: x2})
                want = (f(x1) - f(x2)) / (x1 - x2)
                if abs(got - want) > opt.get("tol", 1e-10) * max(1.0, abs(want)):
                    bad = (x1, x2, got, want)
                    break
        except (NotPolynomial, KeyError, TypeError, ZeroDivisionError, ValueError):
            continue
        if bad:
            ctx.refuted(rule, sc, rr[0], construct=f"{fname}:divided-difference",
                        detail=f"{fname}({bad[0]}, {bad[1]}) evaluates to {bad[2]:.12g} but (f(a)-f(b))/(a-b) = {bad[3]:.12g}")
        else:
            n_ok += 1
    ctx.notes.append(f"refutation-only screen of transcendental divided-difference formulas: {n_ok} formula(s) sampled, no counterexample (not a proof)")


def variants(repo):
    from optilint.selftest import Variant, sub, sub_in_func, alpha_rename, reformat
    T = "optimism/TensorMath.py"
    return [
        Variant("detpIm1 misses I2", T, sub("    return trace(A) + I2(A) + det(A)", "    return trace(A) + det(A)"), "O1/T7-helper-identities"),
        Variant("inv cofactor", T, sub("invA21 = A[0, 1]*A[2, 0] - A[0, 0]*A[2, 1]", "invA21 = A[0, 1]*A[2, 0] - A[0, 0]*A[1, 2]"), "O1/T7-helper-identities"),
        Variant("det sign", T, sub_in_func("det", "- A[0, 0]*A[1, 2]*A[2, 1]", "+ A[0, 0]*A[1, 2]*A[2, 1]"), "O1/T7-helper-identities"),
        Variant("deviator /2", T, sub_in_func("deviator", "(dil/3)", "(dil/2)"), "O1/T7-helper-identities"),
        Variant("V.T diag V", T, sub("    return V@np.diag(func(lam))@V.T", "    return V.T@np.diag(func(lam))@V"), "O2/T9-eigen-roles"),
        Variant("permute rows", T, sub("    return evals[idx],evecs[:,idx]", "    return evals[idx],evecs[idx,:]"), "O2/T9-eigen-roles"),
        Variant("eigenvalues unsorted", T, sub("    idx = np.argsort(evals)\n", "    idx = np.arange(3)\n"), "O2/T9-eigen-roles"),
        Variant("eigenvalues rescaled by inverse", T, sub("    evals = cmax*evals", "    evals = cmaxInv*evals"), "O2/T9-eigen-roles"),
        Variant("columns normalised by first column", T, sub("    evec1 = evecs[:,1]/np.linalg.norm(evecs[:,1])", "    evec1 = evecs[:,1]/np.linalg.norm(evecs[:,0])"), "O2/T9-eigen-roles"),
        Variant("vectors swapped", T, sub("    evecs = np.column_stack((evec0,evec1,evec2))\n\n    #idx", "    evecs = np.column_stack((evec1,evec0,evec2))\n\n    #idx"), "O2/T9-eigen-roles"),
        Variant("primal recomputed in jvp", T, sub_in_func("_exp_symm_jvp", "    primal_out = exp_symm(*primals)", "    primal_out = symmetric_matrix_function(primals[0], np.exp)"), "O3/T5-custom-jvp-wiring"),
        Variant("tangent of a different scalar function", T, sub_in_func("_log_symm_jvp", "_symmetric_matrix_function_jvp_helper(np.log,", "_symmetric_matrix_function_jvp_helper(np.log1p,"), "O3/T5-custom-jvp-wiring"),
        Variant("no derivative fallback", T, sub("        return np.where(x2 == x1, df(x1), relative_difference(x1, x2_safe))", "        return relative_difference(x1, x2_safe)"), "O3/T5-custom-jvp-wiring"),
        Variant("sqrt relative difference", T, sub("    return 1/(np.sqrt(lam1) + np.sqrt(lam2))", "    return 1/(np.sqrt(lam1) - np.sqrt(lam2))"), "O3/T7-relative-differences"),
        Variant("exp relative difference", T, sub("    return np.exp(lam2)*np.expm1(arg)/arg", "    return np.exp(lam1)*np.expm1(arg)/arg"), "O3/T7-relative-differences"),
        Variant("DB update coefficient", "optimism/LinAlg.py", sub("        M = 0.5 * (I + 0.5 * (M + N))", "        M = 0.5 * (I + 0.25 * (M + N))"), "O4/T7-denman-beavers-invariant"),
        Variant("DB scaling applied once to M", "optimism/LinAlg.py", sub("        M *= g * g", "        M *= g"), "O4/T7-denman-beavers-invariant"),
        Variant("DB scaling switch flipped", "optimism/LinAlg.py", sub("        g = np.where(diff >= scaleTol,", "        g = np.where(diff <= scaleTol,"), "O4/T2-scaling-switch"),
        Variant("pade numerator digit", T, sub("2.12714890259493060", "2.12714890259493960"), "O2/T7-trigonometric-root-table"),
        Variant("pade denominator coefficient", T, sub("0.603976798217196003", "0.603976798217190003"), "O2/T7-trigonometric-root-table"),
        Variant("taylor coefficient", T, sub("    seventh2 = 2.0 / 7.0", "    seventh2 = 2.0 / 6.0"), "O3/T7-relative-differences"),
        Variant("taylor power", T, sub("seventh2 * frac4 * frac2 + ninth2 * frac4 * frac4", "seventh2 * frac4 * frac2 + ninth2 * frac4 * frac2"), "O3/T7-relative-differences"),
        Variant("alpha-rename taylor", T, alpha_rename("_relative_log_difference_taylor"), None),
        Variant("tangent entry index slip", T, sub("    t12 = 0.5*(V[1].T@h@V[2] + V[2].T@h@V[1])", "    t12 = 0.5*(V[1].T@h@V[2] + V[2].T@h@V[0])"), "O3/T5-custom-jvp-wiring"),
        Variant("tangent rotated the wrong way", T, sub("    W = V.T@sym(Cdot)@V", "    W = V@sym(Cdot)@V.T"), "O3/T5-custom-jvp-wiring"),
        # equivalent program: h is symmetric and the assembled entries are symmetrised again, so sym() of the tangent is redundant
        Variant("tangent symmetrised only at assembly (equivalent)", T, sub("    W = V.T@sym(Cdot)@V", "    W = V.T@Cdot@V"), None),
        Variant("divided difference pair mixed up", T, sub("    h31 = rd(lam[2], lam[0])", "    h31 = rd(lam[2], lam[1])"), "O3/T5-custom-jvp-wiring"),
        Variant("fallback switch with tolerance", T, sub("        return np.where(x2 == x1, df(x1), relative_difference(x1, x2_safe))", "        return np.where(np.isclose(x1, x2), df(x1), relative_difference(x1, x2_safe))"), "O3/T5-custom-jvp-wiring"),
        Variant("alpha-rename jvp helper", T, alpha_rename("_symmetric_matrix_function_jvp_helper"), None),
        Variant("spherical threshold 1e-10", T, sub("    c2tol = (c1*c1)*(-1.0e-30)", "    c2tol = (c1*c1)*(-1.0e-10)"), "O2/T7-eigen-solver-algebra"),
        Variant("spherical threshold 1e-32 (equivalent)", T, sub("    c2tol = (c1*c1)*(-1.0e-30)", "    c2tol = (c1*c1)*(-1.0e-32)"), None),
        Variant("spherical threshold linear in the mean", T, sub("    c2tol = (c1*c1)*(-1.0e-30)", "    c2tol = c1*(-1.0e-30)"), "O2/T7-eigen-solver-algebra"),
        Variant("spherical threshold positive", T, sub("    c2tol = (c1*c1)*(-1.0e-30)", "    c2tol = (c1*c1)*(1.0e-30)"), "O2/T7-eigen-solver-algebra"),
        Variant("shift sign can be zero", T, sub("*np.where(b >= 0.0, 1.0, -1.0)", "*np.sign(b)"), "O2/T7-eigen-solver-algebra"),
        Variant("second invariant sign slip", T, sub("    c2 = cxx_cyy + cyy*czz + czz*cxx - cxy_cxy - cyz_cyz - czx_czx", "    c2 = cxx_cyy + cyy*czz + czz*cxx - cxy_cxy - cyz_cyz + czx_czx"), "O2/T7-eigen-solver-algebra"),
        Variant("third invariant term", T, sub("    c3 = cxx*cyz_cyz + cyy*czx_czx - 2.0*cxy*cyz*czx", "    c3 = cxx*cyz_cyz + cyy*czx_czx - 1.0*cxy*cyz*czx"), "O2/T7-eigen-solver-algebra"),
        Variant("cubic argument sign", T, sub("    rr = -0.5*c3*ThreeOverA*sqrtThreeOverA", "    rr = 0.5*c3*ThreeOverA*sqrtThreeOverA"), "O2/T7-eigen-solver-algebra"),
        Variant("mean over two", T, sub("    c1 = (cxx + cyy + czz)/(3.0)", "    c1 = (cxx + cyy + czz)/(2.0)"), "O2/T7-eigen-solver-algebra"),
        Variant("largest root without sign", T, sub("    two_cos_thd3 = 2.0*cos_thd3*np.sign(rr)", "    two_cos_thd3 = 2.0*cos_thd3"), "O2/T7-eigen-solver-algebra"),
        Variant("mean not added back to one root", T, sub("    eval1 = eval1 + c1\n", "    eval1 = eval1\n"), "O2/T7-eigen-solver-algebra"),
        Variant("second root from wrong sum", T, sub("    eval1 = rm2xx + rm2yy - eval0", "    eval1 = rm2xx - rm2yy - eval0"), "O2/T7-eigen-solver-algebra"),
        Variant("spherical branch returns zero", T, sub("    eval0 = if_then_else(c2lsmall_neg, eval0, c1)", "    eval0 = if_then_else(c2lsmall_neg, eval0, 0.0)"), "O2/T7-eigen-solver-algebra"),
        Variant("spherical vectors repeated", T, sub("    evec1 = if_then_else(c2lsmall_neg, evec1, np.array([0.0, 1.0, 0.0]))", "    evec1 = if_then_else(c2lsmall_neg, evec1, np.array([1.0, 0.0, 0.0]))"), "O2/T7-eigen-solver-algebra"),
        Variant("alpha-rename eigen_sym33_non_unit", T, alpha_rename("eigen_sym33_non_unit"), None),
        Variant("reformat", T, reformat(), None),
    ]
