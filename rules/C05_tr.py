"""Trust-region driver rules of C05 on top of the symbolic executor (rules/C05_sym.py).

Replaces, for the bound-constrained driver, the template rules of rules/trustregion.py (kept untouched: C01 uses them).  Every
obligation is a statement about *terms* (values as functions of the inputs and of the loop-head unknowns) and *path conditions*
recorded by the executor, never about the spelling of the source:

  D1  a success exit carries, in its path condition, an upper bound of the projected-gradient measure of the very point it
      returns by the tolerance (equal homogeneity degrees); the convergence test itself returns True only under such a bound;
  D2  where the iterate is replaced, the path condition bounds a quotient N/D from below by a non-negative threshold in every
      disjunct, D has a known sign there, and N is objective(old iterate) - objective(new iterate); the reference value carried
      across iterations is proved equal to objective(iterate) by induction over the loop (relational invariant);
  D3  every point handed back was reported through the callback (must-log along the path) or is the iterate state itself;
  D4  with every comparison on the quotient false (NaN) the acceptance is rejected and the radius update taken for hopeless
      steps (quotient -> -inf) is still taken;
  T6  the shape of the acceptance condition is the same in both trust-region drivers.

Roles are found on the terms: the iterate is the carried variable (or component `state.x` of a carried record) whose loop-head value
a return hands back; an *acceptance* is a replacement of it from which control can reach the head of the main loop again (CFG), a
replacement followed only by `break` / `return` is the hand-over of a final answer; the exits that can follow a replacement in the
same iteration are the returns reachable without passing the loop head.  Helpers without loops are followed in any module (the
load-step entry point is read interprocedurally: `objective.p = p` may sit in a helper of another module), functions with loops are
the opaque sub-solvers.  A verdict is REFUTED only when every term it is derived from is understood by the executor
(`C05_sym.understood`); a test / value / call this analysis cannot read gives UNDECIDED.
"""
from __future__ import annotations

import ast
from fractions import Fraction

from optilint.core import Incomplete
from optilint.expr import Poly
from . import C05_sym as S
from .C05_sym import T, mk, leaves, show, poly, num, term, alternatives, pc_scenarios, flatten, const_of, item, TRUE, FALSE


def has_loop(scope):
    return any(isinstance(n, (ast.While, ast.For)) for n in ast.walk(scope.node))


class DriverRun:
    """The driver executed with its sub-solvers (module functions that contain loops) kept opaque."""

    def __init__(self, ctx, module, func):
        self.ctx = ctx
        self.scope = ctx.need(f"{module}:{func}")
        self.module = module
        # helpers without loops are followed wherever they live (a helper moved to a shared module is still a helper); functions with
        # loops are the sub-solvers
        self.I = S.Interp(ctx, inline=lambda s: not has_loop(s) and not getattr(s.module, "is_test", False), max_depth=8)
        self.I.touch = "optimism.TrustRegionSPG"
        self.result, self.frame = self.I.run(self.scope, {})
        if self.I.notes:
            raise Incomplete(f"{func}: {self.I.notes[0]}")
        for i, e in enumerate(self.I.events):
            e["_i"] = i                 # program order of the final pass
        self.events = [e for e in self.I.events if e["frame"] == self.frame.id]
        # main loop: the outermost loop of the driver body
        recs = [r for r in self.I.loops.values() if r.frame == self.frame.id]
        outer = [r for r in recs if not any(o is not r and _contains(o.node, r.node) for o in recs)]
        if len(outer) != 1:
            raise Incomplete(f"{func}: {len(outer)} outermost loops (1 expected)")
        self.loop = outer[0]
        self.returns = [e for e in self.events if e["kind"] == "return"]
        # the iterate: the carried variable whose loop-head value is handed back by a return
        cands = []
        for k, h in self.loop.head.items():
            if not isinstance(k, str) or h.k not in ("phi", "phiF"):
                continue
            for r in self.returns:
                pt = _point_flag(r["value"])[0]
                if pt is not None and any(l.key == h.key for (_, l) in leaves(pt)):
                    if k not in cands:
                        cands.append(k)
        if len(cands) != 1:
            raise Incomplete(f"{func}: iterate variable not identified (candidates {cands})")
        self.iterate = cands[0]
        self.head_x = self.loop.head[self.iterate]
        # replacements of the iterate: one per case of an assigned value that differs from the value held before (an assignment
        # `x, g = helper(...)` whose value is `y if accepted else x` is a replacement under `accepted`)
        self.accepts = []
        for e in self.events:
            if e["kind"] != "assign" or e["name"] != self.iterate or not _contains(self.loop.node, e["node"]):
                continue
            old = e.get("old")
            cases = []
            for (cs, leaf) in leaves(e["value"]):
                o = old
                for (c, p) in cs:
                    if o is not None:
                        o = S.restrict(o, c, p)
                cases.append((cs, leaf, o, o is not None and o.key == leaf.key))
            if not any(same for (_, _, _, same) in cases):
                self.accepts.append(e)          # an unconditional assignment (guarded by the path condition only)
                continue
            for (cs, leaf, o, same) in cases:
                if same:
                    continue
                v = dict(e)
                v["value"], v["pc"], v["old"] = leaf, tuple(e["pc"]) + tuple(cs), o
                self.accepts.append(v)
        # a replacement whose path cannot reach the back edge of the main loop (it is followed by `break` / `return`) does not start
        # another iteration: it is the hand-over of a final answer (judged by the exit rules), not an acceptance of a step
        from optilint.cfg import cfg_of
        cfg = cfg_of(self.scope)
        head = cfg.node_for(self.loop.node)

        def leaves_loop(e):
            n = cfg.node_for(e["node"])
            return n is not None and head is not None and id(head) not in cfg.reachable_from(n)
        self.finals = [e for e in self.accepts if leaves_loop(e)]
        self.accepts = [e for e in self.accepts if not leaves_loop(e)]

        def same_iteration_exits(e):
            """return events that control can reach from the replacement without starting another iteration of the main loop"""
            n = cfg.node_for(e["node"])
            if n is None or head is None:
                return list(self.returns)
            reach = cfg.reachable_from(n, blocked=[head])
            return [r for r in self.returns if cfg.node_for(r["node"]) is not None and id(cfg.node_for(r["node"])) in reach]
        self.same_iteration_exits = same_iteration_exits
        if not self.accepts:
            raise Incomplete(f"{func}: the iterate `{self.iterate}` is never replaced inside the main loop")

    def iter_pc(self, ev):
        return ev["pc"][len(self.loop.entry_pc):]


def holds(c, want):
    """Three-valued value of condition c when the atomic conditions in `want` (key -> truth value) are known."""
    if c is TRUE:
        return True
    if c is FALSE:
        return False
    if c.key in want:
        return want[c.key]
    if c.k == "not":
        v = holds(c.a[0], want)
        return None if v is None else not v
    if c.k == "and":
        vs = [holds(x, want) for x in c.a[0]]
        return False if any(v is False for v in vs) else (True if all(v is True for v in vs) else None)
    if c.k == "or":
        vs = [holds(x, want) for x in c.a[0]]
        if any(v is True for v in vs):
            return True
        if all(v is False for v in vs):
            return False
        # x or not x
        ks = {x.key for x in c.a[0]}
        if any(x.k == "not" and x.a[0].key in ks for x in c.a[0]):
            return True
        return None
    if c.k == "bt":
        return holds(c.a[0], want)
    if c.k == "ite":
        vc = holds(c.a[0], want)
        if vc is True:
            return holds(S.truth(c.a[1]), want)
        if vc is False:
            return holds(S.truth(c.a[2]), want)
        va, vb = holds(S.truth(c.a[1]), want), holds(S.truth(c.a[2]), want)
        return va if va == vb else None
    return None


def contradicts(pc1, pc2):
    """Some condition of pc1 is decided the other way by the conditions pc2."""
    want = {}
    for (c0, p0) in pc2:
        want[c0.key] = p0
        for (c, p) in flatten(c0, p0):
            want[c.key] = p
    for (c0, p0) in pc1:
        for (c, p) in flatten(c0, p0):
            v = holds(c, want)
            if v is not None and v != p:
                return True
    return False


def _contains(outer, inner):
    return outer is not inner and any(n is inner for n in ast.walk(outer))


def _point_flag(v):
    """(point tree, flag tree) of a returned (point, flag) pair, (None, None) otherwise."""
    if v.k == "tup" and len(v.a[0]) == 2:
        return v.a[0][0], v.a[0][1]
    if v.k == "ite":
        ls = [l for (_, l) in leaves(v)]
        if all(l.k == "tup" and len(l.a[0]) == 2 for l in ls):
            return item(v, 0), item(v, 1)
    return None, None


def get_run(ctx, module, func) -> DriverRun:
    cache = ctx.__dict__.setdefault("_c05_runs", {})
    key = (module, func)
    if key not in cache:
        cache[key] = DriverRun(ctx, module, func)
    return cache[key]


# ------------------------------------------------------------------ the optimality measure

def pg_vector(v: T, P: T, objective: T, box):
    """Is v == +-(clamp(P - objective.gradient(P), lo, hi) - P) ?  -> (True / False / None, reason).  False only when v and P are fully
    understood terms (no value the executor has no model for): then the difference is a derived fact."""
    last = ""
    known = S.understood(v, P)
    for arg in (v, S.neg(v)):
        rest = S.add(arg, P)                       # must be the bare projection
        if rest.k != "clamp":
            last = last or f"`{S.brief(v, 100, 3)}` is not project(.) - (the returned point)"
            continue
        w, lo, hi = rest.a
        if box is not None and (lo.key != box[0].key or hi.key != box[1].key):
            comparable = all(b.k == "col" and isinstance(b.a[0], T) and box[0].k == "col" and b.a[0].key == box[0].a[0].key for b in (lo, hi))
            return (False if comparable and known else None), f"the projection in the measure uses the bounds `{show(lo)}`, `{show(hi)}`"
        g = S.sub(P, w)
        if not (g.k == "call" and g.a[0].k == "attr" and g.a[0].a[1] == "gradient" and len(g.a[1]) == 1 and g.a[1][0].key == P.key and not g.a[2]):
            return (False if known else None), f"the projected point is `{S.brief(w, 100, 3)}`, not (returned point) - gradient(returned point)"
        if objective is not None and g.a[0].a[0].key != objective.key:
            return (False if known else None), f"the gradient is taken from `{show(g.a[0].a[0])}`"
        return True, ""
    return (False if known else None), last


def measure_of(m: T, P: T, objective: T, box):
    """m == norm(v) (degree 1) or v@v (degree 2) of the projected-gradient vector v of P -> (True/False/None, reason, degree factor)"""
    if m.k == "norm":
        ok, why = pg_vector(m.a[0], P, objective, box)
        return ok, why, 1
    if m.k == "dot" and m.a[0].key == m.a[1].key:
        ok, why = pg_vector(m.a[0], P, objective, box)
        return ok, why, 2
    if m.k == "call" and m.a[0].k == "ext":
        # another norm-like library function of the right vector: not modelled
        for a in m.a[1]:
            for (_, l) in leaves(a):
                for cand in [l] + [term(k) for k in S.atoms_of(l)]:
                    if S.is_num(cand) and pg_vector(cand, P, objective, box)[0]:
                        return None, f"`{S.brief(m, 100, 3)}` is a library function of the projected gradient of the returned point that is not modelled", 1
    return (False if S.understood(m, P) else None), f"`{S.brief(m, 120, 3)}` is not a norm of project(y - gradient(y), bounds) - y", 1


def plain_gradient_measure(m: T, P: T, objective: T):
    """m is (the square of / the norm of) objective.gradient(P)."""
    g = None
    if m.k == "norm":
        g = m.a[0]
    elif m.k == "dot" and m.a[0].key == m.a[1].key:
        g = m.a[0]
    if g is None or not (g.k == "call" and g.a[0].k == "attr" and g.a[0].a[1] == "gradient" and len(g.a[1]) == 1 and g.a[1][0].key == P.key):
        return False
    return True


def _tol_bound(lit, pol):
    """literal `A < B` / `A <= B` (positively true) with B = c * tol**k  ->  (A term, degree k of tol, tol atom) else None"""
    if not pol or lit.k != "cmp" or lit.a[0] not in ("lt", "le"):
        return None
    A, B = lit.a[1], lit.a[2]
    pb = poly(B)
    tols = [a for a in pb.atoms() if term(a).k == "attr" and term(a).a[1] == "tol"]
    if len(tols) != 1 or len(pb.t) != 1:
        return None
    (m, c), = pb.t.items()
    if c <= 0 or len(m) != 1:
        return None
    return A, m[0][1], term(tols[0])


def _mentions_tol(lit):
    return any(term(a).k == "attr" and str(term(a).a[1]) == "tol" for a in S.atoms_of(lit))


def _mirror(lit):
    """`A < B` read from the other side (same comparison kind): used to recognise `c*tol**k <= A`, the negation of an upper bound"""
    if lit.k == "cmp" and lit.a[0] in ("lt", "le"):
        return mk("cmp", lit.a[0], lit.a[2], lit.a[1])
    return lit


def _single_power(A):
    """A = c * atom**k with c > 0 -> (atom term, k) else None"""
    if not S.is_num(A):
        return None
    p = poly(A)
    if len(p.t) != 1:
        return None
    (m, c), = p.t.items()
    if c <= 0 or len(m) != 1:
        return None
    return term(m[0][0]), m[0][1]


# ------------------------------------------------------------------ D1

def d1_flag(ctx, R: DriverRun, measure="projected-gradient"):
    rule = "D1/T1-guarded-success"
    sc = R.scope
    ps = sc.params()
    objective = mk("sym", ps[0])
    box = None
    if measure == "projected-gradient":
        bsym = mk("sym", ps[2])
        box = (S.col(bsym, 0), S.col(bsym, 1))
    n_success = 0
    for ev in R.returns:
        pt, flag = _point_flag(ev["value"])
        st = ev["node"]
        if pt is None:
            ctx.undecided(rule, sc, st, construct="return-shape", detail="return value is not a (point, flag) pair")
            continue
        verdicts = []
        for (fc, fl) in leaves(flag):
            if fl is FALSE:
                continue
            cv = const_of(fl)
            if fl.k == "const" and not fl.a[0] or (cv is not None and cv == 0):
                continue
            if fl is not TRUE and fl.k not in S.BOOL_KINDS:
                verdicts.append((None, f"success flag `{show(fl)}` is not a boolean expression"))
                continue
            pc = list(ev["pc"]) + list(fc) + ([(fl, True)] if fl is not TRUE else [])
            scen = pc_scenarios(pc)
            if not scen:
                continue
            for lits in scen:
                # the point returned in this scenario
                p = pt
                for (c, pol) in lits:
                    p = S.restrict(p, c, pol)
                pls = [l for (_, l) in leaves(p)]
                ok_all = True
                why = ""
                for P in pls:
                    found = False
                    partial = ""
                    unmodelled = ""
                    for (lit, pol) in lits:
                        tb = _tol_bound(lit, pol)
                        if tb is None:
                            continue
                        A, k, tol = tb
                        sp = _single_power(A)
                        if sp is None:
                            partial = f"tested quantity `{show(A)}` is not a power of one measure"
                            continue
                        m, km = sp
                        if measure == "projected-gradient":
                            mok, mwhy, fac = measure_of(m, P, objective, box)
                            km = km * fac
                        else:
                            mok, mwhy = plain_gradient_measure(m, P, objective), "not the gradient of the returned point"
                            km = km * (2 if m.k == "dot" else 1)
                        if mok is None:
                            unmodelled = mwhy or f"`{S.brief(m, 100, 3)}` is not understood"
                            continue
                        if not mok:
                            partial = f"tested quantity is `{S.brief(m, 140, 3)}`, not the optimality measure of the returned point `{S.brief(P, 70, 2)}` ({mwhy[:200]})"
                            continue
                        if km != k:
                            partial = f"measure**{km} is compared with tol**{k}"
                            continue
                        found = True
                        break
                    if not found:
                        ok_all = False
                        # a test this analysis cannot read (a call that was not opened, a value without a model, a comparison with
                        # the tolerance in a form that is not `measure**k < c*tol**k`) may be the convergence test: undecided
                        opaque_test = any(pol and lit.k == "truth" and lit.a[0].k == "call" for (lit, pol) in lits)
                        unread = [lit for (lit, pol) in lits if not S.understood(lit) or
                                  (_mentions_tol(lit) and _tol_bound(lit, True) is None and _tol_bound(_mirror(lit), True) is None)]
                        if unread and not unmodelled:
                            unmodelled = f"the test `{S.brief(unread[0], 100, 3)}` on the way to this exit is not understood"
                        if not S.understood(P) and not unmodelled:
                            unmodelled = f"the returned point `{S.brief(P, 100, 3)}` is not understood"
                        why = unmodelled or ("the convergence test could not be opened" if opaque_test else None) or partial or \
                            "this exit reports success but is not dominated by a successful convergence test"
                        verdicts.append((None if (unmodelled or opaque_test) else False, why))
                        break
                if ok_all:
                    verdicts.append((True, ""))
        label = f"return {_short(st)}"
        n_fail_cases = sum(1 for (_, fl) in leaves(flag) if fl is FALSE)
        for k in range(max(0, n_fail_cases - (0 if verdicts else 1))):
            ctx.proved(rule, sc, st, construct=f"{label} [failure case {k + 1}]", detail="failure exit reports False")
        if not verdicts:
            ctx.proved(rule, sc, st, construct=label, detail="failure exit reports False")
            continue
        n_success += 1
        bad = [w for (v, w) in verdicts if v is False]
        und = [w for (v, w) in verdicts if v is None]
        ctx.decide(rule, False if bad else (None if und else True), sc, st, construct=label,
                   detail="success exit: the path condition bounds the optimality measure of the returned point by the tolerance",
                   bad_detail="; ".join(dict.fromkeys(bad or und)))
        for k in range(sum(1 for (v, _) in verdicts if v is True) - 1 if not (bad or und) else 0):
            ctx.proved(rule, sc, st, construct=f"{label} [success case {k + 2}]",
                       detail="success exit: the path condition bounds the optimality measure of the returned point by the tolerance")
    if n_success < 1:
        ctx.undecided(rule, sc, None, construct="success-exits", detail="no success exit found")


def _short(st):
    try:
        return ast.unparse(st.value)[:60] if isinstance(st, ast.Return) and st.value is not None else ast.unparse(st)[:60]
    except Exception:
        return "?"


def d1_conv(ctx, module, func="is_converged"):
    """The convergence test on symbolic inputs: it answers True only under `measure**k < c * settings.tol**k` (a positively true
    comparison: a NaN measure must not pass)."""
    rule = "D1/T1-convergence-test"
    conv = ctx.need(f"{module}:{func}")
    I = S.Interp(ctx, inline=lambda s: not has_loop(s) and not getattr(s.module, "is_test", False))
    res, fr = I.run(conv, {})
    rets = [e for e in I.events if e["kind"] == "return" and e["frame"] == fr.id]
    n_true = 0
    for ev in rets:
        for (fc, fl) in leaves(ev["value"]):
            if fl is FALSE:
                ctx.proved(rule, conv, ev["node"], construct="return False")
                continue
            if fl is not TRUE and fl.k not in S.BOOL_KINDS:
                ctx.undecided(rule, conv, ev["node"], construct=f"return {_short(ev['node'])}", detail="non-boolean result of the convergence test")
                continue
            n_true += 1
            scen = pc_scenarios(list(ev["pc"]) + list(fc) + ([(fl, True)] if fl is not TRUE else []))
            good = bool(scen)
            shown = []
            nan_note = ""
            unread = []
            for lits in scen:
                ok = False
                unread += [lit for (lit, pol) in lits if not S.understood(lit) or (pol and lit.k == "truth" and lit.a[0].k == "call") or
                           (_mentions_tol(lit) and _tol_bound(lit, True) is None and _tol_bound(_mirror(lit), True) is None)]
                for (lit, pol) in lits:
                    tb = _tol_bound(lit, pol)
                    if tb is None:
                        if not pol and lit.k == "cmp" and lit.a[0] in ("lt", "le") and any(
                                term(a).k == "attr" and term(a).a[1] == "tol" for a in S.atoms_of(lit)):
                            nan_note = f"; `not ({show(lit)})` also holds for a NaN measure, so it is not an upper bound"
                        continue
                    A, k, tol = tb
                    sp = _single_power(A)
                    if sp is None or sp[0].k != "sym":
                        shown.append(f"{show(lit)} [left side is not a power of one input]")
                        continue
                    shown.append(f"{show(lit)} [degree {sp[1]} vs {k}]")
                    if sp[1] == k:
                        ok = True
                good = good and ok
            ctx.decide(rule, True if good else (None if unread else False), conv, ev["node"], construct="return True",
                       detail="True only under " + "; ".join(dict.fromkeys(shown)),
                       bad_detail=(f"the test `{S.brief(unread[0], 100, 3)}` is not understood" if unread and not good else
                                   "a True answer is not guarded by an upper bound on the optimality measure that is homogeneous with settings.tol: "
                                   + ("; ".join(dict.fromkeys(shown)) or "no comparison of an input with settings.tol found") + nan_note))
    if n_true < 1:
        ctx.undecided(rule, conv, None, construct="true-exits", detail="the convergence test never answers True")


# ------------------------------------------------------------------ acceptance condition

class Accept:
    """One replacement of the iterate: scenarios of its in-iteration path condition, each with the quotient that is bounded below."""

    def __init__(self, R: DriverRun, ev):
        self.ev = ev
        self.pc = R.iter_pc(ev)
        self.scenarios = pc_scenarios(self.pc)
        # the reduction ratio(s): quotients that are themselves an operand of a comparison of the acceptance condition
        self.ratios = []
        for (c, pol) in self.pc:
            for a in S.atoms_of(c):
                t = term(a)
                if t.k == "cmp":
                    for side in (t.a[1], t.a[2]):
                        if side.k == "div" and side not in self.ratios:
                            self.ratios.append(side)

    @staticmethod
    def ratio_lower_bound(lit, pol):
        """`c <= R` / `c < R` positively true with R a quotient -> (R, threshold term) else None"""
        if pol and lit.k == "cmp" and lit.a[0] in ("lt", "le") and lit.a[2].k == "div":
            return lit.a[2], lit.a[1]
        return None


def _threshold_ok(ctx, c):
    cv = const_of(c)
    if cv is not None:
        return cv >= 0
    if c.k == "attr" and c.a[1] == "eta1":
        ctx.assume("settings.eta1 >= 0 (admissible acceptance threshold)")
        return True
    return False


def _sign_of(D, lits):
    """sign of the polynomial D under the literals: '+', '-', '0+', '0-' or None (unknown)"""
    if not S.is_num(D):
        return None
    p = poly(D)
    cv = const_of(D)
    if cv is not None:
        return "+" if cv > 0 else ("-" if cv < 0 else "0+")
    if len(p.t) != 1:
        return None
    (m, c), = p.t.items()
    if len(m) != 1 or m[0][1] != 1:
        return None
    a = term(m[0][0])
    s = None
    if a.k in ("abs", "norm", "sqrt") or (a.k == "dot" and a.a[0].key == a.a[1].key):
        s = "0+"
    for (lit, pol) in lits:
        if lit.k == "cmp" and lit.a[0] in ("lt", "le"):
            l, r = lit.a[1], lit.a[2]
            lz, rz = const_of(l), const_of(r)
            if lz == 0 and r.key == a.key:            # 0 < a  /  0 <= a
                s = ("+" if lit.a[0] == "lt" else "0+") if pol else ("0-" if lit.a[0] == "lt" else "-")
            elif rz == 0 and l.key == a.key:          # a < 0  /  a <= 0
                s = ("-" if lit.a[0] == "lt" else "0-") if pol else ("0+" if lit.a[0] == "lt" else "+")
    if s is None:
        return None
    if c < 0:
        s = {"+": "-", "-": "+", "0+": "0-", "0-": "0+"}[s]
    return s


def _is_incremental_mode(lits):
    return any(pol and lit.k == "truth" and lit.a[0].k == "attr" and "incremental" in str(lit.a[0].a[1]) for (lit, pol) in lits)


def _value_call(t, objective=None):
    """t == objective.value(arg) -> arg else None"""
    if t.k == "call" and t.a[0].k == "attr" and t.a[0].a[1] == "value" and len(t.a[1]) == 1 and not t.a[2]:
        return t.a[1][0]
    return None


def d2_descent(ctx, R: DriverRun):
    rule = "D2/T8-descent"
    sc = R.scope
    loop = R.loop
    for ev in R.accepts:
        st = ev["node"]
        acc = Accept(R, ev)
        if not acc.pc:
            ctx.decide(rule, False if S.understood(ev["value"]) and S.no_carried_unknown(ev["value"]) else None, sc, st, construct="accept:unconditional",
                       bad_detail=f"the iterate is replaced by `{show(ev['value'])[:80]}` without any acceptance test")
            continue
        if not acc.ratios:
            ctx.undecided(rule, sc, st, construct="accept:ratio", detail="no reduction-ratio quotient found in the acceptance condition")
            continue
        implied_all, shown = True, []
        unread_accept = False
        den = {}            # ratio key -> [(sign, lits)]
        nums = []           # (expected numerator sign-corrected, lits)
        for lits in acc.scenarios:
            if _is_incremental_mode(lits):
                shown.append("gradient-based mode: descent not claimed")
                continue
            bounded = []
            for (lit, pol) in lits:
                rb = Accept.ratio_lower_bound(lit, pol)
                if rb is not None and _threshold_ok(ctx, rb[1]):
                    bounded.append(rb[0])
                elif pol and lit.k == "or":
                    rs = None
                    for d in lit.a[0]:
                        got = [Accept.ratio_lower_bound(x, p) for (x, p) in flatten(d, True)]
                        got = [g[0] for g in got if g is not None and _threshold_ok(ctx, g[1])]
                        if not got:
                            rs = []
                            shown.append(f"`{show(d)[:120]}` -> NO lower bound on the ratio")
                            break
                        rs = got if rs is None else [r for r in rs if any(r.key == g.key for g in got)]
                    if rs:
                        bounded.extend(rs)
            if not bounded:
                implied_all = False
                if not all(S.understood(lit) for (lit, _) in lits) or any(pol and lit.k == "truth" and lit.a[0].k == "call" for (lit, pol) in lits):
                    unread_accept = True        # a test on the way that this analysis cannot read may be the ratio test
                if not any("NO lower bound" in s for s in shown):
                    shown.append("no `ratio >= non-negative threshold` holds on a path to the acceptance")
                continue
            Rq = bounded[0]
            N, D = Rq.a
            sg = _sign_of(D, lits)
            den.setdefault(Rq.key, []).append((sg, lits, Rq))
            if sg in ("+", "0+"):
                nums.append((N, lits))
            elif sg in ("-", "0-"):
                nums.append((S.neg(N), lits))
        ctx.decide(rule, True if implied_all else (None if unread_accept else False), sc, st, construct="accept=>ratio>=0",
                   detail="every way to the acceptance bounds the reduction ratio below by a non-negative threshold",
                   bad_detail="a step can be accepted without the reduction ratio being >= a non-negative threshold: "
                              + "; ".join(x for x in dict.fromkeys(shown) if "not claimed" not in x))
        if not implied_all:
            continue
        for k, lst in den.items():
            Rq = lst[0][2]
            sgs = {s for (s, _, _) in lst}
            ok = all(s in ("+", "0+", "-", "0-") for s in sgs)
            structural = _single_atom(Rq.a[1]) is not None and S.understood(Rq.a[1]) and \
                all(S.understood(lit) for (_, lits, _) in lst for (lit, _) in lits)      # +-(one unconstrained real): fully understood, and its sign is open
            ctx.decide(rule, True if ok else (False if structural else None), sc, st, construct=f"ratio-denominator:{_ratio_text(Rq)}",
                       detail=f"denominator `{show(Rq.a[1])[:100]}` has a known sign ({', '.join(sorted(str(s) for s in sgs))}) where this quotient is consulted",
                       bad_detail=f"denominator `{show(Rq.a[1])[:120]}` of the reduction ratio has no known sign on the paths where the ratio decides the acceptance; "
                                  f"ratio >= 0 would not imply actual reduction >= 0")
        if not nums:
            continue
        # numerator == objective.value(old iterate) - objective.value(new iterate)
        old, new = ev.get("old"), ev["value"]
        res = {"actual-reduction-definition": True, "reference-objective-form": True, "reference-objective-fresh:entry": True,
               "reference-objective-fresh:accept": True, "accepted-point-is-trial-point": True}
        why = {}
        for (Nexp, lits) in nums:
            n2, o2, x2 = Nexp, old, new
            for (c, pol) in lits:
                n2, o2, x2 = S.restrict(n2, c, pol), S.restrict(o2, c, pol), S.restrict(x2, c, pol)
            for (_, nl) in leaves(n2):
                _check_numerator(nl, o2, x2, R, res, why)
        for k in res:
            ctx.decide(rule, res[k], sc, st, construct=k,
                       detail={"actual-reduction-definition": "the quantity whose sign the ratio carries is objective.value(reference) - objective.value(trial point)",
                               "reference-objective-form": "the reference value is objective.value(iterate)",
                               "reference-objective-fresh:entry": "holds on entry to the loop",
                               "reference-objective-fresh:accept": "is re-established whenever the iterate is replaced (induction over the loop)",
                               "accepted-point-is-trial-point": "the accepted point is the trial point whose reduction was measured"}[k],
                       bad_detail=why.get(k, ""))


def _single_atom(D):
    if S.is_num(D):
        p = poly(D)
        if len(p.t) == 1:
            (m, c), = p.t.items()
            if len(m) == 1 and m[0][1] == 1:
                return term(m[0][0])
    return None


def _ratio_text(Rq):
    return f"({show(Rq.a[0])[:50]})/({show(Rq.a[1])[:50]})"


def _check_numerator(N, old, new, R, res, why):
    """N must be objective.value(old) - objective.value(new)."""
    known = S.understood(N, old, new)

    def fail(k, msg, verdict=False):
        if not known:
            verdict = None          # a value on the way has no model in the executor: nothing is derived about it
        if res[k] is True or (res[k] is None and verdict is False):
            res[k] = verdict
            why[k] = msg
    if not S.is_num(N):
        return fail("actual-reduction-definition", f"numerator `{show(N)[:100]}` is not a number", None)
    p = poly(N)
    trial = ref = None
    others = []
    for m, c in p.t.items():
        a = term(m[0][0]) if len(m) == 1 and m[0][1] == 1 else None
        arg = _value_call(a) if a is not None else None
        if c == -1 and arg is not None and trial is None:
            trial = arg
        else:
            others.append((m, c))
    if trial is None:
        return fail("actual-reduction-definition", f"in default mode the actual reduction `{show(N)[:160]}` is not <reference> - objective.value(trial point)")
    new_ls = [l for (_, l) in leaves(new)]
    if not all(l.key == trial.key for l in new_ls):
        fail("accepted-point-is-trial-point", f"accepted point `{show(new)[:100]}` is not the point `{show(trial)[:100]}` whose objective value was measured")
    refp = Poly({m: c for (m, c) in others})
    reft = num(refp)
    old_ls = [l for (_, l) in leaves(old)] if old is not None else []
    want = [mk("call", mk("attr", _objective_of(N), "value"), (o,), ()) for o in old_ls] if _objective_of(N) is not None else []
    if want and all(reft.key == w.key for w in want):
        return
    # diagnose the reference value
    loop = R.loop
    if reft.k == "phi" and reft.a[0] == loop.label:
        v = reft.a[1]
        init_x, init_v = loop.init.get(R.iterate), loop.init.get(v)
        entry_ok = init_v is not None and init_x is not None and _value_call(init_v) is not None and S.same(_value_call(init_v), init_x)
        if not entry_ok:
            fail("reference-objective-fresh:entry", f"on entry the reference value `{v}` is `{show(init_v)[:100] if init_v is not None else '?'}`, not objective.value(start point)")
        mm = loop.mismatch.get(v)
        if mm is not None:
            # the candidate invariant `reference == objective.value(iterate)` was executed through the body and compared on the back edge
            fail("reference-objective-fresh:accept",
                 f"after an iteration the reference value `{v}` is `{show(mm['back'])[:160]}` while objective.value(iterate) is `{show(mm['want'])[:160]}`: "
                 f"reductions would be measured against a stale value",
                 False if S.understood(mm["back"], mm["want"]) else None)
        elif entry_ok:
            back = loop.back.get(v)
            fail("reference-objective-fresh:accept", f"no invariant was found for the reference value `{v}` "
                                                     f"(after an iteration it is `{show(back)[:160] if back is not None else '?'}`)", None)
        return
    fail("reference-objective-form", f"the reduction is measured against `{show(reft)[:140]}`, which is not objective.value(current iterate `{show(old)[:60] if old is not None else '?'}`)")


def _objective_of(N):
    for a in S.atoms_of(N, deep=False):
        t = term(a)
        if t.k == "call" and t.a[0].k == "attr" and t.a[0].a[1] == "value":
            return t.a[0].a[0]
    return None


# ------------------------------------------------------------------ D4 NaN polarity

def _eval3(c, cmp_value):
    """three-valued evaluation of a condition; cmp_value(cmp term) -> True/False/None for comparisons"""
    if c is TRUE:
        return True
    if c is FALSE:
        return False
    if c.k == "not":
        v = _eval3(c.a[0], cmp_value)
        return None if v is None else not v
    if c.k == "and":
        vs = [_eval3(x, cmp_value) for x in c.a[0]]
        return False if any(v is False for v in vs) else (True if all(v is True for v in vs) else None)
    if c.k == "or":
        vs = [_eval3(x, cmp_value) for x in c.a[0]]
        return True if any(v is True for v in vs) else (False if all(v is False for v in vs) else None)
    if c.k == "bt":
        return _eval3(c.a[0], cmp_value)
    if c.k == "ite":
        vc = _eval3(c.a[0], cmp_value)
        if vc is True:
            return _eval3(S.truth(c.a[1]), cmp_value)
        if vc is False:
            return _eval3(S.truth(c.a[2]), cmp_value)
        va, vb = _eval3(S.truth(c.a[1]), cmp_value), _eval3(S.truth(c.a[2]), cmp_value)
        return va if va == vb else None
    if c.k == "cmp":
        return cmp_value(c)
    if c.k == "truth":
        return cmp_value(c)
    return None


def _isnan_of(c):
    """c is the truth of isnan(arg) -> arg else None"""
    t = c.a[0] if c.k == "truth" else None
    if t is not None and t.k == "call" and t.a[0].k == "ext" and t.a[0].a[0].split(".")[-1] == "isnan" and len(t.a[1]) == 1:
        return t.a[1][0]
    return None


def _nan_cmp(ratios):
    keys = {r.key for r in ratios}

    def f(c):
        if c.k == "truth":
            a = _isnan_of(c)
            return True if a is not None and a.key in keys else None
        if c.a[0] in ("lt", "le", "eq") and (S.atoms_of(c.a[1]) | S.atoms_of(c.a[2])) & keys:
            return False
        return None
    return f


def _minus_inf_cmp(ratios):
    keys = {r.key for r in ratios}

    def f(c):
        if c.k == "truth":
            a = _isnan_of(c)
            return False if a is not None and a.key in keys else None
        if c.a[0] in ("lt", "le"):
            if c.a[2].key in keys and not (S.atoms_of(c.a[1]) & keys):
                return False       # c <= R
            if c.a[1].key in keys and not (S.atoms_of(c.a[2]) & keys):
                return True        # R <= c
        return None
    return f


def d4_nan(ctx, R: DriverRun):
    rule = "D4/T12-nan-polarity"
    sc = R.scope
    for ev in R.accepts:
        acc = Accept(R, ev)
        if not acc.ratios:
            ctx.undecided(rule, sc, ev["node"], construct="accept:ratio", detail="no ratio quotient")
            continue
        rk = {r.key for r in acc.ratios}
        vals = [(_eval3(c, _nan_cmp(acc.ratios)), pol) for (c, pol) in acc.pc if S.atoms_of(c) & rk]
        rejected = any(v is not None and v != pol for (v, pol) in vals)
        allsat = bool(vals) and all(v is not None and v == pol for (v, pol) in vals)
        ctx.decide(rule, True if rejected else (False if allsat else None), sc, ev["node"], construct="nan-ratio-rejects-step",
                   detail="with every comparison on the reduction ratio false the acceptance condition is false",
                   bad_detail="with a NaN reduction ratio the acceptance condition does not evaluate to false: a NaN step would be accepted")
        # radius: its back-edge value for a hopeless step (ratio -> -inf) and for a NaN ratio must be a shrunk radius
        _radius_shrinks(ctx, R, acc, rule)


def _default_of(ctx, module, name):
    """numeric default of the settings factory parameter `name` (None if there is none)"""
    mod = ctx.repo.module(module)
    for sc in (mod.scope.children if mod is not None else []):
        if sc.kind == "function" and name in sc.params() + sc.kwonly():
            d = sc.default_of(name)
            if isinstance(d, ast.Constant) and isinstance(d.value, (int, float)) and not isinstance(d.value, bool):
                return d.value
    return None


def _reachable_leaves(v, cmp_value, related=None, certain=True):
    """[(case, certain)] of the decision tree v that can be selected when comparisons evaluate as cmp_value says.  A test that is not
    decided selects both branches; when such a test is *about the sampled quantity* (`related`) in a form this evaluation cannot
    read, the cases below it are reached `uncertainly` (they may be unreachable)."""
    if v.k != "ite":
        return [(v, certain)]
    unread = []

    def probe(c):
        r = cmp_value(c)
        if r is None and related is not None and (S.atoms_of(c) & related):
            unread.append(c)            # an atomic test about the sampled quantity that the sampler cannot evaluate
        return r
    t = _eval3(v.a[0], probe)
    if t is True:
        return _reachable_leaves(v.a[1], cmp_value, related, certain)
    if t is False:
        return _reachable_leaves(v.a[2], cmp_value, related, certain)
    if unread:
        certain = False
    return _reachable_leaves(v.a[1], cmp_value, related, certain) + _reachable_leaves(v.a[2], cmp_value, related, certain)


def _radius_shrinks(ctx, R, acc, rule):
    sc = R.scope
    loop = R.loop
    radius = [k for k, v in loop.init.items() if isinstance(k, str) and v is not None and v.k == "attr" and "tr_size" in str(v.a[1]) and "min" not in str(v.a[1])]
    if len(radius) != 1:
        ctx.undecided(rule, sc, None, construct="radius-shrink", detail=f"trust-region radius variable not identified (carried variables initialised from settings.tr_size: {radius})")
        return
    rv = radius[0]
    head, back = loop.head[rv], loop.back.get(rv)
    if back is None or not S.is_num(head):
        ctx.undecided(rule, sc, None, construct="radius-shrink", detail="back-edge value of the radius not available")
        return
    for (lab, sampler) in (("hopeless step (ratio -> -inf)", _minus_inf_cmp(acc.ratios)), ("NaN ratio", _nan_cmp(acc.ratios))):
        verdict, why = True, ""
        for (leaf, certain) in _reachable_leaves(back, sampler, {r.key for r in acc.ratios}):
            if not S.is_num(leaf):
                verdict, why = None, f"radius becomes `{S.brief(leaf, 60, 2)}`"
                continue
            if not (S.atoms_of(leaf) & S.atoms_of(head)):
                continue                      # restart from a setting (radius below the minimum)
            q = poly(leaf)
            ph = poly(head)
            fac = None
            if len(q.t) == 1 and len(ph.t) == 1:
                (m, c), = q.t.items()
                (mh, ch), = ph.t.items()
                extra = [a for a in m if a not in mh]
                if all(a in m for a in mh) and len(extra) <= 1:
                    if not extra:
                        fac = float(c / ch)
                    elif term(extra[0][0]).k == "attr" and extra[0][1] == 1:
                        d = _default_of(ctx, R.module, term(extra[0][0]).a[1])
                        fac = None if d is None else float(c / ch) * d
                        if d is not None:
                            ctx.assume(f"settings.{term(extra[0][0]).a[1]} keeps the side of 1 of its default {d}")
            if fac is None:
                if verdict is True:
                    verdict, why = None, f"radius becomes `{S.brief(leaf, 80, 2)}`, whose size relative to the old radius is not known"
            elif fac >= 1 and not (certain and S.understood(leaf)):
                if verdict is True:
                    verdict, why = None, f"for a {lab} the radius may become `{S.brief(leaf, 80, 2)}` (a test on the ratio on the way is not understood)"
            elif fac >= 1:
                verdict, why = False, (f"for a {lab} the radius can become `{S.brief(leaf, 80, 2)}` (factor {fac:g} >= 1): it does not shrink"
                                       + (" and the solver can stall on NaN steps" if "NaN" in lab else ""))
        ctx.decide(rule, verdict, sc, None, construct="nan-ratio-shrinks-radius" if "NaN" in lab else "radius-shrink",
                   detail=f"for a {lab} the radius is multiplied by a factor < 1 (or restarted from the settings)",
                   bad_detail=why)


# ------------------------------------------------------------------ D3 reported iterate

def _reported_ok(log, value, extra_pc):
    """Was `value` certainly handed to a callback parameter (whenever that parameter is truthy) on this path?"""
    for fact, guard in log.items():
        if fact[0] != "called" or len(fact) < 3:
            continue
        f = term(fact[1])
        if f.k != "sym":
            continue
        if fact[2] != value.key:
            # a conditional argument: the case selected on this path
            a = term(fact[2])
            if a.k != "ite":
                continue
            for (c, p) in extra_pc:
                a = S.restrict(a, c, p)
            if not all(l.key == value.key for (_, l) in leaves(a)):
                continue
        # the guard of the fact (`the call certainly happened when ...`) under the conditions of this path, the callback being present
        # (an absent callback has nothing to be told)
        want = {S.truth(f).key: True, mk("cmp", "is", *sorted((f, S.NONE), key=lambda t: t.key)).key: False}
        for (c0, p0) in extra_pc:
            want[c0.key] = p0
            for (c, p) in flatten(c0, p0):
                want[c.key] = p
        g = guard
        for (c, p) in extra_pc:
            g = S.restrict(g, c, p)
        if holds(S.truth(g), want) is True:
            return True
    return False


def _absent(c, p, f):
    """the literal says that the callback parameter f is falsy / None"""
    if c.k == "truth" and c.a[0].key == f.key:
        return not p
    if c.k == "cmp" and c.a[0] in ("is", "eq") and f.key in (c.a[1].key, c.a[2].key) and S.NONE.key in (c.a[1].key, c.a[2].key):
        return p
    return False


def _unread_reports(R, point):
    """Calls whose effect this analysis cannot read and that receive the point (or a function-valued parameter of the driver that is
    called somewhere): one of them may be the report of the point."""
    fsyms = {f[1] for e in R.I.events for f in e.get("log", {}) if f[0] == "called" and term(f[1]).k == "sym"}
    fsyms |= {f[1] for f in R.loop.back_log if f[0] == "called" and term(f[1]).k == "sym"}
    out = []
    for e in R.I.events:
        if e["kind"] != "call" or e.get("inlined"):
            continue
        res = e.get("result")
        if res is None or S.understood(res):
            continue
        ats = set()
        for a in list(e.get("args", [])) + [v for (_, v) in e.get("kws", [])] + [e["callee"]]:
            ats |= S.atoms_of(a)
        if (point is not None and point.key in ats) or (ats & fsyms):
            out.append(e)
    return out


def d3_reported(ctx, R: DriverRun):
    rule = "D3/T2-reported-iterate"
    sc = R.scope
    loop = R.loop
    exhausted = (mk("truth", mk("exhausted", loop.label)), False)     # leaving a `for` loop in the iteration of the replacement is a `break`
    for ev in R.accepts + R.finals:
        ok = True
        for (cs, nv) in leaves(ev["value"]):
            if nv.key == R.head_x.key:
                continue
            pcx = list(R.iter_pc(ev)) + list(cs)
            # at the back edge (when the replacement can reach it) and at every exit that can follow the replacement in the same iteration
            if not any(ev is f for f in R.finals) and not _reported_ok(loop.back_log, nv, pcx):
                ok = False
            for r in R.same_iteration_exits(ev):
                if not contradicts(r["pc"], list(ev["pc"]) + list(cs) + [exhausted]):
                    if not _reported_ok(r["log"], nv, pcx + [exhausted]):
                        ok = False
        if not ok and (not S.understood(ev["value"]) or any(_unread_reports(R, nv) for (_, nv) in leaves(ev["value"]))):
            ok = None
        ctx.decide(rule, ok, sc, ev["node"], construct=f"report-after:{_short(ev['node'])}",
                   detail="accepted iterate is handed to the callback before the next iteration or exit",
                   bad_detail="an accepted iterate can reach the next iteration or an exit without being reported to the callback")
    for r in R.returns:
        pt, flag = _point_flag(r["value"])
        if pt is None:
            continue
        env = r["renv"]
        cur = S.var_value(env.vars, R.iterate)
        ok, why = True, ""
        ncase = 0
        for (cs, p) in leaves(pt):
            ncase += 1
            if ncase > 1:
                # one obligation per case of a merged exit
                ctx.decide(rule, ok, sc, r["node"], construct=f"return {_short(r['node'])} [case {ncase - 1}]",
                           detail="returns the iterate state (last accepted point) or a point reported through the callback on a success exit", bad_detail=why)
                ok, why = True, ""
            cur_r = cur
            for (c, pol) in list(r["pc"]) + list(cs):
                if cur_r is not None:
                    cur_r = S.restrict(cur_r, c, pol)
            if cur_r is not None and all(l.key == p.key for (_, l) in leaves(cur_r)):
                continue          # the iterate state variable itself
            fl = flag
            for (c, pol) in cs:
                fl = S.restrict(fl, c, pol)
            success = all(l is not FALSE for (_, l) in leaves(fl))
            rep = _reported_ok(r["log"], p, list(cs))
            if not (success and rep):
                ok = False if (S.understood(p) and S.understood(fl) and not _unread_reports(R, p)) else None
                why = f"`{show(p)[:80]}` is returned but it is not the accepted iterate" + ("" if success else " and this is not a success exit") + \
                      ("" if rep else "; it was not reported through the callback")
        ctx.decide(rule, ok, sc, r["node"], construct=f"return {_short(r['node'])}",
                   detail="returns the iterate state (last accepted point) or a point reported through the callback on a success exit", bad_detail=why)


# ------------------------------------------------------------------ T6

RATIO_SAMPLES = [("NaN", None), ("ratio < 0", Fraction(-1)), ("ratio == 0", Fraction(0)), ("0 < ratio < eta1", Fraction(1, 2)),
                 ("ratio == eta1", Fraction(1)), ("ratio > eta3", Fraction(10))]
_ETA = {"eta1": Fraction(1), "eta2": Fraction(2), "eta3": Fraction(3)}


def accept_table(ctx, R: DriverRun):
    """The acceptance rule as a truth table over (position of the reduction ratio relative to 0 and the thresholds, did the
    optimality measure decrease): a normal form that does not depend on how the condition is written."""
    tables = []
    for ev in R.accepts:
        acc = Accept(R, ev)
        rk = {r.key for r in acc.ratios}
        entries = [(c, pol) for (c, pol) in acc.pc if S.atoms_of(c) & rk]
        # `new measure <= previous measure`: the right side is the loop-head value of a carried variable whose back-edge value is the left side
        recs = [r for r in R.I.loops.values() if r.frame == R.frame.id]

        def prev_next(prev, new):
            for r in recs:
                for v, h in r.head.items():
                    if h.key == prev.key and v in r.back and any(l.key == new.key for (_, l) in leaves(r.back[v])):
                        return True
            return False
        table = {}
        for (lab, rv) in RATIO_SAMPLES:
            for m in (True, False):
                def cmpv(c, rv=rv, m=m):
                    if c.k != "cmp":
                        a = _isnan_of(c)
                        return (rv is None) if a is not None and a.key in rk else None
                    l, r = c.a[1], c.a[2]
                    if c.a[0] not in ("lt", "le"):
                        return None
                    lr, rr = l.key in rk, r.key in rk
                    if lr != rr:
                        other = r if lr else l
                        cv = const_of(other)
                        if cv is None and other.k == "attr" and other.a[1] in _ETA:
                            cv = _ETA[other.a[1]]
                        if cv is None:
                            return None
                        if rv is None:
                            return False
                        a, b = (rv, cv) if lr else (cv, rv)
                        return a < b if c.a[0] == "lt" else a <= b
                    if lr or rr or (S.atoms_of(c) & rk):
                        return None
                    if prev_next(r, l):
                        return m          # new measure <= previous measure
                    if prev_next(l, r):
                        return not m
                    return None
                vals = [(_eval3(c, cmpv), pol) for (c, pol) in entries]
                if any(v is not None and v != pol for (v, pol) in vals):
                    table[(lab, m)] = False
                elif vals and all(v is not None and v == pol for (v, pol) in vals):
                    table[(lab, m)] = True
                else:
                    table[(lab, m)] = None
        tables.append(table)
    return tables


# ------------------------------------------------------------------ parameters before the solve

WARM_START_PREDICTORS = ("optimism.WarmStart:warm_start_increment", "optimism.WarmStart:warm_start_increment_jax_safe")


def solve_run(ctx, module, func, driver_scope):
    """The load-step entry point executed interprocedurally: helpers of ANY module that contain no loop are followed (their
    assignments to attribute cells such as `objective.p` and their returned values are seen through), the nonlinear driver and the
    warm-start predictors (anchors: the public functions of optimism.WarmStart) stay opaque calls whose arguments and whose
    attribute-cell state at the call are recorded.  -> (Interp, Frame, predictor scopes)"""
    cache = ctx.__dict__.setdefault("_c05_solve_runs", {})
    key = (module, func)
    if key not in cache:
        sv = ctx.need(f"{module}:{func}")
        anchors = [a for a in (ctx.repo.find(q) for q in WARM_START_PREDICTORS) if a is not None]
        I = S.Interp(ctx, opaque=[driver_scope] + anchors, inline=lambda s: not has_loop(s) and not getattr(s.module, "is_test", False), max_depth=8)
        res, fr = I.run(sv, {})
        cache[key] = (I, fr, anchors)
    return cache[key]


def params_before_solve(ctx, rule, module, func, driver_scope, pparam="p"):
    sv = ctx.need(f"{module}:{func}")
    if pparam not in sv.params():
        raise Incomplete(f"{func} has no parameter `{pparam}`")
    obj = mk("sym", sv.params()[0])
    P = mk("sym", pparam)
    I, fr, anchors = solve_run(ctx, module, func, driver_scope)
    calls = [e for e in I.events if e["kind"] == "call"]
    solves = [e for e in calls if e.get("callee_scope") is driver_scope]
    warms = [e for e in calls if e.get("callee_scope") is not None and any(e["callee_scope"] is a for a in anchors)]
    if not solves:
        raise Incomplete(f"{func}: nonlinear solve call not found")
    if not warms:
        raise Incomplete(f"{func}: warm start call not found")
    cell = (obj.key, pparam)
    default = mk("attr", obj, pparam)
    for e in solves:
        v = e["cells"].get(cell, default)
        for (c, pol) in e["pc"]:
            v = S.restrict(v, c, pol)
        ls = [l for (_, l) in leaves(v)]
        ok = all(l.key == P.key for l in ls)
        unassigned = any(l.key == default.key for l in ls)
        other = [l for l in ls if l.key not in (P.key, default.key)]
        if not ok:
            # a call on the way whose effect the executor cannot read and that receives the objective may be the assignment
            unread = [c for c in calls if c is not e and not c.get("inlined") and c.get("result") is not None and not S.understood(c["result"])
                      and any(obj.key in S.atoms_of(a) for a in list(c.get("args", [])) + [x for (_, x) in c.get("kws", [])])]
            if unread or not S.understood(*other):
                ok = None
        ctx.decide(rule, ok, sv, e["node"], construct="params-assigned-before-solve",
                   detail=f"`{show(obj)}.{pparam} = {pparam}` on every path to the solve",
                   bad_detail=(f"a path reaches the nonlinear solve without `{show(obj)}.{pparam} = {pparam}`: the solve (and its success flag) "
                               f"would refer to the previous load step's parameters" if unassigned else
                               f"`{show(obj)}.{pparam}` is `{show(other[0])[:80] if other else '?'}` at the solve, not the parameters the caller asked to solve for"))
    for e in warms:
        v = e["cells"].get(cell, default)
        for (c, pol) in e["pc"]:
            v = S.restrict(v, c, pol)
        assigned = [l for (_, l) in leaves(v) if l.key != default.key]
        # REFUTED: the new parameters themselves are in the cell; some other assigned value: not read by this rule
        early = None if assigned and not any(l.key == P.key for l in assigned) else bool(assigned)
        ctx.decide(rule, None if early is None else (not early), sv, e["node"], construct="warm-start-sees-old-params",
                   detail="no assignment of the new parameters precedes the warm start",
                   bad_detail=f"`{show(obj)}.{pparam}` is assigned before the warm start, so the predictor sees p_new - p_new = 0")
        b = e.get("bound") or {}
        cs = e["callee_scope"].params()
        a0 = b.get(cs[0]) if cs else None
        a2 = b.get(cs[2]) if len(cs) > 2 else None
        okp = a0 is not None and a2 is not None and S.same(a0, obj) and S.same(a2, P)
        if not okp and not (a0 is not None and a2 is not None and S.understood(a0, a2)):
            okp = None
        ctx.decide(rule, okp, sv, e["node"], construct="warm-start-arguments",
                   detail=f"warm_start_increment({show(obj)}, ., {pparam})",
                   bad_detail=f"warm start is called with `{show(a0) if a0 is not None else '?'}` and parameters `{show(a2) if a2 is not None else '?'}`")
    return I, fr, solves


# ------------------------------------------------------------------ settings factories

def settings_wiring(ctx, rule, module, min_sites=1):
    """Every module-level function that returns a record of a namedtuple of the module: a field that receives one of the function's own
    parameters whose name is a field name must be the field of that name (all readers use the names)."""
    mod = ctx.need_module(module)
    n = 0
    for sc in mod.scope.children:
        if sc.kind != "function" or has_loop(sc):
            continue
        if not any(isinstance(x, ast.Return) for x in ast.walk(sc.node)):
            continue
        src_txt = ast.unparse(sc.node)
        I = S.Interp(ctx, inline=lambda s: s.module.name == module and not has_loop(s), max_depth=4)
        try:
            res, fr = I.run(sc, {})
        except Exception:
            continue        # not a function this rule can read; a factory that is skipped makes the count below fail
        recs = [l for (_, l) in leaves(res)]
        if not recs or not all(l.k == "rec" for l in recs):
            continue
        params = set(sc.params()) | set(sc.kwonly())
        fields = [f for (f, _) in recs[0].a[1]]
        if not (params & set(fields)):
            continue
        n += 1
        bad = []
        nargs_bad = False
        for r in recs:
            if r.a[2] != len(fields) and not any(v.k == "attr" for (_, v) in r.a[1]):
                nargs_bad = True
            for (f, v) in r.a[1]:
                for (_, l) in leaves(v):
                    if l.k == "sym" and l.a[0] in params and l.a[0] in fields and l.a[0] != f:
                        bad.append((f, l.a[0]))
                    if l.k == "unk" and l.a[0] == "missing field":
                        nargs_bad = True
        ok = not bad and not nargs_bad
        ctx.decide(rule, ok, sc, None, construct=f"{sc.name}->{recs[0].a[0]}:parameters-to-same-named-fields",
                   detail=f"{len(fields)} fields filled by name",
                   bad_detail=f"{module.split('.')[-1]}.{sc.name} builds {recs[0].a[0]} with " +
                              (", ".join(f"parameter `{a}` in field `{f}`" for f, a in bad) if bad else "a wrong number of arguments") +
                              ": settings are exchanged silently (all readers use the field names)")
    if n < min_sites:
        raise Incomplete(f"{module}: {n} settings factories found ({min_sites} expected)")
    return n
