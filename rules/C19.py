"""C19 -- load stepping: warm start is the linear predictor, scaling is transparent, parameters current.

  D1  predictor sign: warm_start_increment solves  H dx = J_p (p_old - p_new)  (old minus new, unnegated
      operator / right-hand side / result) and every driver *adds* the increment: dx = -H^-1 J_p (p_new - p_old);
      the slot used for the difference is the slot of the Jacobian-vector product;
  D2  in all four drivers the objective's parameters are assigned before the solve and after the warm start;
  D3  scaling transparency: drivers enter with scaling*x0 (and scaled bounds), leave with invScaling*xBar;
      ScaledObjective / BoundConstrainedObjective evaluate the user function at invScaling*xBar, start from
      scaling*x0, store scaling and invScaling = 1/scaling; the scaled preconditioner is the congruence with
      the same diagonal and is initialised at the unscaled point;
  D4  param_index_update slot table.
Not decided: accuracy of the CG solve, numerical equality of scaled and unscaled solutions.
"""
from __future__ import annotations

import ast
import re

from optilint.cfg import cfg_of
from optilint.model import dotted, walk_local
from optilint.core import Incomplete
from optilint.expr import Algebra, NotPolynomial
from . import trustregion as tr
from .common import src, expand, canon, same, calls_in, single_def, def_value, const_value, actual

LEVEL = "other"
RULE_TEXT = ("obligations = (step of the warm-start sign chain) + (driver x parameter-ordering clause) + "
             "(driver/objective x scaling clause) + parameter slot table")
EXPLANATION = ("Static analysis of WarmStart.py, Objective.py and the four load-step drivers: sign-parity chain of the "
               "predictor, dominator-based ordering of warm start / parameter assignment / solve, and algebraic checks "
               "of the diagonal change of variables. Accuracy of the linear solve is not decided.")

WS = "optimism.WarmStart"
OBJ = "optimism.Objective"
DRIVERS = [
    ("optimism.EquationSolver:nonlinear_equation_solve", "solver_algorithm"),
    ("optimism.TrustRegionSPG:solve", "bound_constrained_trust_region_minimize"),
    ("optimism.AlSolver:augmented_lagrange_solve", "solve_sub_step"),
    ("optimism.BoundConstrainedSolver:bound_constrained_solve", "augmented_lagrange_solve"),
]


def run(ctx):
    for m in (WS, OBJ, "optimism.EquationSolver", "optimism.TrustRegionSPG", "optimism.AlSolver",
              "optimism.BoundConstrainedSolver", "optimism.BoundConstrainedObjective"):
        ctx.need_module(m)
    ctx.guard(d1, ctx)
    ctx.guard(d2, ctx)
    ctx.guard(d3, ctx)
    ctx.guard(d4, ctx)
    ctx.trust("scipy.sparse.linalg.cg(A, b, M=...) returns an approximation of A^-1 b")
    ctx.assume("Hessian positive definite at the current solution; diagonal scalings > 0 (property text)")


# ------------------------------------------------------------------ D1

def d1(ctx):
    rule = "D1/T7-predictor-sign"
    for fname in ("warm_start_increment", "warm_start_increment_jax_safe"):
        ws = ctx.need(f"{WS}:{fname}")
        cfg = cfg_of(ws)
        ps = ws.params()
        obj, xn, pnew = ps[0], ps[1], ps[2]
        rets = cfg.returns()
        if len(rets) == 1 and isinstance(rets[0].ast.value, ast.UnaryOp) and isinstance(rets[0].ast.value.op, ast.USub):
            ctx.refuted(rule, ws, rets[0].ast, construct=f"{fname}:returns-cg-solution",
                        detail=f"{fname} returns the negated solution `{src(rets[0].ast.value)}`: the predictor would point away from the new solution")
            continue
        if len(rets) != 1 or not isinstance(rets[0].ast.value, ast.Name):
            ctx.undecided(rule, ws, None, construct=f"{fname}:return", detail="unexpected return shape")
            continue
        r = rets[0]
        dxn = r.ast.value.id
        dd = single_def(cfg, r, dxn)
        call = dd.ast.value if dd is not None and isinstance(dd.ast, ast.Assign) else None
        ok = isinstance(call, ast.Call) and dotted(call.func) == "cg" and isinstance(dd.ast.targets[0], ast.Tuple) \
            and isinstance(dd.ast.targets[0].elts[0], ast.Name) and dd.ast.targets[0].elts[0].id == dxn
        ctx.decide(rule, ok, ws, r.ast, construct=f"{fname}:returns-cg-solution", detail="returns the CG solution unnegated",
                   bad_detail=f"{fname} returns `{dxn}` defined by `{src(dd.ast) if dd else '?'}`, not the (unnegated) CG solution")
        if not ok:
            continue
        A, b = call.args[0], call.args[1]
        # operator: LinearOperator(..., matvec=op) with op = lambda v: objective.hessian_vec(x, v)
        Ae = expand(cfg, dd, A)
        mv = None
        if isinstance(Ae, ast.Call):
            for k in Ae.keywords:
                if k.arg == "matvec":
                    mv = k.value
            if mv is None and len(Ae.args) > 1:
                mv = Ae.args[1]
        okop = False
        shown = src(mv)
        if isinstance(mv, ast.Lambda):
            okop = same(mv.body, f"{obj}.hessian_vec({xn}, {mv.args.args[0].arg})")
        else:
            # try/except form of the jax-safe variant: every definition of the operator is +hessian_vec (maybe .primal)
            if isinstance(A, ast.Name):
                Ad = single_def(cfg, dd, A.id)
                if Ad is not None and isinstance(Ad.ast.value, ast.Call):
                    for k in Ad.ast.value.keywords:
                        if k.arg == "matvec" and isinstance(k.value, ast.Name):
                            defs = cfg.reaching(Ad, k.value.id)
                            okop = bool(defs) and all(isinstance(d.ast.value, ast.Lambda) and
                                                      src(d.ast.value.body).replace(".primal", "") == f"{obj}.hessian_vec({xn}, {d.ast.value.args.args[0].arg})"
                                                      for d in defs)
                            shown = "; ".join(src(d.ast.value) for d in defs)
        ctx.decide(rule, okop, ws, call, construct=f"{fname}:operator-is-hessian", detail=f"operator {shown}",
                   bad_detail=f"linear operator of the warm start is `{shown}`, not v -> +{obj}.hessian_vec({xn}, v)")
        # right-hand side: b = jacobian_p[k]_vec(x, dp) with dp = p_old[k] - p_new[k]
        bdefs = cfg.reaching(dd, b.id) if isinstance(b, ast.Name) else []
        n_b = 0
        for bd in bdefs:
            v = bd.ast.value if isinstance(bd.ast, ast.Assign) else None
            if isinstance(v, ast.Attribute) and v.attr == "primal":
                continue     # b = b.primal
            if not (isinstance(v, ast.Call) and isinstance(v.func, ast.Attribute) and len(v.args) == 2):
                ctx.undecided(rule, ws, bd.ast, construct=f"{fname}:rhs", detail=f"rhs defined as {src(bd.ast)}")
                continue
            n_b += 1
            meth = v.func.attr
            slot = {"jacobian_p_vec": 0, "jacobian_p2_vec": 2}.get(meth)
            dpe = expand(cfg, bd, v.args[1])
            # facts on index
            idx_fact = None
            for (c, lab) in cfg.edge_facts(bd):
                if c.kind == "cond" and isinstance(c.ast, ast.Compare) and isinstance(c.ast.left, ast.Name) and c.ast.left.id == "index" and lab:
                    idx_fact = const_value(c.ast.comparators[0])
            okx = same(v.args[0], xn)
            if "index" in ps:
                want = f"{obj}.p[index] - {pnew}[index]"
                okdp = same(dpe, want)
                okslot = slot is not None and idx_fact == slot
                detail = f"b = {meth}({xn}, {src(dpe)}) under index == {idx_fact}"
            else:
                want = f"{obj}.p[0] - {pnew}"
                okdp = same(dpe, want)
                okslot = slot == 0
                detail = f"b = {meth}({xn}, {src(dpe)})"
            ctx.decide(rule, okx and okdp and okslot, ws, bd.ast, construct=f"{fname}:rhs:{meth}",
                       detail=detail,
                       bad_detail=f"warm-start right-hand side {detail}: expected the slot-{slot} Jacobian-vector product of (old - new) "
                                  f"parameters `{want}` at `{xn}`")
        if n_b == 0:
            ctx.undecided(rule, ws, None, construct=f"{fname}:rhs", detail="no right-hand side definition found")
    # drivers add the increment
    for q, _ in DRIVERS:
        sc = ctx.need(q)
        cfg = cfg_of(sc)
        found = 0
        for n in cfg.nodes:
            if n.kind != "stmt" or n.ast is None:
                continue
            if not any(isinstance(c, ast.Call) and (dotted(c.func) or "").endswith("warm_start_increment") for c in ast.walk(n.ast)):
                continue
            found += 1
            a = n.ast
            if isinstance(a, ast.AugAssign):
                ok = isinstance(a.op, ast.Add) and isinstance(a.value, ast.Call)
                ctx.decide(rule, ok, sc, a, construct="driver-adds-increment", detail=src(a)[:70],
                           bad_detail=f"`{src(a)[:90]}` does not add the warm-start increment")
            elif isinstance(a, ast.Assign) and isinstance(a.targets[0], ast.Name):
                nm = a.targets[0].id
                uses = [m for m in cfg.nodes if m.kind == "stmt" and isinstance(m.ast, ast.AugAssign) and isinstance(m.ast.value, ast.Name)
                        and m.ast.value.id == nm and cfg.dominates(n, m)]
                ok = len(uses) == 1 and isinstance(uses[0].ast.op, ast.Add)
                # and the increment is added to the scaled start point that feeds the solver
                ctx.decide(rule, ok, sc, uses[0].ast if uses else a, construct="driver-adds-increment",
                           detail=src(uses[0].ast) if uses else "", bad_detail=f"the increment `{nm}` is not added (`+=`) to the start point exactly once")
            else:
                ctx.undecided(rule, sc, a, construct="driver-adds-increment", detail=src(a)[:80])
        if found == 0 and "bound_constrained" not in q and "augmented" not in q:
            ctx.undecided(rule, sc, None, construct="driver-adds-increment", detail="no warm start in this driver")


# ------------------------------------------------------------------ D2

def d2(ctx):
    rule = "D2/T2-parameters-before-solve"
    for q, solver in DRIVERS:
        def is_solve(n, solver=solver):
            return any(isinstance(c, ast.Call) and (dotted(c.func) or "").split(".")[-1] == solver for c in ast.walk(n.ast))
        tr.params_before_solve(ctx, rule, q, 0, is_solve)
    # the bound-constrained front end hands the same p to the AL driver and disables its warm start
    bcs = ctx.need("optimism.BoundConstrainedSolver:bound_constrained_solve")
    al = ctx.need("optimism.AlSolver:augmented_lagrange_solve")
    for c in calls_in(bcs):
        if (dotted(c.func) or "").endswith("augmented_lagrange_solve"):
            p = actual(c, al.params(), "p")
            w = actual(c, al.params(), "useWarmStart")
            ok = same(p, "p") and isinstance(w, ast.Constant) and w.value is False
            ctx.decide(rule, ok, bcs, c, construct="front-end-forwards-p-no-second-warm-start",
                       detail="AL driver gets the same p and useWarmStart=False",
                       bad_detail=f"AL driver called with p={src(p)}, useWarmStart={src(w)}: parameters or predictor would be applied twice / stale")


# ------------------------------------------------------------------ D3

def d3(ctx):
    rule = "D3/T6-scaling-transparent"
    for q, solver in DRIVERS:
        if "augmented_lagrange_solve" in q:
            continue
        sc = ctx.need(q)
        cfg = cfg_of(sc)
        obj = sc.params()[0]
        x0 = sc.params()[1]
        # entry: the point handed to the solver derives from obj.scaling * x0
        for n in cfg.nodes:
            if n.kind != "stmt" or n.ast is None:
                continue
            for c in [c for c in ast.walk(n.ast) if isinstance(c, ast.Call) and (dotted(c.func) or "").split(".")[-1] == solver]:
                arg = c.args[1] if len(c.args) > 1 else None
                if not isinstance(arg, ast.Name):
                    ctx.undecided(rule, sc, c, construct="entry-scaled", detail="start point argument is not a name")
                    continue
                defs = cfg.reaching(n, arg.id)
                base = [d for d in defs if isinstance(d.ast, ast.Assign)]
                aug = [d for d in defs if isinstance(d.ast, ast.AugAssign)]
                ok = len(base) == 1 and same(base[0].ast.value, f"{obj}.scaling * {x0}") and \
                    all(isinstance(d.ast.op, ast.Add) for d in aug)
                ctx.decide(rule, ok, sc, c, construct="entry-scaled",
                           detail=f"solver starts from {obj}.scaling*{x0} (+ warm-start increment)",
                           bad_detail=f"start point `{arg.id}` is defined by {[src(d.ast) for d in defs]}, not {obj}.scaling*{x0}")
                # everything that linearises the scaled objective before the solve must do so at the scaled point
                for c2 in ast.walk(sc.node):
                    if not isinstance(c2, ast.Call):
                        continue
                    last = (dotted(c2.func) or "").split(".")[-1]
                    pt = None
                    if last == "warm_start_increment" and len(c2.args) >= 2:
                        pt = c2.args[1]
                    elif last == "update_precond" and len(c2.args) >= 1:
                        pt = c2.args[0]
                    if pt is None:
                        continue
                    okp = isinstance(pt, ast.Name) and pt.id == arg.id
                    ctx.decide(rule, okp, sc, c2, construct=f"{last}-at-the-scaled-point",
                               detail=f"{last} is evaluated at `{src(pt)}`, the scaled start point",
                               bad_detail=f"{last} is evaluated at `{src(pt)}` but the objective lives in the scaled variables `{arg.id}` = {obj}.scaling*{x0}: "
                                          f"Hessian and mixed derivative of the warm start / preconditioner are taken at the wrong point whenever scaling != 1")
        for r in cfg.returns():
            v = r.ast.value
            first = v.elts[0] if isinstance(v, ast.Tuple) else v
            ok = False
            if isinstance(first, ast.BinOp) and isinstance(first.op, ast.Mult):
                sides = [first.left, first.right]
                inv = [s for s in sides if same(s, f"{obj}.invScaling")]
                other = [s for s in sides if not same(s, f"{obj}.invScaling")]
                if inv and other and isinstance(other[0], ast.Name):
                    d = single_def(cfg, r, other[0].id)
                    ok = d is not None and solver in src(d.ast)
            ctx.decide(rule, ok, sc, r.ast, construct="exit-unscaled",
                       detail=f"returns {obj}.invScaling * (solver result)",
                       bad_detail=f"driver returns `{src(first)}`, not {obj}.invScaling times the solver's result")
    # TrustRegionSPG bounds scaled (also part of C05.D3)
    spg = ctx.need("optimism.TrustRegionSPG:solve")
    scfg = cfg_of(spg)
    for nm in [p for p in spg.params() if "bound" in p.lower()]:
        uses = [n for n in scfg.nodes if n.kind == "stmt" and isinstance(n.ast, ast.Assign) and nm in {x.id for x in ast.walk(n.ast.value) if isinstance(x, ast.Name)}]
        ok = len(uses) == 1 and same(uses[0].ast.value, f"objective.scaling * {nm}")
        ctx.decide(rule, ok, spg, uses[0].ast if uses else None, construct=f"bounds-scaled:{nm}",
                   detail=f"{nm} enters as objective.scaling*{nm}", bad_detail=f"bound `{nm}` is not scaled like the iterate: {[src(u.ast) for u in uses]}")
    # ScaledObjective / BoundConstrainedObjective
    for q in (f"{OBJ}:ScaledObjective.__init__", "optimism.BoundConstrainedObjective:BoundConstrainedObjective.__init__"):
        init = ctx.need(q)
        icfg = cfg_of(init)
        kids = {c.name: c for c in init.children if c.kind == "function"}
        so = kids.get("scaled_objective")
        if so is None:
            raise Incomplete(f"{q}: scaled_objective closure not found")
        socfg = cfg_of(so)
        r = socfg.returns()
        e = expand(socfg, r[0], r[0].ast.value) if r else None
        xb = so.params()[0]
        ip = init.params()                     # self, objective_func, x0, p, ...
        selfn, objf, x0n = ip[0], ip[1], ip[2]
        # roles: s = the factor of x0 in the start point handed to the base class, inv = the name defined as 1/s
        sup = [c for c in calls_in(init) if isinstance(c.func, ast.Attribute) and c.func.attr == "__init__"]
        s_name = None
        for c in sup:
            node = [n for n in icfg.nodes if n.ast is not None and any(x is c for x in ast.walk(n.ast))][0]
            for a in c.args:
                if isinstance(a, ast.Name):
                    ex_ = expand(icfg, node, a, depth=1)
                    if isinstance(ex_, ast.BinOp) and isinstance(ex_.op, ast.Mult):
                        for l_, r_ in ((ex_.left, ex_.right), (ex_.right, ex_.left)):
                            if isinstance(r_, ast.Name) and r_.id == x0n and isinstance(l_, ast.Name):
                                s_name = l_.id
        inv_name = None
        # inv = the factor applied to the scaled iterate inside the scaled objective closure
        if isinstance(e, ast.Call) and e.args and isinstance(e.args[0], ast.BinOp) and isinstance(e.args[0].op, ast.Mult):
            for l_, r_ in ((e.args[0].left, e.args[0].right), (e.args[0].right, e.args[0].left)):
                if isinstance(r_, ast.Name) and r_.id == xb and isinstance(l_, ast.Name):
                    inv_name = l_.id
        if not s_name or not inv_name:
            ctx.undecided(rule, init, None, construct=f"{init.cls.name}:roles", detail=f"scaling variable ({s_name}) / its reciprocal ({inv_name}) not identified")
            continue
        ok = len(r) == 1 and (same(e, f"{objf}({inv_name} * {xb}, {so.params()[1]})"))
        ctx.decide(rule, ok, so, r[0].ast if r else None, construct=f"{init.cls.name}:evaluates-at-invScaling*xBar",
                   detail=f"scaled objective = objective_func(invScaling*{xb}, p)",
                   bad_detail=f"scaled objective returns `{src(e)}`, not objective_func(invScaling*{xb}, p)")
        # invScaling = 1/scaling on the scaled branch; both 1 (or ones) on the unscaled branch
        inv_defs = [n for n in icfg.nodes if n.kind == "stmt" and isinstance(n.ast, ast.Assign) and
                    any(isinstance(t, ast.Name) and t.id == inv_name for t in n.ast.targets)]
        for k_, n in enumerate(inv_defs):
            v = n.ast.value
            A = Algebra()
            try:
                good = A.equal(A.lower(v) * A.lower(ast.Name(id=s_name, ctx=ast.Load())), A.const(1))
            except NotPolynomial:
                good = False
            trivial = (const_value(v) == 1.0) or same(v, f"np.ones_like({x0n})")
            if trivial:
                # sibling `scaling` on the same branch must be trivial too
                sdefs = [m for m in icfg.nodes if m.kind == "stmt" and isinstance(m.ast, ast.Assign) and
                         any(isinstance(t, ast.Name) and t.id == s_name for t in m.ast.targets) and
                         [(c.idx, l) for (c, l) in icfg.edge_facts(m)] == [(c.idx, l) for (c, l) in icfg.edge_facts(n)]]
                good = bool(sdefs) and all(const_value(m.ast.value) == 1.0 or same(m.ast.value, f"np.ones_like({x0n})") for m in sdefs)
            ctx.decide(rule, good, init, n.ast, construct=f"{init.cls.name}:invScaling=1/scaling:{'trivial' if trivial else 'reciprocal'}",
                       detail=f"invScaling = {src(v)} is the reciprocal of scaling",
                       bad_detail=f"invScaling = {src(v)} is not the reciprocal of `{s_name}` on its branch")
        # start point and stored attributes
        for c in sup:
            node = [n for n in icfg.nodes if n.ast is not None and any(x is c for x in ast.walk(n.ast))][0]
            f_arg = c.args[0]
            okx = any(same(expand(icfg, node, a), f"{s_name} * {x0n}") for a in c.args if isinstance(a, ast.Name))
            okf = isinstance(f_arg, ast.Name) and f_arg.id == so.name
            ctx.decide(rule, okx and okf, init, c, construct=f"{init.cls.name}:base-init",
                       detail="base class initialised with the scaled objective at scaling*x0",
                       bad_detail=f"base class initialised as `{src(c)[:100]}`")
        for attr, nm_ in (("scaling", s_name), ("invScaling", inv_name)):
            st = [s_ for s_ in walk_local(init.node) if isinstance(s_, ast.Assign) and isinstance(s_.targets[0], ast.Attribute)
                  and s_.targets[0].attr == attr and isinstance(s_.targets[0].value, ast.Name) and s_.targets[0].value.id == selfn]
            ok = len(st) == 1 and same(st[0].value, nm_)
            ctx.decide(rule, ok, init, st[0] if st else None, construct=f"{init.cls.name}:stores-{attr}",
                       detail=f"self.{attr} = {attr}", bad_detail=f"self.{attr} is set to `{src(st[0].value) if st else '?'}`")
        # the preconditioner strategy gets invScaling
        for c in calls_in(init):
            if isinstance(c.func, ast.Name) and c.func.id == "ScaledPrecondStrategy":
                ok = any(isinstance(a, ast.Name) and a.id == inv_name for a in c.args) and not any(isinstance(a, ast.Name) and a.id == s_name for a in c.args)
                ctx.decide(rule, ok, init, c, construct=f"{init.cls.name}:precond-gets-invScaling",
                           detail="ScaledPrecondStrategy(..., invScaling, ...)", bad_detail=f"scaled preconditioner built as `{src(c)[:100]}`")
        # scaling = sqrt(diag K0), K0 = first preconditioner of the given strategy
        for n in icfg.nodes:
            if n.kind == "stmt" and isinstance(n.ast, ast.Assign) and isinstance(n.ast.targets[0], ast.Name) and n.ast.targets[0].id == s_name \
                    and isinstance(n.ast.value, ast.Call) and (dotted(n.ast.value.func) or "").endswith("sqrt"):
                ex_ = expand(icfg, n, n.ast.value)
                ok = bool(re.fullmatch(r"np\.sqrt\(\w+\.precond_at_attempt\(0\)\.diagonal\(\)\)", src(ex_).replace(" ", "")))
                ctx.decide(rule, ok, init, n.ast, construct=f"{init.cls.name}:scaling=sqrt(diag K)", detail=src(n.ast),
                           bad_detail=f"scaling is `{src(ex_)}`, not sqrt of the diagonal of the first preconditioner")
    # ScaledPrecondStrategy: congruence with the same diagonal, initialised at the unscaled point
    for q, diag in ((f"{OBJ}:ScaledPrecondStrategy", "invScaling"), ("optimism.BoundConstrainedObjective:ScaledPrecondStrategy", "diagScaling")):
        cls = ctx.need(q)
        meth = {c.name: c for c in cls.children if c.kind == "function"}
        pa = meth.get("precond_at_attempt")
        ini = meth.get("initialize")
        ctor = meth.get("__init__")
        if not (pa and ini and ctor):
            raise Incomplete(f"{q}: methods missing")
        from .common import Unifier
        up = Unifier(pa)
        sp_, at_ = pa.params()[0], pa.params()[1]
        k_def = up.assigns(f"{sp_}.ps.precond_at_attempt({at_})", target="K")
        k2 = [s_ for s_ in walk_local(pa.node) if isinstance(s_, ast.Assign) and isinstance(s_.targets[0], ast.Name)
              and any(up.match(x_, f"{sp_}.{diag}.T * K * {sp_}.{diag}") for x_ in ast.walk(s_.value))]
        ok = len(k_def) == 1 and len(k2) == 1
        if ok:
            rets_ = pa.returns()
            ok = len(rets_) == 1 and isinstance(rets_[0], ast.Name) and rets_[0].id == k2[0].targets[0].id
        ctx.decide(rule, ok, pa, k2[0] if k2 else None, construct=f"{cls.name}:congruence",
                   detail=f"K2 = D^T K D with D = self.{diag}", bad_detail=f"scaled preconditioner is `{src(k2[0].value) if k2 else '?'}`, not D^T K D with one diagonal D")
        c = [c for c in calls_in(ini) if isinstance(c.func, ast.Attribute) and c.func.attr == "initialize"]
        ok = len(c) == 1 and same(c[0].args[0], f"{ini.params()[0]}.{diag} * {ini.params()[1]}")
        ctx.decide(rule, ok, ini, c[0] if c else None, construct=f"{cls.name}:initialize-at-unscaled-point",
                   detail=f"inner strategy initialised at self.{diag}*x", bad_detail=f"inner strategy initialised at `{src(c[0].args[0]) if c else '?'}`")
        st = [s for s in walk_local(ctor.node) if isinstance(s, ast.Assign) and isinstance(s.targets[0], ast.Attribute) and s.targets[0].attr == diag]
        dpar = [p_ for p_ in ctor.params() if "scaling" in p_.lower()]
        ok = len(st) == 1 and bool(dpar) and dpar[0] in src(st[0].value) and "sparse_diags" in src(st[0].value)
        ctx.decide(rule, ok, ctor, st[0] if st else None, construct=f"{cls.name}:diagonal-from-argument",
                   detail=f"self.{diag} = sparse_diags(dofScaling)", bad_detail=f"self.{diag} = `{src(st[0].value) if st else '?'}`")


# ------------------------------------------------------------------ D4

def d4(ctx):
    from . import C07
    sub = type("Sub", (), {})()
    # reuse the slot-table rule of C07 under this property's rule name
    class Proxy:
        def __init__(self, ctx):
            self._c = ctx
        def __getattr__(self, k):
            return getattr(self._c, k)
        def decide(self, rule, *a, **kw):
            return self._c.decide(rule.replace("D3/T5-parameter-slots", "D4/T5-parameter-slots"), *a, **kw)
        def refuted(self, rule, *a, **kw):
            return self._c.refuted(rule.replace("D3/T5-parameter-slots", "D4/T5-parameter-slots"), *a, **kw)
        def undecided(self, rule, *a, **kw):
            return self._c.undecided(rule.replace("D3/T5-parameter-slots", "D4/T5-parameter-slots"), *a, **kw)
        def proved(self, rule, *a, **kw):
            return self._c.proved(rule.replace("D3/T5-parameter-slots", "D4/T5-parameter-slots"), *a, **kw)
    C07.d3_param_index_update(Proxy(ctx))
    # the Jacobian-vector closures used by the warm start take the parameters from their own argument
    C07.d3_objective_closures(Proxy(ctx), pattern=r"^jac_xp\d*_vec$", min_count=2)


def variants(repo):
    from optilint.selftest import Variant, sub, sub_in_func, alpha_rename, reformat
    W = "optimism/WarmStart.py"
    O = "optimism/Objective.py"
    E = "optimism/EquationSolver.py"
    S = "optimism/TrustRegionSPG.py"
    A = "optimism/AlSolver.py"
    B = "optimism/BoundConstrainedSolver.py"
    BO = "optimism/BoundConstrainedObjective.py"
    return [
        Variant("warm start linearised at the unscaled point", E, sub_in_func("nonlinear_equation_solve", "WarmStart.warm_start_increment(objective, xBar0, p)", "WarmStart.warm_start_increment(objective, x0, p)"), "D3/T6-scaling-transparent"),
        Variant("pNew - p_old", W, sub_in_func("warm_start_increment", "dp = objective.p[index] - pNew[index]", "dp = pNew[index] - objective.p[index]"), "D1/T7-predictor-sign"),
        Variant("return -dx", W, sub_in_func("warm_start_increment", "    return dx ", "    return -dx "), "D1/T7-predictor-sign"),
        Variant("wrong slot difference", W, sub_in_func("warm_start_increment", "dp = objective.p[index] - pNew[index]", "dp = objective.p[index] - pNew[0]"), "D1/T7-predictor-sign"),
        Variant("index 2 uses slot-0 jvp", W, sub_in_func("warm_start_increment", "b = objective.jacobian_p2_vec(x, dp)", "b = objective.jacobian_p_vec(x, dp)"), "D1/T7-predictor-sign"),
        Variant("driver subtracts", E, sub_in_func("nonlinear_equation_solve", "        xBar0 += dxBar\n", "        xBar0 -= dxBar\n"), "D1/T7-predictor-sign"),
        Variant("AL: p assigned before warm start", A, sub_in_func("augmented_lagrange_solve", "        x += WarmStart.warm_start_increment(alObjective, x, p)\n        alObjective.p = p", "        alObjective.p = p\n        x += WarmStart.warm_start_increment(alObjective, x, p)"), "D2/T2-parameters-before-solve"),
        Variant("BCS: drop p on no-warm path", B, sub_in_func("bound_constrained_solve", "        dxBar = 0.0\n        boundConstrainedObjective.p = p", "        dxBar = 0.0"), "D2/T2-parameters-before-solve"),
        Variant("return scaling*xBar", E, sub_in_func("nonlinear_equation_solve", "return objective.invScaling * xBar, solverSuccess", "return objective.scaling * xBar, solverSuccess"), "D3/T6-scaling-transparent"),
        Variant("unscaled upper bound", S, sub_in_func("solve", "uBar = objective.scaling * upperBounds", "uBar = upperBounds"), "D3/T6-scaling-transparent"),
        Variant("scaled objective evaluates at scaling*xBar", O, sub_in_func("ScaledObjective.__init__", "            x = invScaling * xBar", "            x = scaling * xBar"), "D3/T6-scaling-transparent"),
        Variant("invScaling = scaling", O, sub_in_func("ScaledObjective.__init__", "            invScaling = 1.0/scaling", "            invScaling = 1.0*scaling"), "D3/T6-scaling-transparent"),
        Variant("precond gets scaling", O, sub_in_func("ScaledObjective.__init__", "                                                          invScaling)", "                                                          scaling)"), "D3/T6-scaling-transparent"),
        Variant("one-sided congruence", O, sub_in_func("ScaledPrecondStrategy.precond_at_attempt", "self.invScaling.T * K * self.invScaling", "K * self.invScaling"), "D3/T6-scaling-transparent"),
        Variant("warm-start jvp captures self.p", O, sub("jvp(lambda q0: self.grad_x(x, param_index_update(p,0,q0)),", "jvp(lambda q0: self.grad_x(x, param_index_update(self.p,0,q0)),"), "D4/T5-parameter-slots"),
        Variant("param_index_update slot", O, sub("return Params(p[0], p[1], p[2], p[3], newParam, p[5])", "return Params(p[0], p[1], p[2], newParam, p[4], p[5])"), "D4/T5-parameter-slots"),
        Variant("reformat WarmStart", W, reformat(), None),
        Variant("reformat Objective", O, reformat(), None),
        Variant("reformat BoundConstrainedObjective", BO, reformat(), None),
        Variant("alpha-rename warm_start_increment", W, alpha_rename("warm_start_increment"), None),
        Variant("alpha-rename nonlinear_equation_solve", E, alpha_rename("nonlinear_equation_solve"), None),
        Variant("alpha-rename SPG solve", S, alpha_rename("solve"), None),
    ]
